"""C01 - Matrix-triple-product DFT equals the defining Fourier sum and is invertible."""
import cmath
import math
from fractions import Fraction

import numpy as np

from .. import common as C

ID = 'C01'
MODEL = 'c01'
RUNFUN = 'run'
COQ_TARGETS = ['theories/Properties/C01.vo', 'theories/Extract/RunC01.vo']
DESIGN_REF = 'DESIGN.md section 6, C01'
TECHNIQUE = ('Coq proof (ring-generic: triple product = defining double sum; sub-array/offset embedding; '
             'inverse and Parseval over C from roots-of-unity orthogonality) + execution of the extracted model '
             'on the exact group ring Q(i)[C_L] against lentil.fourier')
LEVEL_TEXT = ('Theorems in coq/theories/Properties/C01.v for all shapes, alphas, shifts, offsets and both flags; the '
              'model follows fourier.py line by line and is run exactly (roots of unity as group-ring monomials) '
              'against lentil.dft2/idft2 on every check.')
LEVEL_NOTE = ('Trusted: Coq kernel + stdlib Reals axioms (inverse/Parseval theorems), extraction, harness; BLAS dot, np.exp, '
              'np.sqrt and IEEE rounding are modelled not verified (tolerance 1e-9 relative in the tie).')
TRUSTED = ['Coq 8.16.1 kernel (coqc; coqchk in the thorough tier)',
           'extraction with ExtrOcamlBasic only; ocaml/driver.ml',
           'harness/props/c01.py: codec, evaluation of group-ring elements at exp(-2 pi i/L), np.sqrt of the unitary factor',
           'numpy: BLAS dot, np.exp, out= aliasing rules (modelled; observed through the tie)',
           'parametricity: the theorem instance (any ring / Coquelicot C) and the executed instance (group ring) are the same Gallina term']
ASSUMPTIONS = ['alpha, shift rational (every float is); phases multiples of 1/L with L <= 96 in generated cases',
               'inverse / Parseval theorems: scalars are Coquelicot complex numbers, sqrt is any function with sq(q)^2 = q for q >= 0',
               'Gaussian-integer input data; comparison tolerance 1e-9*(1+max|model|)']
RULE = ('random dft2/idft2/round-trip cases: shapes 1..7 (odd, even, 1, non-square), alpha_r, alpha_c = p/q independent, '
        'shifts k/4 or k/2, offsets in [-6,6], both flags, out in {None, complex buffer, f itself, float buffer, wrong shape} (dft2 and idft2); '
        'whole-pixel shift / shape / offset as uint8..uint64, int8..int32 arrays or numpy scalars; every case under one of the numpy '
        'error states default / raise / ignore with warnings as errors (np.geterr() unchanged); results of a history held to its '
        'end and edited in place by the caller; the entry points with every argument form (scalar, 0-d, 1- / 2- / 3- / 0-element sequences, ndarrays, nested), shape None / '
        'scalar / zero / negative, inputs of rank 0, 1, 3 and empty inputs, and every kind of out= buffer (complex128, float, int, bool, '
        'complex64, clongdouble, object, Fortran order, strided, transposed, wrong shape): values and exception kinds compared with '
        'the model; inputs scaled by 1e-13..1e12 (scale covariance), ndarray subclasses (np.matrix, MaskedArray without masked entries, a metadata '
        'subclass) and Fortran / strided layouts, np.bool_ / int flags, caller input unchanged; near-tie histories (shift or alpha '
        'differing past the 6th decimal between calls); kernels above 2**20 elements with output lengths not divisible by 2, 3, 4; '
        'every real input dtype (int64/32/8, uint8, bool, float64/32/16) through dft2 and idft2; structured inputs: a dense block in a grid of zeros at every (grid length <= 6/7, start, end) per axis, single lit samples, zero '
        'rows/columns in the middle, real, constant, hermitian, sparse and all-zero data; large inputs (sides 31..33, 63..67, 101, 127..129; full-period FFT-equivalent calls and general ones; oracle only: '
        'vectorised defining sum with exact integer phase reduction); histories of 2-4 dft2/idft2 calls on one (input shape, output shape) pair alternating shifted and unshifted calls, each decided as if made first; '
        'non-trivial = m*n>1 and at least two of {alpha_r!=alpha_c, shift!=0, offset!=0, MxN!=mxn}')

TOL = 1e-9


def lcm(a, b):
    return a * b // math.gcd(a, b)


def case_L(c):
    if c['op'] == 'api':
        return api_L(c)
    if c['op'] in ('hist', 'large'):
        return 1
    ar, ac = Fraction(c['ar']), Fraction(c['ac'])
    sr, sc = Fraction(c.get('shr', 0)), Fraction(c.get('shc', 0))
    L = lcm(ar.denominator * sr.denominator, ac.denominator * sc.denominator)
    return L


def rnd_alpha(rng, n):
    t = rng.random()
    if t < 0.2:
        return Fraction(1, n)
    q = rng.choice([1, 2, 3, 4, 5, 6, 7, 8])
    p = rng.randint(-q - 2, q + 2)
    if p == 0:
        p = 1
    return Fraction(p, q)


def rnd_data(rng, m, n):
    return [[[rng.randint(-8, 8), rng.randint(-8, 8)] for _ in range(n)] for _ in range(m)]


def nz(rng):
    v = rng.randint(1, 8)
    return v if rng.random() < 0.5 else -v


def block_data(rng, m, n, r0, r1, c0, c1):
    """a dense block (no zero sample) in rows r0..r1-1, cols c0..c1-1 of an m x n grid of zeros"""
    return [[[nz(rng), rng.randint(-8, 8)] if r0 <= x < r1 and c0 <= y < c1 else [0, 0] for y in range(n)] for x in range(m)]


def structured_data(rng, m, n):
    """inputs a data-dependent fast path could single out: zero borders, a single lit sample, zero rows / columns in the
    middle, real-valued, constant, hermitian, all-zero"""
    kind = rng.choice(['block', 'block', 'single', 'midzero', 'real', 'constant', 'hermitian', 'zero', 'sparse'])
    if kind == 'block':
        r0 = rng.randint(0, m - 1); r1 = rng.randint(r0 + 1, m)
        c0 = rng.randint(0, n - 1); c1 = rng.randint(c0 + 1, n)
        return kind, block_data(rng, m, n, r0, r1, c0, c1)
    if kind == 'single':
        x, y = rng.randrange(m), rng.randrange(n)
        return kind, block_data(rng, m, n, x, x + 1, y, y + 1)
    f = rnd_data(rng, m, n)
    if kind == 'midzero':
        for x in rng.sample(range(m), rng.randint(0, max(0, m - 1))):
            f[x] = [[0, 0] for _ in range(n)]
        for y in rng.sample(range(n), rng.randint(0, max(0, n - 1))):
            for x in range(m):
                f[x][y] = [0, 0]
    elif kind == 'real':
        f = [[[v[0], 0] for v in row] for row in f]
    elif kind == 'constant':
        v = [nz(rng), rng.randint(-8, 8)]
        f = [[list(v) for _ in range(n)] for _ in range(m)]
    elif kind == 'hermitian':         # f(-x) = conj f(x) about the origin index floor(n/2) (where the index exists)
        for x in range(m):
            for y in range(n):
                xs, ys = 2 * (m // 2) - x, 2 * (n // 2) - y
                if 0 <= xs < m and 0 <= ys < n:
                    if (xs, ys) == (x, y):
                        f[x][y][1] = 0
                    elif (xs, ys) > (x, y):
                        f[xs][ys] = [f[x][y][0], -f[x][y][1]]
    elif kind == 'zero':
        f = [[[0, 0] for _ in range(n)] for _ in range(m)]
    else:
        f = [[v if rng.random() < 0.3 else [0, 0] for v in row] for row in f]
    return kind, f


def gen_blocks(rng, tier):
    """a populated block inside a grid of zeros at EVERY (grid length, block start, block end) on one axis, paired with a
    random interval on the other axis: every block parity x grid parity x position"""
    top = 6 if tier == 'quick' else 7
    ivs = [(g, a, b) for g in range(1, top + 1) for a in range(g) for b in range(a + 1, g + 1)]
    for k, (g, a, b) in enumerate(ivs):
        g2, a2, b2 = rng.choice(ivs)
        if k % 2:
            m, r0, r1, n, c0, c1 = g, a, b, g2, a2, b2
        else:
            m, r0, r1, n, c0, c1 = g2, a2, b2, g, a, b
        for _ in range(50):
            op = rng.choice(['dft2', 'dft2', 'dft2', 'idft2', 'roundtrip'])
            if op == 'roundtrip':
                c = {'op': 'roundtrip', 'ar': str(Fraction(1, m)), 'ac': str(Fraction(1, n)), 'M': m, 'N': n,
                     'unitary': rng.random() < 0.5}
            else:
                M, N = (m, n) if rng.random() < 0.4 else (rng.randint(1, top), rng.randint(1, top))
                c = {'op': op, 'ar': str(rnd_alpha(rng, m)), 'ac': str(rnd_alpha(rng, n)), 'M': M, 'N': N,
                     'shr': str(Fraction(rng.randint(-6, 6), rng.choice([1, 1, 2, 4]))) if rng.random() < 0.4 else '0',
                     'shc': str(Fraction(rng.randint(-6, 6), rng.choice([1, 1, 2, 4]))) if rng.random() < 0.4 else '0',
                     'unitary': rng.random() < 0.5, 'out': 'none'}
                if op == 'dft2':
                    c['offr'] = rng.randint(-6, 6) if rng.random() < 0.4 else 0
                    c['offc'] = rng.randint(-6, 6) if rng.random() < 0.4 else 0
            if case_L(c) <= 96:
                break
        c['f'] = block_data(rng, m, n, r0, r1, c0, c1)
        c['data'] = 'block'
        yield c


REAL_DTYPES = ['int64', 'int32', 'int8', 'uint8', 'bool_', 'float64', 'float32', 'float16']


def gen_dtypes(rng, tier, maxn):
    """every real input dtype through dft2 and idft2 (paths that depend on the dtype of the input are a class)"""
    for rep in range(2 if tier == 'quick' else 12):
        for op in ('dft2', 'idft2'):
            for dt in REAL_DTYPES:
                for _ in range(50):
                    m, n = rng.randint(1, maxn), rng.randint(1, maxn)
                    if m * n == 1 and rng.random() < 0.8:
                        continue
                    M, N = (m, n) if rng.random() < 0.4 else (rng.randint(1, maxn), rng.randint(1, maxn))
                    c = {'op': op, 'ar': str(rnd_alpha(rng, m)), 'ac': str(rnd_alpha(rng, n)), 'M': M, 'N': N,
                         'shr': str(Fraction(rng.randint(-6, 6), rng.choice([1, 2, 4]))) if rng.random() < 0.3 else '0',
                         'shc': str(Fraction(rng.randint(-6, 6), rng.choice([1, 2, 4]))) if rng.random() < 0.3 else '0',
                         'unitary': rng.random() < 0.5, 'out': rng.choice(['none', 'none', 'complex']),
                         'forms': 'dtype:' + dt}
                    if op == 'dft2':
                        c['offr'] = rng.randint(-4, 4) if rng.random() < 0.3 else 0
                        c['offc'] = rng.randint(-4, 4) if rng.random() < 0.3 else 0
                    if case_L(c) <= 96:
                        break
                lo, hi = (0, 1) if dt == 'bool_' else (0, 8) if dt == 'uint8' else (-8, 8)
                c['f'] = [[[rng.randint(lo, hi), 0] for _ in range(n)] for _ in range(m)]
                yield c


SMALL_INTS = ['uint8', 'uint16', 'uint32', 'uint64', 'int8', 'int16', 'int32']


def gen_smallint(rng, tier, maxn):
    """whole-pixel shift, shape and offset handed over as small-width / unsigned numpy integers (arrays or numpy scalars):
    the arithmetic on them must not wrap"""
    for rep in range(2 if tier == 'quick' else 10):
        for op in ('dft2', 'idft2'):
            for dt in SMALL_INTS:
                unsigned = dt.startswith('u')
                for _ in range(50):
                    m, n = rng.randint(1, maxn), rng.randint(1, maxn)
                    M, N = (m, n) if rng.random() < 0.4 else (rng.randint(1, maxn), rng.randint(1, maxn))
                    lo = 0 if unsigned else -6
                    c = {'op': op, 'f': rnd_data(rng, m, n), 'ar': str(rnd_alpha(rng, m)), 'ac': str(rnd_alpha(rng, n)),
                         'M': M, 'N': N, 'shr': str(rng.randint(max(lo, 1) if rng.random() < 0.8 else lo, 6)),
                         'shc': str(rng.randint(lo, 6)), 'unitary': rng.random() < 0.5, 'out': 'none',
                         'forms': 'smallint:' + dt, 'intstyle': rng.choice(['array', 'scalars'])}
                    if op == 'dft2':
                        c['offr'], c['offc'] = rng.randint(lo, 5), rng.randint(lo, 5)
                    if case_L(c) <= 96:
                        break
                yield c


def gen_history(rng, maxn):
    """2-4 dft2/idft2 calls in one process on the SAME (input shape, output shape) pair, alternating shifted and
    unshifted calls (and offsets): each call must be the defining sum as if it were the first call of the process"""
    while True:
        m, n = rng.randint(1, maxn), rng.randint(1, maxn)
        M, N = (m, n) if rng.random() < 0.4 else (rng.randint(1, maxn), rng.randint(1, maxn))
        ar, ac = rnd_alpha(rng, m), rnd_alpha(rng, n)
        calls = []
        k = rng.randint(2, 4)
        first_shifted = rng.random() < 0.7
        for i in range(k):
            shifted = (i % 2 == 0) == first_shifted
            fn = rng.choice(['dft2', 'dft2', 'idft2'])
            cl = {'fn': fn, 'f': rnd_data(rng, m, n),
                  'shr': str(Fraction(rng.choice([-5, -3, -2, -1, 1, 2, 3, 5]), rng.choice([1, 2, 4]))) if shifted else '0',
                  'shc': str(Fraction(rng.choice([-5, -3, -2, -1, 1, 2, 3, 5]), rng.choice([1, 2, 4]))) if shifted and rng.random() < 0.8 else '0',
                  'unitary': rng.random() < 0.5}
            if fn == 'dft2':
                cl['offr'] = rng.randint(-4, 4) if rng.random() < 0.4 else 0
                cl['offc'] = rng.randint(-4, 4) if rng.random() < 0.4 else 0
            calls.append(cl)
        c = {'op': 'hist', 'ar': str(ar), 'ac': str(ac), 'M': M, 'N': N, 'calls': calls}
        return c


# ------------------------------------------------------------------ the entry points: argument forms, defaults, refusals
OUT_KINDS = ['none', 'none', 'none', 'complex', 'complex', 'float', 'int', 'bool', 'complex64', 'clongdouble', 'object',
             'fortran', 'sliced', 'badshape', 'transposed']


def mutate_form(rng, a, b, allow_bad=True):
    """one of the forms an argument that is broadcast to two values can arrive in; ['s', v] scalar / 0-d,
    ['q', [..]] a 1-d sequence, ['n', rows] two or more dimensions"""
    t = rng.random()
    if t < 0.35:
        return ['q', [a, b]], (a, b)
    if t < 0.5:
        return ['s', a], (a, a)
    if t < 0.6:
        return ['q', [a]], (a, a)
    if t < 0.7:
        return ['s0', a], (a, a)            # a 0-d array
    if not allow_bad or t < 0.8:
        return ['qa', [a, b]], (a, b)       # a 1-d ndarray
    return rng.choice([['q', []], ['q', [a, b, a]], ['n', [[a, b]]], ['n', [[a], [b]]], ['q', [a, b, a, b]]]), None


def gen_api(rng, maxn):
    for _ in range(200):
        fn = rng.choice(['dft2', 'dft2', 'idft2'])
        m, n = rng.randint(1, maxn), rng.randint(1, maxn)
        if rng.random() < 0.05:
            m = 0                                   # an empty input is legal
        bad_ok = rng.random() < 0.6
        al, ex_al = mutate_form(rng, str(rnd_alpha(rng, max(m, 1))), str(rnd_alpha(rng, n)), bad_ok and rng.random() < 0.35)
        st, ex_st = mutate_form(rng, str(Fraction(rng.randint(-4, 4), rng.choice([1, 2, 4]))),
                                str(Fraction(rng.randint(-4, 4), rng.choice([1, 2]))), bad_ok and rng.random() < 0.35)
        off, ex_off = mutate_form(rng, rng.randint(-4, 4), rng.randint(-4, 4), bad_ok and rng.random() < 0.35)
        t = rng.random()
        if t < 0.3:
            sh, ex_sh = None, (m, n)
        else:
            M = rng.choice([0, -1, -3]) if rng.random() < 0.1 else rng.randint(1, maxn)
            sh, ex_sh = mutate_form(rng, M, rng.randint(1, maxn), bad_ok and rng.random() < 0.35)
        rank = 2
        if bad_ok and rng.random() < 0.2:
            rank = rng.choice([0, 1, 3])
        c = {'op': 'api', 'fn': fn, 'rank': rank, 'f': rnd_data(rng, m, n) if m else [], 'ncols': n,
             'alpha': al, 'shape': sh, 'shift': st, 'offset': off, 'unitary': rng.random() < 0.5,
             'out': rng.choice(OUT_KINDS)}
        if fn == 'idft2':
            c['offset'] = ['q', [0, 0]]
            ex_off = (0, 0)
            if m == 0 and not c['unitary']:
                c['unitary'] = True                 # 0/0: not modelled
        valid = rank == 2 and None not in (ex_al, ex_st, ex_off, ex_sh)
        if valid and (ex_sh[0] <= 0 or ex_sh[1] <= 0) and c['out'] != 'none':
            c['out'] = 'none'
        c['valid'] = valid
        c['expanded'] = [list(ex_al), list(ex_sh), list(ex_st), list(ex_off)] if valid else None
        if api_L(c) <= 96:
            return c
    return c


def form_numbers(fm):
    if fm is None:
        return []
    if fm[0] in ('s', 's0'):
        return [fm[1]]
    if fm[0] in ('q', 'qa'):
        return list(fm[1])
    return [v for row in fm[1] for v in row]


def api_L(c):
    L = 1
    for v in form_numbers(c['alpha']):
        for w in form_numbers(c['shift']) or [0]:
            L = lcm(L, Fraction(v).denominator * Fraction(w).denominator)
    return L


def enc_form(fm, enc):
    if fm[0] in ('s', 's0'):
        return [0] + enc(fm[1])
    if fm[0] in ('q', 'qa'):
        out = [1, len(fm[1])]
        for v in fm[1]:
            out += enc(v)
        return out
    return [2]


def api_out_code(c, ex_shape):
    """what the model is told about the buffer: read off the actual numpy buffer (dtype class, C-array flag, shape)"""
    out = api_make_out(c, ex_shape)
    if out is None:
        return [0]
    if not np.can_cast(complex, out.dtype):
        dt = 1
    elif out.dtype == np.complex128:
        dt = 0
    else:
        dt = 2
    return [1, dt, 1 if out.flags.carray else 0, int(out.shape[0]), int(out.shape[1])]


def api_make_out(c, ex_shape):
    k = c['out']
    if k == 'none':
        return None
    M, N = ex_shape if ex_shape else (1, 1)
    M, N = max(0, M), max(0, N)
    if k == 'complex':
        return np.full((M, N), 3 - 2j, dtype=complex)
    if k in ('float', 'int', 'bool', 'complex64', 'clongdouble', 'object'):
        return np.zeros((M, N), dtype={'float': float, 'int': np.int64, 'bool': np.bool_, 'complex64': np.complex64,
                                       'clongdouble': np.clongdouble, 'object': object}[k])
    if k == 'fortran':
        return np.asfortranarray(np.zeros((M, N), dtype=complex))
    if k == 'sliced':
        return np.zeros((M, 2 * N + 1), dtype=complex)[:, ::2][:, :N]
    if k == 'transposed':
        return np.zeros((N, M), dtype=complex).T if M != N else np.zeros((M, N), dtype=complex).T
    return np.zeros((M + 1, N), dtype=complex)


def py_form(fm, conv):
    if fm is None:
        return None
    if fm[0] == 's':
        return conv(fm[1])
    if fm[0] == 's0':
        return np.array(conv(fm[1]))
    if fm[0] == 'q':
        return [conv(v) for v in fm[1]]
    if fm[0] == 'qa':
        return np.array([conv(v) for v in fm[1]])
    return np.array([[conv(v) for v in row] for row in fm[1]])


def run_api(lentil, c):
    qf = lambda v: float(Fraction(v))
    if c['rank'] == 2:
        f = to_np(c['f']) if c['f'] else np.zeros((0, c['ncols']), dtype=complex)
    elif c['rank'] == 0:
        f = np.array(1.0 + 2.0j)
    elif c['rank'] == 1:
        f = np.arange(3, dtype=complex)
    else:
        f = np.ones((2, 2, 2), dtype=complex)
    ex_shape = tuple(c['expanded'][1]) if c.get('expanded') else None
    if ex_shape is None and c['shape'] is not None and c['shape'][0] in ('q', 'qa', 's', 's0'):
        nums = form_numbers(c['shape'])
        if len(nums) in (1, 2):
            ex_shape = (nums[0], nums[-1])
    out = api_make_out(c, ex_shape)
    kw = {'shape': py_form(c['shape'], int), 'shift': py_form(c['shift'], qf), 'unitary': c['unitary'], 'out': out}
    try:
        if c['fn'] == 'dft2':
            F = lentil.fourier.dft2(f, py_form(c['alpha'], qf), offset=py_form(c['offset'], int), **kw)
        else:
            F = lentil.fourier.idft2(f, py_form(c['alpha'], qf), **kw)
        res = {'arr': np.asarray(F).tolist(), 'shape': list(np.asarray(F).shape)}
        if out is not None:
            res['same_buffer'] = F is out
            res['out_differs'] = not np.array_equal(np.asarray(out), np.asarray(F))
        return res
    except Exception as e:
        return {'err': type(e).__name__}


def gen_neartie(rng, maxn):
    """2-4 calls with identical shapes, offsets and flags whose shift (or alpha) differs from an earlier call's only past
    the 6th decimal: each call must still be ITS OWN defining sum (memo keys that quantise an argument are a class)"""
    m, n = rng.randint(2, maxn), rng.randint(2, maxn)
    M, N = (m, n) if rng.random() < 0.4 else (rng.randint(2, maxn), rng.randint(2, maxn))
    ar, ac = rnd_alpha(rng, m), rnd_alpha(rng, n)
    fn = rng.choice(['dft2', 'dft2', 'idft2'])
    base = {'fn': fn, 'unitary': rng.random() < 0.5,
            'shr': str(Fraction(rng.choice([-5, -3, -1, 0, 1, 2, 3]), rng.choice([1, 2, 4]))),
            'shc': str(Fraction(rng.choice([-5, -3, -1, 0, 1, 2, 3]), rng.choice([1, 2, 4])))}
    if fn == 'dft2':
        base['offr'], base['offc'] = rng.randint(-3, 3), rng.randint(-3, 3)
    what = rng.choice(['shift', 'shift', 'alpha'])
    f = rnd_data(rng, m, n)
    calls = []
    for i in range(rng.randint(2, 4)):
        cl = dict(base, f=f if rng.random() < 0.6 else rnd_data(rng, m, n))
        if i:
            eps = Fraction(rng.choice([1, 2, 4, 7, -3, -4]), 10 ** 7)        # 1e-7 .. 7e-7
            if what == 'shift':
                cl['shr'] = str(Fraction(base['shr']) + eps)
                if rng.random() < 0.5:
                    cl['shc'] = str(Fraction(base['shc']) - eps)
            else:
                cl['ar'] = str(ar * (1 + eps))
        calls.append(cl)
    return {'op': 'hist', 'ar': str(ar), 'ac': str(ac), 'M': M, 'N': N, 'calls': calls, 'neartie': what}


BIG_ROWS = [63, 65, 67, 101, 127]
BIG_COLS = [64, 65, 66]
DECADES = [31, 32, 33, 63, 64, 65, 66, 67, 127, 128, 129]


def gen_huge(rng, k):
    """transforms whose row (or column) kernel exceeds 2**20 elements, with an output length not divisible by 2, 3, 4
    (blocked / chunked paths behind size thresholds are a class): oracle only"""
    big_in = rng.choice([1100, 1040, 1200, 1061])
    big_out = rng.choice([1009, 2003, 3001, 1511])        # primes: not divisible by any block count
    small_in, small_out = rng.randint(1, 4), rng.randint(1, 5)
    fn = rng.choice(['dft2', 'dft2', 'idft2'])
    c = {'op': 'large', 'fn': fn, 'seed': rng.randrange(10 ** 6), 'shr': str(Fraction(rng.randint(-8, 8), 4)),
         'shc': str(Fraction(rng.randint(-8, 8), 4)), 'offr': 0, 'offc': 0, 'unitary': rng.random() < 0.5, 'forms': 'tuple',
         'out': rng.choice(['none', 'complex'])}
    if k % 2 == 0:
        c.update(m=big_in, n=small_in, M=big_out, N=small_out)
    else:
        c.update(m=small_in, n=big_in, M=small_out, N=big_out)
    c['ar'] = str(Fraction(1, c['M'])) if rng.random() < 0.5 else str(Fraction(rng.choice([1, 2, 3]), c['m'] + rng.randint(0, 9)))
    c['ac'] = str(Fraction(1, c['N'])) if rng.random() < 0.5 else str(Fraction(rng.choice([1, 2, 3]), c['n'] + rng.randint(0, 9)))
    if fn == 'dft2' and rng.random() < 0.5:
        c['offr'], c['offc'] = rng.randint(-9, 9), rng.randint(-9, 9)
    return c


def gen_large(rng, k):
    """large inputs (size-dependent branches are a class): oracle only, data regenerated from a seed.
    Even k: the FFT-equivalent call (alpha = 1/shape, same shape, no shift/offset) on odd x {even, odd} shapes;
    odd k: a large call that is not FFT-equivalent (shift, offset, alpha != 1/n or another output shape)"""
    if k % 2 == 0:
        m, n = rng.choice(BIG_ROWS), rng.choice(BIG_COLS)
        if rng.random() < 0.3:
            m, n = n, m
        if rng.random() < 0.25:
            m, n = rng.choice(DECADES), rng.choice(DECADES)
        return {'op': 'large', 'fn': rng.choice(['dft2', 'dft2', 'idft2', 'roundtrip']), 'm': m, 'n': n,
                'seed': rng.randrange(10 ** 6), 'ar': f'1/{m}', 'ac': f'1/{n}', 'M': m, 'N': n,
                'shr': '0', 'shc': '0', 'offr': 0, 'offc': 0, 'unitary': rng.random() < 0.5,
                'forms': rng.choice(['tuple', 'tuple', 'default'])}
    m, n = rng.choice(DECADES), rng.choice(DECADES)
    var = rng.choice(['shift', 'offset', 'alpha', 'shape', 'all'])
    c = {'op': 'large', 'fn': rng.choice(['dft2', 'dft2', 'idft2']), 'm': m, 'n': n, 'seed': rng.randrange(10 ** 6),
         'ar': f'1/{m}', 'ac': f'1/{n}', 'M': m, 'N': n, 'shr': '0', 'shc': '0', 'offr': 0, 'offc': 0,
         'unitary': rng.random() < 0.5, 'forms': 'tuple'}
    if var in ('shift', 'all'):
        c['shr'] = str(Fraction(rng.randint(-9, 9), rng.choice([1, 2, 4])))
        c['shc'] = str(Fraction(rng.randint(-9, 9), rng.choice([1, 2, 4])))
    if var in ('offset', 'all') and c['fn'] == 'dft2':
        c['offr'], c['offc'] = rng.randint(-20, 20), rng.randint(-20, 20)
    if var in ('alpha', 'all'):
        c['ar'] = str(Fraction(rng.choice([1, 1, 2, 3]), rng.choice([m - 1, m + 1, 2 * m, 48])))
        c['ac'] = str(Fraction(rng.choice([1, 1, 2, -1]), rng.choice([n + 1, 2 * n, n + 3, 40])))
    if var in ('shape', 'all'):
        c['M'], c['N'] = rng.choice(DECADES[:8]), rng.choice(DECADES[:8])
    if var == 'offset' and c['fn'] == 'idft2':
        c['shr'] = '1/2'
    return c


def generate(rng, tier):
    n_cases = 160 if tier == 'quick' else 2500
    maxn = 6 if tier == 'quick' else 7
    for k in range(12 if tier == 'quick' else 120):
        c = gen_large(rng, k)
        if k % 3 == 2:              # zero borders at large sizes as well
            r0 = rng.randint(0, c['m'] // 2); r1 = rng.randint(r0 + 1, c['m'])
            c0 = rng.randint(0, c['n'] // 2); c1 = rng.randint(c0 + 1, c['n'])
            c['block'] = [r0, r1, c0, c1]
        yield c
    for _ in range(40 if tier == 'quick' else 400):
        yield gen_history(rng, maxn)
    for _ in range(25 if tier == 'quick' else 250):
        yield gen_neartie(rng, maxn)
    for k in range(4 if tier == 'quick' else 16):
        yield gen_huge(rng, k)
    for _ in range(120 if tier == 'quick' else 1200):
        yield gen_api(rng, maxn)
    for c in gen_blocks(rng, tier):
        yield c
    for c in gen_dtypes(rng, tier, maxn):
        yield c
    for c in gen_smallint(rng, tier, maxn):
        yield c
    out = 0
    while out < n_cases:
        t = rng.random()
        m, n = rng.randint(1, maxn), rng.randint(1, maxn)
        if t < 0.62:
            M, N = (m, n) if rng.random() < 0.25 else (rng.randint(1, maxn), rng.randint(1, maxn))
            c = {'op': 'dft2', 'f': rnd_data(rng, m, n), 'ar': str(rnd_alpha(rng, m)), 'ac': str(rnd_alpha(rng, n)),
                 'M': M, 'N': N,
                 'shr': str(Fraction(rng.randint(-6, 6), rng.choice([1, 1, 2, 4]))) if rng.random() < 0.6 else '0',
                 'shc': str(Fraction(rng.randint(-6, 6), rng.choice([1, 1, 2, 4]))) if rng.random() < 0.6 else '0',
                 'offr': rng.randint(-6, 6) if rng.random() < 0.6 else 0,
                 'offc': rng.randint(-6, 6) if rng.random() < 0.6 else 0,
                 'unitary': rng.random() < 0.5,
                 'out': rng.choice(['none', 'none', 'complex', 'self', 'float', 'badshape', 'complex64'])}
            if c['out'] == 'self' and (M, N) != (m, n):
                c['out'] = 'complex'
        elif t < 0.8:
            M, N = (m, n) if rng.random() < 0.4 else (rng.randint(1, maxn), rng.randint(1, maxn))
            c = {'op': 'idft2', 'f': rnd_data(rng, m, n), 'ar': str(rnd_alpha(rng, m)), 'ac': str(rnd_alpha(rng, n)),
                 'M': M, 'N': N,
                 'shr': str(Fraction(rng.randint(-4, 4), rng.choice([1, 2]))) if rng.random() < 0.4 else '0',
                 'shc': str(Fraction(rng.randint(-4, 4), rng.choice([1, 2]))) if rng.random() < 0.4 else '0',
                 'unitary': rng.random() < 0.5,
                 'out': rng.choice(['none', 'complex', 'complex', 'float', 'badshape', 'complex64'])}
        else:
            c = {'op': 'roundtrip', 'f': rnd_data(rng, m, n), 'ar': str(Fraction(1, m)), 'ac': str(Fraction(1, n)),
                 'M': m, 'N': n, 'unitary': rng.random() < 0.5}
        if c['op'] in ('dft2', 'idft2') and c.get('out') != 'self':
            t2 = rng.random()
            if t2 < 0.12:               # amplitudes scaled over many decades: the transform is linear (scale covariance)
                c['scale'] = rng.choice(['1e-13', '1e-11', '1e-9', '1e-6', '1e7', '1e12'])
            elif t2 < 0.24:             # ndarray subclasses carrying the same data
                c['container'] = rng.choice(['matrix', 'masked', 'subclass', 'fortran', 'strided'])
            if rng.random() < 0.15:     # truthy / falsy flags that are not the bool singletons
                c['flag'] = rng.choice(['np', 'int'])
        if rng.random() < 0.3:          # structured inputs (data-dependent fast paths are a class)
            c['data'], c['f'] = structured_data(rng, m, n)
        if c['op'] in ('dft2', 'idft2') and c.get('out') != 'self' and rng.random() < 0.25:
            # the documented argument forms: scalar alpha / shape, ndarray or list arguments, array_like (list, integer) input
            c['forms'] = rng.choice(['scalar', 'scalar', 'ndarray', 'list_input', 'int_input'])
            if c['forms'] == 'scalar':
                c['ac'] = c['ar']
                if rng.random() < 0.7:
                    c['N'] = c['M']
            if c['forms'] == 'int_input':
                c['f'] = [[[v[0], 0] for v in row] for row in c['f']]
        if case_L(c) > 96:
            continue
        out += 1
        yield c


def classify(c):
    if c['op'] == 'api':
        return 'api/' + c['fn'] + ('/valid' if c['valid'] else '/malformed') + '/out:' + c['out']
    if c['op'] == 'large':
        fftlike = (c['ar'], c['ac'], c['M'], c['N'], c['shr'], c['shc'], c['offr'], c['offc']) == \
                  (f'1/{c["m"]}', f'1/{c["n"]}', c['m'], c['n'], '0', '0', 0, 0)
        return 'large/' + c['fn'] + ('/full-period' if fftlike else '/general') + ('/unitary' if c['unitary'] else '')
    if c['op'] == 'hist':
        if c.get('neartie'):
            return 'hist/near-tie-' + c['neartie']
        return 'hist/' + '-'.join(cl['fn'] + ('*' if Fraction(cl['shr']) != 0 or Fraction(cl['shc']) != 0 else '') for cl in c['calls'])
    return (c['op'] + ('/' + c.get('out', 'none') if c['op'] in ('dft2', 'idft2') else '') + ('/unitary' if c.get('unitary') else '')
            + ('/' + c['forms'] if c.get('forms') else '') + ('/data:' + c['data'] if c.get('data') else '')
            + ('/scaled' if c.get('scale') else '') + ('/' + c['container'] if c.get('container') else '')
            + ('/flag:' + c['flag'] if c.get('flag') else ''))


def nontrivial(c):
    if c['op'] == 'api':
        return True
    if c['op'] == 'large':
        return True
    if c['op'] == 'hist':
        return len(c['calls'][0]['f']) * len(c['calls'][0]['f'][0]) > 1
    m, n = len(c['f']), len(c['f'][0])
    if m * n <= 1:
        return False
    if c['op'] == 'roundtrip':
        return True
    k = 0
    k += c['ar'] != c['ac']
    k += Fraction(c.get('shr', 0)) != 0 or Fraction(c.get('shc', 0)) != 0
    k += c.get('offr', 0) != 0 or c.get('offc', 0) != 0
    k += (c['M'], c['N']) != (m, n)
    return k >= 2


# ------------------------------------------------------------------ model side
def enc_f(f):
    out = [len(f), len(f[0])]
    for row in f:
        for v in row:
            out += C.enc_c((Fraction(v[0]), Fraction(v[1])))
    return out


def enc_out(c):
    o = c.get('out', 'none')
    if o == 'none':
        return [0]
    if o in ('complex', 'self'):
        return [1, c['M'], c['N']]
    if o in ('float', 'complex64'):      # numpy refuses to cast complex128 into complex64 under 'safe' casting
        return [2, c['M'], c['N']]
    return [1, c['M'] + 1, c['N']]


def encode(c):
    if c['op'] == 'api':
        L = api_L(c)
        out = [5 if c['fn'] == 'dft2' else 6, L, c['rank']]
        if c['rank'] == 2:
            out += enc_f(c['f']) if c['f'] else [0, c['ncols']]
        qe = lambda v: C.enc_q(Fraction(v))
        ze = lambda v: [int(v)]
        out += enc_form(c['alpha'], qe)
        out += [0] if c['shape'] is None else [1] + enc_form(c['shape'], ze)
        out += enc_form(c['shift'], qe) + enc_form(c['offset'], ze) + [1 if c['unitary'] else 0]
        ex_shape = tuple(c['expanded'][1]) if c.get('expanded') else None
        return out + api_out_code(c, ex_shape)
    if c['op'] == 'large':
        return None          # too large for the exact group ring: decided by the vectorised defining sum (oracle)
    L = case_L(c)
    if c['op'] == 'dft2':
        oe = enc_out(c)
        return ([1, L] + enc_f(c['f']) + C.enc_q(Fraction(c['ar'])) + C.enc_q(Fraction(c['ac'])) + [c['M'], c['N']]
                + C.enc_q(Fraction(c['shr'])) + C.enc_q(Fraction(c['shc'])) + [c['offr'], c['offc']]
                + [1 if c['unitary'] else 0] + oe)
    if c['op'] == 'idft2':
        return ([2, L] + enc_f(c['f']) + C.enc_q(Fraction(c['ar'])) + C.enc_q(Fraction(c['ac'])) + [c['M'], c['N']]
                + C.enc_q(Fraction(c['shr'])) + C.enc_q(Fraction(c['shc'])) + [1 if c['unitary'] else 0] + enc_out(c))
    if c['op'] == 'roundtrip':
        return [3, L] + enc_f(c['f']) + [1 if c['unitary'] else 0]
    return None      # histories: every call is decided by the oracle (the single calls are compared with the model above)


def decode(c, ints):
    if c['op'] == 'api':
        L = api_L(c)
        rd = C.Reader(ints, L)
        st = rd.z()
        if st == 1:
            return {'err': C.ERRNAMES[rd.z()]}
        a = rd.arr()
        nums = form_numbers(c['alpha'])
        ar, ac = Fraction(nums[0]), Fraction(nums[-1])
        scale = math.sqrt(abs(float(ar * ac))) if c['unitary'] else 1.0
        return {'arr': [[C.kval(v, L) * scale for v in row] for row in a]}
    L = case_L(c)
    rd = C.Reader(ints, L)
    st = rd.z()
    if st == 1:
        return {'err': C.ERRNAMES[rd.z()]}
    a = rd.arr()
    scale = math.sqrt(abs(float(Fraction(c['ar']) * Fraction(c['ac'])))) if c['unitary'] else 1.0
    if c['op'] == 'roundtrip':       # the unitary factor is applied twice (forward and inverse)
        scale = abs(float(Fraction(c['ar']) * Fraction(c['ac']))) if c['unitary'] else 1.0
    return {'arr': [[C.kval(v, L) * scale for v in row] for row in a]}


# ------------------------------------------------------------------ implementation side
def to_np(f):
    return np.array([[complex(v[0], v[1]) for v in row] for row in f], dtype=complex)


def make_out(c, f):
    o = c.get('out', 'none')
    rng = np.random.default_rng(7)
    if o == 'none':
        return None
    if o == 'complex':
        return (rng.normal(size=(c['M'], c['N'])) + 1j * rng.normal(size=(c['M'], c['N']))).astype(complex)
    if o == 'self':
        return f
    if o == 'float':
        return rng.normal(size=(c['M'], c['N']))
    if o == 'complex64':
        return np.zeros((c['M'], c['N']), dtype=np.complex64)
    return np.zeros((c['M'] + 1, c['N']), dtype=complex)


def fresh_state():
    """every case starts as if it were the first call of the process: memoised helpers of the library are emptied
    (state carried between calls is exercised deliberately, inside the history cases)"""
    import sys
    for name, mod in list(sys.modules.items()):
        if name == 'lentil' or name.startswith('lentil.'):
            for v in list(vars(mod).values()):
                cc = getattr(v, 'cache_clear', None)
                if callable(cc):
                    try:
                        cc()
                    except Exception:
                        pass
            for k, v in list(vars(mod).items()):          # module-level memo tables
                if isinstance(v, dict) and 'cache' in k.lower():
                    v.clear()


def run_history(lentil, c):
    out = []
    held = []
    for k, cl in enumerate(c['calls']):
        if held and k % 2 == 1:             # the caller edits an earlier result in place: later calls must not see it
            held[-1][1][...] = 1e3 - 7j
            held[-1] = (held[-1][0], held[-1][1], np.array(held[-1][1], copy=True))
        alpha = (float(Fraction(cl.get('ar', c['ar']))), float(Fraction(cl.get('ac', c['ac']))))
        f = to_np(cl['f'])
        shift = (float(Fraction(cl['shr'])), float(Fraction(cl['shc'])))
        try:
            if cl['fn'] == 'dft2':
                F = lentil.fourier.dft2(f, alpha, shape=(c['M'], c['N']), shift=shift, offset=(cl['offr'], cl['offc']),
                                        unitary=cl['unitary'])
            else:
                F = lentil.fourier.idft2(f, alpha, shape=(c['M'], c['N']), shift=shift, unitary=cl['unitary'])
            out.append({'arr': np.asarray(F).tolist()})
            held.append((k, F, np.array(F, copy=True)))
        except Exception as e:
            out.append({'err': type(e).__name__})
    res = {'calls': out}
    for k, F, snap in held:                 # a result must not be a view of memory a later call writes to
        if not np.array_equal(np.asarray(F), snap):
            res['held_changed'] = f'the array returned by call {k + 1} of the history was changed by a later call'
            break
    return res


class Big(str):
    """a large result array: a short description as far as JSON is concerned (it is regenerated by running the case),
    the array itself in the attribute [a]"""
    def __new__(cls, a):
        a = np.asarray(a)
        o = super().__new__(cls, f'<{a.shape[0]}x{a.shape[1]} complex array, max|.|={float(np.max(np.abs(a))):.6g}>')
        o.a = a
        return o


def large_data(c):
    g = np.random.default_rng(c['seed'])
    d = g.integers(-8, 9, size=(2, c['m'], c['n']))
    f = (d[0] + 1j * d[1]).astype(complex)
    if c.get('block'):               # a populated block (no zero sample) in a grid of zeros
        r0, r1, c0, c1 = c['block']
        f[f == 0] = 1.0
        keep = np.zeros(f.shape, dtype=bool)
        keep[r0:r1, c0:c1] = True
        f[~keep] = 0
    return f


def run_large(lentil, c):
    f = large_data(c)
    alpha = (float(Fraction(c['ar'])), float(Fraction(c['ac'])))
    shift = (float(Fraction(c['shr'])), float(Fraction(c['shc'])))
    try:
        if c['fn'] == 'roundtrip' or c.get('forms') == 'default':
            # the documented default forms: shape=None, no shift / offset arguments
            if c['fn'] == 'dft2':
                return {'np': Big(lentil.fourier.dft2(f, alpha, unitary=c['unitary']))}
            if c['fn'] == 'idft2':
                return {'np': Big(lentil.fourier.idft2(f, alpha, unitary=c['unitary']))}
            F = lentil.fourier.dft2(f, alpha, unitary=c['unitary'])
            return {'np': Big(lentil.fourier.idft2(F, alpha, unitary=c['unitary'])), 'fwd': Big(F)}
        out = None
        if c.get('out') == 'complex':
            out = np.full((c['M'], c['N']), 7.0 - 3.0j, dtype=complex)          # stale contents
        if c['fn'] == 'dft2':
            F = lentil.fourier.dft2(f, alpha, shape=(c['M'], c['N']), shift=shift, offset=(c['offr'], c['offc']),
                                    unitary=c['unitary'], out=out)
        else:
            F = lentil.fourier.idft2(f, alpha, shape=(c['M'], c['N']), shift=shift, unitary=c['unitary'], out=out)
        res = {'np': Big(F)}
        if out is not None and (F is not out):
            res['not_buffer'] = True
        return res
    except Exception as e:
        return {'err': type(e).__name__}


def kernel_matrix(alpha, n, off, shift, N):
    """exp(-2 pi i alpha (x - n//2 + off)(u - N//2 - shift)) as an (n x N) matrix, the phase reduced EXACTLY modulo one
    turn in integer arithmetic before the floating-point exponential"""
    den = alpha.denominator * shift.denominator
    bound = abs(alpha.numerator) * (n + abs(off) + 1) * ((N + 1) * shift.denominator + abs(shift.numerator))
    if bound < 2 ** 62 and den < 2 ** 62:          # exact in int64
        X = np.arange(n, dtype=np.int64) - n // 2 + off
        U = (np.arange(N, dtype=np.int64) - N // 2) * shift.denominator - shift.numerator
        K = (alpha.numerator * np.outer(X, U)) % den
        return np.exp(-2j * np.pi * (K.astype(np.float64) / float(den)))
    X = np.arange(n, dtype=object) - n // 2 + off
    U = (np.arange(N, dtype=object) - N // 2) * shift.denominator - shift.numerator
    K = (alpha.numerator * np.outer(X, U)) % den
    return np.exp(-2j * np.pi * (K.astype(np.float64) / float(den)))


def defining_sum_np(f, ar, ac, M, N, shr, shc, offr, offc, unitary):
    E1 = kernel_matrix(ar, f.shape[0], offr, shr, M)          # (m x M)
    E2 = kernel_matrix(ac, f.shape[1], offc, shc, N)          # (n x N)
    F = E1.T @ f @ E2
    return F * math.sqrt(abs(float(ar * ac))) if unitary else F


def oracle_large(c, impl):
    if 'err' in impl:
        return f'{c["fn"]} on a {c["m"]}x{c["n"]} input raised {impl["err"]}'
    f = large_data(c)
    ar, ac = Fraction(c['ar']), Fraction(c['ac'])
    shr, shc = Fraction(c['shr']), Fraction(c['shc'])
    got = impl['np'].a
    if impl.get('not_buffer'):
        return f'{c["fn"]}(..., out=buf) on a {c["m"]}x{c["n"]} input did not return the supplied buffer'
    where = f'{c["m"]}x{c["n"]} input -> {c["M"]}x{c["N"]} output, alpha=({c["ar"]}, {c["ac"]}), unitary={c["unitary"]}'
    if c['fn'] == 'dft2':
        exp = defining_sum_np(f, ar, ac, c['M'], c['N'], shr, shc, c['offr'], c['offc'], c['unitary'])
        msg = arr_close(got, exp)
        return f'dft2 is not the defining Fourier sum ({where}): ' + msg if msg else None
    if c['fn'] == 'idft2':
        exp = np.conj(defining_sum_np(np.conj(f), ar, ac, c['M'], c['N'], shr, shc, 0, 0, c['unitary']))
        if not c['unitary']:
            exp = exp / f.size
        msg = arr_close(got, exp)
        return f'idft2 is not the conjugate-kernel sum with the stated normalisation ({where}): ' + msg if msg else None
    fwd = impl['fwd'].a
    msg = arr_close(fwd, defining_sum_np(f, ar, ac, c['M'], c['N'], shr, shc, 0, 0, c['unitary']))
    if msg:
        return f'dft2 is not the defining Fourier sum ({where}): ' + msg
    msg = arr_close(got, f)
    if msg:
        return f'idft2(dft2(f)) != f over one full period ({where}): ' + msg
    if c['unitary']:
        e_in, e_out = float(np.sum(np.abs(f) ** 2)), float(np.sum(np.abs(fwd) ** 2))
        if abs(e_in - e_out) > 1e-9 * (1 + e_in):
            return f'unitary transform over one period does not conserve energy ({where}): {e_in} -> {e_out}'
    return None


def call_forms(c, f):
    """the arguments in one of the documented forms (alpha: float or array_like; shape: int or array_like; shift, offset:
    array_like; f: array_like)"""
    ar, ac = float(Fraction(c['ar'])), float(Fraction(c['ac']))
    shift = (float(Fraction(c['shr'])), float(Fraction(c['shc'])))
    shape = (c['M'], c['N'])
    offset = (c.get('offr', 0), c.get('offc', 0))
    alpha = (ar, ac)
    form = c.get('forms', 'tuple')
    if eff_scale(c) != 1.0:
        f = f * eff_scale(c)
    if form == 'scalar':
        if c['ar'] == c['ac']:
            alpha = ar
        if c['M'] == c['N']:
            shape = c['M']
    elif form == 'ndarray':
        alpha, shape, shift, offset = np.array(alpha), np.array(shape), np.array(shift), np.array(offset)
    elif form == 'list_input':
        alpha, shape, shift, offset = list(alpha), list(shape), list(shift), list(offset)
        f = [[complex(v) for v in row] for row in f]
    elif form == 'int_input':
        f = np.array([[int(v[0]) for v in row] for row in c['f']], dtype=np.int64)
    elif form.startswith('smallint:'):       # whole-pixel shift, shape and offset as small-width numpy integers
        dt = getattr(np, form[9:])
        ints = lambda pair: (np.array(pair).astype(dt) if c.get('intstyle') == 'array' else (dt(pair[0]), dt(pair[1])))
        shift = ints((int(Fraction(c['shr'])), int(Fraction(c['shc']))))
        shape = ints(shape)
        offset = ints(offset)
    elif form.startswith('dtype:'):          # a real-valued input array of the given dtype
        f = np.array([[v[0] for v in row] for row in c['f']]).astype(getattr(np, form[6:]))
    cont = c.get('container')
    if cont and isinstance(f, np.ndarray):
        if cont == 'matrix':
            f = np.matrix(f)
        elif cont == 'masked':
            f = np.ma.MaskedArray(f, mask=np.zeros(f.shape, dtype=bool))
        elif cont == 'subclass':
            f = f.view(MetaArray)
            f.info = {'unit': 'V/m'}
        elif cont == 'fortran':
            f = np.asfortranarray(f)
        elif cont == 'strided':
            big = np.zeros((2 * f.shape[0], 3 * f.shape[1]), dtype=f.dtype)
            big[::2, ::3] = f
            f = big[::2, ::3]
    return f, alpha, shape, shift, offset


class MetaArray(np.ndarray):
    """an ndarray subclass that carries metadata"""
    def __array_finalize__(self, obj):
        self.info = getattr(obj, 'info', None)


def flag_form(c):
    u = bool(c['unitary'])
    if c.get('flag') == 'np':
        return np.bool_(u)
    if c.get('flag') == 'int':
        return int(u)
    return u


def eff_scale(c):
    """the factor applied to the input data (only for the argument forms that keep a floating-point input)"""
    if c.get('scale') and c.get('forms', 'tuple') in ('tuple', 'scalar', 'ndarray', 'list_input'):
        return float(c['scale'])
    return 1.0


def unscale(c, F):
    return np.asarray(F) / eff_scale(c) if eff_scale(c) != 1.0 else np.asarray(F)


def run_impl(c):
    """every case runs under one of the caller-side numpy error states (default / raise / ignore), chosen from the case's
    content, with warnings turned into errors; the library must neither depend on it nor change it"""
    import warnings
    mode = ['default', 'raise', 'ignore'][int(C.case_hash({k: v for k, v in c.items() if not k.startswith('_')})[:2], 16) % 3]
    before = np.geterr()
    with warnings.catch_warnings():
        if mode != 'default':           # numeric warnings become errors (not the deprecation notices of np.matrix etc.)
            warnings.simplefilter('error', RuntimeWarning)
            warnings.simplefilter('error', np.ComplexWarning)
        ctx = np.errstate(over=mode, invalid=mode, divide=mode) if mode != 'default' else np.errstate()
        with ctx:
            inside = np.geterr()
            res = run_impl_inner(c)
            changed = np.geterr() != inside
    if isinstance(res, dict) and (changed or np.geterr() != before):
        res['errstate_changed'] = True
    if isinstance(res, dict):
        res['errmode'] = mode
    return res


def run_impl_inner(c):
    lentil = C.import_lentil()
    fresh_state()
    if c['op'] == 'hist':
        return run_history(lentil, c)
    if c['op'] == 'large':
        return run_large(lentil, c)
    if c['op'] == 'api':
        return run_api(lentil, c)
    f = to_np(c['f'])
    alpha = (float(Fraction(c['ar'])), float(Fraction(c['ac'])))
    try:
        if c['op'] == 'dft2':
            out = make_out(c, f)
            fa, alpha, shape, shift, offset = call_forms(c, f)
            keep = np.array(fa, copy=True) if isinstance(fa, np.ndarray) and out is not fa else None
            F = lentil.fourier.dft2(fa, alpha, shape=shape, shift=shift, offset=offset, unitary=flag_form(c), out=out)
            res = {'arr': unscale(c, F).tolist(), 'same_buffer': (out is not None and F is out)}
            if out is not None and not np.array_equal(np.asarray(out), np.asarray(F)):
                res['out_differs'] = True
            if keep is not None and not np.array_equal(keep, np.asarray(fa)):
                res['input_modified'] = True
            return res
        if c['op'] == 'idft2':
            out = make_out(c, f)
            fa, alpha, shape, shift, _ = call_forms(c, f)
            keep = np.array(fa, copy=True) if isinstance(fa, np.ndarray) else None
            F = lentil.fourier.idft2(fa, alpha, shape=shape, shift=shift, unitary=flag_form(c), out=out)
            res = {'arr': unscale(c, F).tolist(), 'same_buffer': (out is not None and F is out)}
            if keep is not None and not np.array_equal(keep, np.asarray(fa)):
                res['input_modified'] = True
            if out is not None:
                if not np.array_equal(np.asarray(out), np.asarray(F)):
                    res['out_differs'] = True
                fresh = lentil.fourier.idft2(fa, alpha, shape=shape, shift=shift, unitary=c['unitary'])
                res['fresh'] = unscale(c, fresh).tolist()
            return res
        if c['op'] == 'roundtrip':
            F = lentil.fourier.dft2(f, alpha, unitary=c['unitary'])
            g = lentil.fourier.idft2(F, alpha, unitary=c['unitary'])
            h = lentil.fourier.idft2(f, alpha, unitary=c['unitary'])
            return {'arr': np.asarray(g).tolist(), 'fwd': np.asarray(F).tolist(), 'inv': np.asarray(h).tolist()}
    except Exception as e:
        return {'err': type(e).__name__}


def arr_close(a, b, tol=TOL):
    a = np.asarray(a, dtype=complex)
    b = np.asarray(b, dtype=complex)
    if a.shape != b.shape:
        return f'shapes differ: {a.shape} vs {b.shape}'
    if a.size == 0:
        return None
    d = np.max(np.abs(a - b)) if a.size else 0.0
    if d > tol * (1 + np.max(np.abs(b))):
        i = np.unravel_index(np.argmax(np.abs(a - b)), a.shape)
        return f'max difference {d:.3g} at index {tuple(int(x) for x in i)}: {a[i]} vs {b[i]}'
    return None


def compare(c, impl, model):
    if ('err' in impl) != ('err' in model):
        return f'implementation {impl.get("err", "returned a value")}, model {model.get("err", "returned a value")}'
    if 'err' in impl:
        return None if impl['err'] == model['err'] else f'error kinds differ: impl {impl["err"]} model {model["err"]}'
    msg = arr_close(impl['arr'], model['arr'])
    return f'{c["op"]}: {msg}' if msg else None


# ------------------------------------------------------------------ direct oracle: the defining sum, by plain loops
def e_turns(t):
    """exp(-2 pi i t) with the phase reduced exactly modulo one turn"""
    t = t - math.floor(t)
    return cmath.exp(-2j * math.pi * float(t))


def defining_sum(f, ar, ac, M, N, shr, shc, offr, offc, unitary):
    m, n = len(f), len(f[0])
    scale = math.sqrt(abs(float(ar * ac))) if unitary else 1.0
    out = [[0j] * N for _ in range(M)]
    for u in range(M):
        U = Fraction(u - M // 2) - shr
        er = [e_turns(ar * (x - m // 2 + offr) * U) for x in range(m)]
        for v in range(N):
            V = Fraction(v - N // 2) - shc
            ec = [e_turns(ac * (y - n // 2 + offc) * V) for y in range(n)]
            tot = 0j
            for x in range(m):
                for y in range(n):
                    fv = f[x][y]
                    tot += complex(fv[0], fv[1]) * er[x] * ec[y]
            out[u][v] = tot * scale
    return out


def oracle(c, impl):
    if isinstance(impl, dict) and impl.get('errstate_changed'):
        return 'the call changed the caller\'s numpy error state (np.geterr() before != after)'
    if isinstance(impl, dict) and impl.get('held_changed'):
        return impl['held_changed']
    if c['op'] == 'api':
        if not c['valid']:
            return None                 # which malformed calls are refused, and how, is the correspondence's business
        (ar, ac), (M, N), (shr, shc), (offr, offc) = c['expanded']
        if M < 0 or N < 0:
            return None                 # what a negative length means is not the property's business either
        M, N = max(0, M), max(0, N)
        k = c['out']
        if k in ('float', 'int', 'bool', 'complex64'):
            return None if impl.get('err') == 'TypeError' else f'{c["fn"]}: a buffer that cannot hold complex values was not refused with TypeError'
        if k in ('badshape', 'clongdouble', 'object') or (k in ('fortran', 'transposed', 'sliced') and M > 1 and N > 1):
            return None if 'err' in impl else f'{c["fn"]}: an unusable buffer ({k}) was accepted'
        if k in ('fortran', 'transposed', 'sliced'):
            return None                 # degenerate shapes: the layouts coincide; left to the correspondence
        if 'err' in impl:
            return f'{c["fn"]} with valid arguments raised {impl["err"]}'
        if impl['shape'] != [M, N]:
            return f'{c["fn"]}: result shape {impl["shape"]} instead of {[M, N]}'
        if k == 'complex' and (not impl.get('same_buffer') or impl.get('out_differs')):
            return f'{c["fn"]}(..., out=buf): the result was not written into / returned as the supplied buffer'
        if M == 0 or N == 0 or not c['f']:
            got = np.asarray(impl['arr'], dtype=complex)
            return None if not np.any(got) else f'{c["fn"]} of an empty input / onto an empty output is not zero'
        one = {'op': c['fn'], 'f': c['f'], 'ar': ar, 'ac': ac, 'M': M, 'N': N, 'shr': shr, 'shc': shc,
               'offr': offr, 'offc': offc, 'unitary': c['unitary'], 'out': 'none'}
        return oracle(one, {'arr': impl['arr']})
    if c['op'] == 'large':
        return oracle_large(c, impl)
    if c['op'] == 'hist':
        for k, (cl, r) in enumerate(zip(c['calls'], impl['calls'])):
            one = {'op': cl['fn'], 'f': cl['f'], 'ar': cl.get('ar', c['ar']), 'ac': cl.get('ac', c['ac']), 'M': c['M'], 'N': c['N'],
                   'shr': cl['shr'], 'shc': cl['shc'], 'offr': cl.get('offr', 0), 'offc': cl.get('offc', 0),
                   'unitary': cl['unitary'], 'out': 'none'}
            msg = oracle(one, r)
            if msg:
                prev = [(p['fn'], p['shr'], p['shc']) for p in c['calls'][:k]]
                return (f'call {k + 1} of {len(c["calls"])} in one process ({cl["fn"]}, shift ({cl["shr"]}, {cl["shc"]}), '
                        f'same shapes as the earlier calls {prev}): ' + msg)
        return None
    f = c['f']
    ar, ac = Fraction(c['ar']), Fraction(c['ac'])
    if impl.get('input_modified'):
        return f'{c["op"]} modified the caller\'s input array'
    if c['op'] == 'dft2':
        o = c['out']
        if o in ('float', 'complex64'):
            return None if impl.get('err') == 'TypeError' else 'a buffer that cannot hold complex values was not refused with TypeError'
        if o == 'badshape':
            return None if 'err' in impl else 'a buffer of the wrong shape was accepted'
        if 'err' in impl:
            return f'dft2 raised {impl["err"]}'
        exp = defining_sum(f, ar, ac, c['M'], c['N'], Fraction(c['shr']), Fraction(c['shc']), c['offr'], c['offc'], c['unitary'])
        msg = arr_close(impl['arr'], exp)
        if msg:
            return 'dft2 is not the defining Fourier sum: ' + msg
        if o in ('complex', 'self') and (not impl.get('same_buffer') or impl.get('out_differs')):
            return 'result was not written into the supplied buffer'
        return None
    if c['op'] == 'idft2':
        o = c.get('out', 'none')
        if o in ('float', 'complex64'):
            return None if impl.get('err') == 'TypeError' else 'idft2: a buffer that cannot hold complex values was not refused with TypeError'
        if o == 'badshape':
            return None if 'err' in impl else 'idft2: a buffer of the wrong shape was accepted'
        if 'err' in impl:
            return f'idft2 raised {impl["err"]}'
        if o == 'complex':
            if not impl.get('same_buffer'):
                return 'idft2(..., out=buf) did not return the supplied buffer'
            if impl.get('out_differs'):
                return 'idft2(..., out=buf): the buffer does not hold the returned values'
            msg = arr_close(impl['arr'], impl['fresh'], 1e-13)
            if msg:
                return 'idft2(..., out=buf) differs from a fresh allocation: ' + msg
        # idft2(F) = conj(dft2(conj F)) (/ size unless unitary)
        fc = [[[v[0], -v[1]] for v in row] for row in f]
        exp = defining_sum(fc, ar, ac, c['M'], c['N'], Fraction(c['shr']), Fraction(c['shc']), 0, 0, c['unitary'])
        size = len(f) * len(f[0])
        exp = [[z.conjugate() / (1 if c['unitary'] else size) for z in row] for row in exp]
        msg = arr_close(impl['arr'], exp)
        return ('idft2 is not the conjugate-kernel sum with the stated normalisation: ' + msg) if msg else None
    if c['op'] == 'roundtrip':
        if 'err' in impl:
            return f'round trip raised {impl["err"]}'
        msg = arr_close(impl['arr'], to_np(f))
        if msg:
            return f'idft2(dft2(f)) != f over one full period (unitary={c["unitary"]}): ' + msg
        if c['unitary']:
            e_in = float(np.sum(np.abs(to_np(f)) ** 2))
            e_out = float(np.sum(np.abs(np.asarray(impl['fwd'], dtype=complex)) ** 2))
            if abs(e_in - e_out) > 1e-9 * (1 + e_in):
                return f'unitary transform over one period does not conserve energy: {e_in} -> {e_out}'
            e_inv = float(np.sum(np.abs(np.asarray(impl['inv'], dtype=complex)) ** 2))
            if abs(e_in - e_inv) > 1e-9 * (1 + e_in):
                return f'unitary inverse transform over one period does not conserve energy: {e_in} -> {e_inv}'
        return None
    return None



# ------------------------------------------------------------------ WP-T4: translation layer (source -> Gallina)
# An ADDITIONAL tie (DESIGN 10.3): harness/gen_src.py (suite 'C01') translates the integer bookkeeping of lentil/fourier.py (coordinate origins of _dft2_coords, the arguments dft2 hands to _dft2_matrices, the divisor of idft2)
# from the CURRENT source text into coq/theories/Gen/FourierSrc.v; Proofs/FourierSrcP.v proves every translated term equal to the model for
# all integers; Properties/C01Src.v states it.  Policy: a function the translator refuses is only reported; a
# translated function whose equivalence lemma no longer compiles is compared with the model mirror on sampled points,
# an exhaustive small box and random points - a found disagreement is a VIOLATION with that witness (replayable: op
# 'src'), none found is reported as unproved.  The build of C01Src happens here, never in COQ_TARGETS.
def extra(tier, rng):
    from .. import gen_src as G
    return G.run_layer('C01', ID, tier, rng, C)


def _wrap_src_replay():
    from .. import gen_src as G
    return G.wrap_replay(run_impl, oracle, C)


run_impl, oracle = _wrap_src_replay()
