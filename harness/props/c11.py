"""C11 - Zernike modes are the Noll-ordered orthonormal polynomials."""
import math
import sys
from fractions import Fraction

import numpy as np

from .. import common as C

ID = 'C11'
MODEL = 'c11'
RUNFUN = 'run'
COQ_TARGETS = ['theories/Properties/C11.vo', 'theories/Extract/RunC11.vo']
DESIGN_REF = 'DESIGN.md section 6, C11'
TECHNIQUE = ('Coq proof (Noll ordering: closed form = the code\'s list-building, bijection, float row formula = exact '
             'row on a bounded range; radial polynomials: exact rational checks of the coefficients, R(1)=1 and radial '
             'orthogonality on a bounded range; angular orthogonality over R with Coquelicot; zernike_coordinates: '
             'centroid origin for every array size) + execution of the extracted model (group ring Q(i)[C_L] for the '
             'azimuthal factor) against lentil.zernike / zernike_index / zernike_coordinates')
LEVEL_TEXT = ('15 theorems in coq/theories/Properties/C11.v. Unbounded: Noll closed form is a bijection onto {|m|<=n, n-|m| even} '
              'ordered by n then |m| with even j <-> m>0, odd j <-> m<0; zernike_index (exact row, list-building, negative index) = '
              'closed form, ValueError for j<1; mode = norm * R * azimuthal * mask in every commutative ring and Noll\'s formula on C; '
              'zero outside the mask, support-only dependence; angular orthogonality (Riemann integrals, all m, m\'); '
              'zernike_coordinates: origin = centroid of the support for every array size, rho = 1 at a farthest masked sample, '
              'support-only. Bounded (bound in the statement): IEEE-double row formula = exact row for j <= 2*10^5 (PrimFloat); '
              'radial coefficients = binomial form and R(1) = 1 for n <= 40; radial orthogonality (and orthogonality to every lower-degree '
              'monomial) as a Riemann integral and orthonormality of the normalised modes (separated disk integral) for n <= 50 '
              '(j <= 1326). |Z| <= 1 is a numeric test only.')
LEVEL_NOTE = ('Trusted: Coq kernel + stdlib Reals/Coquelicot axioms (integrals), PrimFloat (IEEE double primitives of the '
              'kernel), extraction, harness; np.sqrt/np.cos/np.sin/np.angle and IEEE rounding of the radial sum are '
              'modelled not verified (conditioning-scaled tolerance in the tie). The unnormalised bound |Z| <= 1 and '
              'numeric orthonormality on quadrature nodes are labelled tests, not theorems.')
TRUSTED = ['Coq 8.16.1 kernel (coqc; coqchk in the thorough tier), including its primitive IEEE-754 doubles (PrimFloat)',
           'extraction with ExtrOcamlBasic only; ocaml/driver.ml',
           'harness/props/c11.py: codec, evaluation of group-ring elements at exp(-2 pi i/L), math.sqrt of the squared norm',
           'numpy: sqrt, cos, sin, angle, ceil, int/int true division (modelled; observed through the tie)',
           'parametricity: the theorem instance (any ring / Coquelicot C) and the executed instance (group ring) are the same Gallina term']
ASSUMPTIONS = ['rho, theta, mask arrays of one common 2-d shape (no broadcasting); rho = p/q, theta = 2 pi k/L with 4 | L <= 60 in generated cases',
               'zernike_coordinates: default shift/rotate (the call zernike makes); masks with at least two non-zero samples',
               'comparison tolerance 1e-9*(1+|model|) + 256 eps * N * sum_k |c_k| rho^(n-2k) (rounding of the alternating radial sum)',
               'sine modes are compared up to one global sign per call (the property fixes "odd j sine", not its sign); '
               'theta of zernike_coordinates is compared up to a fixed rotation/reflection (Gram matrix of the unit vectors)']
RULE = ('zernike_index exhaustively for 1 <= j <= 5*10^4 (quick) / 10^6 (thorough) in blocks against the closed form, sampled j '
        '(also j < 1 and large j) against the list-building model; zernike(mask, j, normalize, rho=, theta=) for j <= 66 / 231 on '
        'rational nodes, both normalize settings, masks with zeros; zernike_coordinates and default-coordinate modes on random masks '
        '(even/odd, non-square, off-centre, non-0/1 values); non-trivial = j >= 4 with a mixed mask / off-centre mask / any index block')

TOL = 1e-9
EPS = 2.0 ** -52


def zmod():
    C.import_lentil()
    return sys.modules['lentil.zernike']


# ------------------------------------------------------------------ textbook (oracle side, no model)
def noll_textbook_block(lo, cnt):
    """Noll's ordering by construction: rows n = 0,1,2,...; within a row |m| ascending; m = 0 once, every
    |m| > 0 twice, the even j carrying +|m| (cosine) and the odd j -|m| (sine)."""
    out = []
    n = 0
    start = 1                       # first index of row n
    while start + n + 1 <= lo:      # row n holds n+1 indices
        start += n + 1
        n += 1
    j = start
    while len(out) < cnt + (lo - start):
        for a in range(n % 2, n + 1, 2):
            if a == 0:
                out.append((0, n))
                j += 1
            else:
                for _ in range(2):
                    out.append((a if j % 2 == 0 else -a, n))
                    j += 1
        n += 1
    return out[lo - start: lo - start + cnt]


def noll_textbook(j):
    return noll_textbook_block(j, 1)[0]


def binom(n, k):
    return math.comb(n, k) if 0 <= k <= n else 0


def radial_coeffs(n, a):
    """textbook R_n^a: coefficient of rho^(n-2k) is (-1)^k C(n-k, k) C(n-2k, (n-a)/2-k)"""
    return [((-1) ** k * binom(n - k, k) * binom(n - 2 * k, (n - a) // 2 - k), n - 2 * k) for k in range((n - a) // 2 + 1)]


def radial_textbook(n, a, rho):
    rho = Fraction(rho)
    return sum(c * rho ** p for c, p in radial_coeffs(n, a))


def radial_cond(n, a, rho):
    rho = abs(float(rho))
    return sum(abs(c) * rho ** p for c, p in radial_coeffs(n, a))


def norm_textbook(m, n, normalize):
    if not normalize:
        return 1.0
    return math.sqrt(n + 1) if m == 0 else math.sqrt(2 * (n + 1))


def mode_textbook(j, normalize, rho, theta):
    """Noll's Z_j at (rho, theta): sqrt(n+1) R (m = 0), sqrt(2(n+1)) R cos(|m| theta) (even j), ... sin (odd j).
    Returns (value with +sin for odd j, is_sine)."""
    m, n = noll_textbook(j)
    a = abs(m)
    r = float(radial_textbook(n, a, rho))
    N = norm_textbook(m, n, normalize)
    if m == 0:
        return N * r, False
    if j % 2 == 0:
        return N * r * math.cos(a * theta), False
    return N * r * math.sin(a * theta), True


# ------------------------------------------------------------------ generation
LS = [4, 8, 12, 16, 20, 24, 28, 36, 40, 60]
RHO_DEN = [1, 2, 3, 4, 5, 7, 8, 10, 16]
MASK_VALUES = [1, 1, 1, 2, 0.5, -1, 7, 3.25]


def rnd_mask(rng, r, c, p_zero=0.3, values=False):
    while True:
        kind = rng.random()
        m = [[0] * c for _ in range(r)]
        if kind < 0.4:        # off-centre rectangle
            r0, r1 = sorted((rng.randint(0, r - 1), rng.randint(0, r - 1)))
            c0, c1 = sorted((rng.randint(0, c - 1), rng.randint(0, c - 1)))
            for i in range(r0, r1 + 1):
                for j in range(c0, c1 + 1):
                    m[i][j] = 1
        elif kind < 0.7:      # off-centre disc
            cr, cc = rng.uniform(0, r - 1), rng.uniform(0, c - 1)
            rad = rng.uniform(1.0, max(r, c) / 2 + 0.5)
            for i in range(r):
                for j in range(c):
                    m[i][j] = 1 if (i - cr) ** 2 + (j - cc) ** 2 <= rad * rad else 0
        else:                 # random support
            for i in range(r):
                for j in range(c):
                    m[i][j] = 0 if rng.random() < p_zero else 1
        if sum(map(sum, m)) >= 2:
            break
    if values:
        m = [[(rng.choice(MASK_VALUES) if v else 0) for v in row] for row in m]
    return m


def gen_mode(rng, jmax):
    j = rng.randint(1, jmax) if rng.random() < 0.8 else rng.randint(1, min(jmax, 15))
    L = rng.choice(LS)
    r, c = rng.randint(1, 4), rng.randint(1, 5)
    rho = []
    for _ in range(r):
        row = []
        for _ in range(c):
            q = rng.choice(RHO_DEN)
            p = rng.randint(0, q) if rng.random() < 0.9 else rng.randint(0, q + q // 2 + 1)
            row.append(str(Fraction(p, q)))
        rho.append(row)
    tk = [[rng.randint(-L, 2 * L) if rng.random() < 0.2 else rng.randint(0, L - 1) for _ in range(c)] for _ in range(r)]
    mask = [[(0 if rng.random() < 0.25 else rng.choice(MASK_VALUES + TINY_VALUES[:3])) for _ in range(c)] for _ in range(r)]
    if rng.random() < 0.25:     # next to, but not at, the special radii 0 and 1
        i, k = rng.randrange(r), rng.randrange(c)
        rho[i][k] = rng.choice(['9999999/10000000', '10000001/10000000', '1/1000000000', '999999/1000000', '1000001/1000000'])
    return {'op': 'mode', 'j': j, 'normalize': rng.random() < 0.5, 'L': L, 'rho': rho, 'tk': tk, 'mask': mask}


# non-zero weights far below any absolute tolerance (apodised apertures, interpolation wings, denormals)
TINY_VALUES = [1e-10, -3e-12, 1e-300, 5e-324, 1e-9, 2.5e-9, 9e-9, 1e-8, 1e-20]


def gen_coords(rng, maxn):
    r, c = rng.randint(2, maxn), rng.randint(2, maxn)
    if rng.random() < 0.2:
        c = r
    t = rng.random()
    if t < 0.35:
        # a weighted mask whose wings carry tiny non-zero values: still part of the support
        m = asym_support(rng, r, c) if (r >= 3 and c >= 3 and rng.random() < 0.5) else rnd_mask(rng, r, c)
        p_tiny = rng.choice([0.3, 0.6, 0.9])
        m = [[((rng.choice(TINY_VALUES) if rng.random() < p_tiny else rng.choice(MASK_VALUES)) if v else 0) for v in row] for row in m]
        scale = rng.choice([2, -3, 1e6])            # never towards underflow: that would change the support
    else:
        m = rnd_mask(rng, r, c, values=rng.random() < 0.5)
        scale = rng.choice([2, 0.5, -3, 10.0, 255, 1e-12, 1e-30, 1e12])
    return {'op': 'coords', 'mask': m, 'j': rng.randint(2, 21), 'scale': scale}


def gen_entry(rng, maxn, jmax):
    """the public entry points with every combination of the optional rho / theta arguments"""
    r, c = rng.randint(2, maxn), rng.randint(2, maxn)
    m = asym_support(rng, r, c) if (r >= 3 and c >= 3 and rng.random() < 0.5) else rnd_mask(rng, r, c, values=rng.random() < 0.4)
    via = rng.choice(['zernike', 'zernike', 'basis', 'basis', 'basis_vec', 'basis_vec', 'basis_scalar', 'basis_scalar_vec'])
    n = 1 if (via in ('zernike', 'basis_scalar', 'basis_scalar_vec') or rng.random() < 0.3) else rng.randint(2, 5)
    modes = [rng.randint(1, jmax) if rng.random() < 0.85 else rng.randint(1, 10) for _ in range(n)]
    if rng.random() < 0.06:
        modes[rng.randrange(n)] = rng.choice([0, -1, -7])
    args = rng.choice(['none'] * 6 + ['theta', 'rho', 'both', 'both'])
    # how the Noll indices are carried: python ints or a small / wide integer dtype (array, or numpy scalar)
    mdtype = rng.choice(['list', 'list', 'uint8', 'uint8', 'int8', 'uint16', 'int16', 'int32', 'int64', 'uint32', 'uint64'])
    if mdtype != 'list':
        if rng.random() < 0.7:      # indices whose 8*j does not fit the small dtypes
            modes = [rng.randint(32, jmax) for _ in modes]
        if mdtype.startswith('u'):
            modes = [max(j, 0) for j in modes]
    return {'op': 'entry', 'mask': m, 'modes': modes, 'normalize': rng.random() < 0.6, 'args': args, 'via': via, 'mdtype': mdtype}


def gen_shift(rng, maxn):
    """zernike_coordinates(mask, shift=(row, col)) with an explicit, exactly representable shift"""
    r, c = rng.randint(2, maxn), rng.randint(2, maxn)
    m = asym_support(rng, r, c) if (r >= 3 and c >= 3 and rng.random() < 0.5) else rnd_mask(rng, r, c, values=rng.random() < 0.4)
    den = rng.choice([1, 2, 4, 8])
    form = rng.choice(['tuple', 'list', 'array', 'int_array' if den == 1 else 'tuple'])
    return {'op': 'coords_shift', 'mask': m, 'shift': [str(Fraction(rng.randint(-3 * den, 3 * den), den)),
                                                         str(Fraction(rng.randint(-3 * den, 3 * den), den))], 'form': form}


def gen_huge(rng, k):
    """masks whose summed row / column indices exceed 2**31 (integer accumulators must not wrap): a large aperture
    on a 2048x2048 / 2047x1800 / 1800x2047 array, bool or small-integer dtype"""
    r, c = [(2048, 2048), (2047, 1800), (1800, 2047), (2048, 2048)][k % 4]
    rad = rng.randint(int(0.43 * min(r, c)), int(0.47 * min(r, c)))
    # a full disc towards the high-index corner: pi rad^2 * (n - rad) > 2**31 along at least one axis
    cr, cc = r - 1 - rad - rng.randint(0, 20), c - 1 - rad - rng.randint(0, 20)
    return {'op': 'coords_large', 'shape': [r, c], 'disc': [cr, cc, rad], 'half': 'none',
            'dtype': ['bool', 'uint8', 'bool', 'int32', 'float32'][k % 5], 'j': [4, 2, 3, 11][k % 4]}


def gen_large(rng, k):
    """>= 2**20 samples, sizes not divisible by powers of two, an off-centre half disc given by parameters"""
    r, c = rng.choice([(1024, 1031), (1049, 1000), (1500, 701), (1027, 1025)])
    cr, cc = rng.randint(r // 4, 3 * r // 4), rng.randint(c // 4, 3 * c // 4)
    rad = rng.randint(min(r, c) // 8, min(r, c) // 3)
    return {'op': 'coords_large', 'shape': [r, c], 'disc': [cr, cc, rad], 'half': rng.choice(['u', 'd', 'l', 'r', 'none']),
            'dtype': rng.choice(['bool', 'float64', 'uint8', 'float32']), 'j': rng.choice([2, 3, 4, 11])}


def asym_support(rng, r, c):
    """supports whose centroid differs from the centre of their bounding box and of the array"""
    while True:
        kind = rng.random()
        m = [[0] * c for _ in range(r)]
        if kind < 0.3:          # half disc
            cr, cc = rng.uniform(1, r - 2), rng.uniform(1, c - 2)
            rad = rng.uniform(1.5, max(r, c) / 2)
            side = rng.choice(['u', 'd', 'l', 'r'])
            for i in range(r):
                for j in range(c):
                    inside = (i - cr) ** 2 + (j - cc) ** 2 <= rad * rad
                    half = {'u': i <= cr, 'd': i >= cr, 'l': j <= cc, 'r': j >= cc}[side]
                    m[i][j] = 1 if inside and half else 0
        elif kind < 0.6:        # L shape
            r0, c0 = rng.randint(0, r - 2), rng.randint(0, c - 2)
            h, w = rng.randint(2, r - r0), rng.randint(2, c - c0)
            t = rng.randint(1, max(1, min(h, w) // 2))
            for i in range(r0, r0 + h):
                for j in range(c0, c0 + w):
                    if i >= r0 + h - t or j < c0 + t:
                        m[i][j] = 1
        else:
            m = rnd_mask(rng, r, c, p_zero=0.5)
            m = [[1 if v else 0 for v in row] for row in m]
        if sum(map(sum, m)) >= 3:
            return m


HIST_DTYPES = ['bool', 'bool', 'float64', 'uint8', 'int64', 'float32']


def gen_history(rng, maxn):
    r, c = rng.randint(3, maxn), rng.randint(3, maxn)
    nf = rng.randint(2, 4)
    fills = [asym_support(rng, r, c) for _ in range(nf)]
    pat = rng.random()
    if pat < 0.55:
        order = list(range(nf))
    elif pat < 0.8:                                  # the same support twice in a row, then another
        order = [0, 0] + list(range(1, nf))
    else:                                            # back to an earlier support
        order = list(range(nf)) + [0]
    modes = [1, 2, 3, 4] + sorted(rng.sample(range(5, 16), rng.randint(0, 3)))
    if rng.random() < 0.3:
        rng.shuffle(modes)
    norm0 = rng.random() < 0.7
    steps = []
    for i in order[:4]:
        steps.append({'fill': i, 'normalize': norm0 if rng.random() < 0.8 else (not norm0), 'vectorize': rng.random() < 0.3,
                      'call': rng.choice(['basis', 'basis', 'basis+fit', 'fit', 'remove'])})
    dtype = rng.choice(HIST_DTYPES)
    if dtype in ('float64', 'float32') and rng.random() < 0.5:
        for st in steps:                             # the buffer holds weight * support: same support
            st['weight'] = rng.choice([1, 1e-10, -3e-12, 1e-30] + ([1e-300] if dtype == 'float64' else []))
    out = {'op': 'history', 'dtype': dtype, 'fills': fills, 'modes': modes, 'steps': steps,
           'opd': [rng.randint(-3, 3) for _ in range(4)]}
    t = rng.random()
    if t < 0.3:
        out['errstate'] = 'raise' if t < 0.2 else 'ignore'      # the caller's np.errstate(divide/invalid/over=...)
    return out


def gen_seq(rng, jmax):
    base = gen_mode(rng, jmax)
    n = rng.randint(2, 5)
    js = [rng.randint(1, jmax) for _ in range(n)]
    if rng.random() < 0.7:                           # a tip/tilt mode somewhere before another mode
        js[rng.randint(0, n - 2)] = rng.choice([2, 3])
    if rng.random() < 0.3:
        js[-1] = js[0]                               # the same mode again at the end
    via = rng.choice(['zernike', 'zernike', 'basis', 'compose'])
    nz0 = rng.random() < 0.5
    calls = [[j, (nz0 if via != 'zernike' or rng.random() < 0.7 else (not nz0))] for j in js]
    if via == 'compose':                             # zernike_compose evaluates modes 1..k in order
        k = rng.randint(2, 6)
        calls = [[j, nz0] for j in range(1, k + 1)]
        base['coeffs'] = [rng.randint(-4, 4) for _ in range(k)]
    base.pop('j')
    base.pop('normalize')
    base.update({'op': 'seq', 'via': via, 'calls': calls})
    return base


def generate(rng, tier):
    quick = tier == 'quick'
    # (1) zernike_index exhaustively, in blocks
    top = 50000 if quick else 1000000
    blk = 1000
    for lo in range(1, top + 1, blk):
        yield {'op': 'index_bulk', 'lo': lo, 'cnt': min(blk, top + 1 - lo)}
    # (2) single indices through the list-building model: small, errors, row boundaries, large
    singles = list(range(-2, 40))
    for n in ([1, 2, 3, 10, 11, 63, 64, 100, 447, 448] + ([] if quick else [1000, 1413, 1999])):
        t = n * (n + 1) // 2
        singles += [t - 1, t, t + 1, t + 2]
    for _ in range(60 if quick else 400):
        singles.append(rng.randint(1, 200000 if quick else 2000000))
    for j in singles:
        yield {'op': 'index', 'j': j}
    # (3) modes on caller-supplied nodes
    jmax = 66 if quick else 231
    for j in range(1, jmax + 1):        # every mode at least once, both normalisations
        c = gen_mode(rng, jmax)
        c['j'] = j
        c['normalize'] = (j % 2 == 0) ^ (rng.random() < 0.5)
        yield c
        if not quick:
            c2 = gen_mode(rng, jmax)
            c2['j'] = j
            c2['normalize'] = not c['normalize']
            yield c2
    for _ in range(60 if quick else 1200):
        yield gen_mode(rng, jmax)
    yield {'op': 'mode', 'j': 0, 'normalize': True, 'L': 4, 'rho': [['1/2']], 'tk': [[1]], 'mask': [[1]]}
    # (4) default coordinates
    for _ in range(90 if quick else 1000):
        yield gen_coords(rng, 7 if quick else 9)
    for k in range(2 if quick else 8):
        yield gen_large(rng, k)
    for k in range(1 if quick else 6):
        yield gen_huge(rng, k)
    for _ in range(30 if quick else 300):
        yield gen_shift(rng, 6 if quick else 8)
    for _ in range(70 if quick else 700):
        yield gen_entry(rng, 6 if quick else 8, 66 if quick else 120)
    # (5) call histories: one mask buffer refilled in place between zernike_basis / zernike_fit calls
    prev = None
    for k in range(45 if quick else 400):
        if prev is not None and k % 3 == 1:
            c = dict(prev)                          # the same supports in the reverse order
            c['steps'] = [dict(s_) for s_ in reversed(prev['steps'])]
        else:
            c = gen_history(rng, 8 if quick else 10)
        prev = c
        yield c
    # (6) call sequences on the same caller-supplied coordinate arrays
    for _ in range(45 if quick else 400):
        yield gen_seq(rng, 36 if quick else 91)


def json_key(x):
    import json
    return json.dumps(x)


def classify(c):
    if c['op'] == 'entry':
        return f'entry/{c["via"]}/{c["args"]}'
    if c['op'] == 'history':
        return 'history/' + c['dtype']
    if c['op'] == 'seq':
        return 'seq/' + c['via']
    if c['op'] == 'mode':
        return 'mode/' + ('norm' if c['normalize'] else 'raw')
    return c['op']


def nontrivial(c):
    if c['op'] == 'index_bulk':
        return True
    if c['op'] == 'index':
        return c['j'] >= 2
    if c['op'] == 'mode':
        flat = [v for row in c['mask'] for v in row]
        return c['j'] >= 4 and any(flat) and len(flat) > 1
    if c['op'] in ('gram', 'bound', 'coords_large'):
        return True
    if c['op'] == 'entry':
        return c['args'] != 'none' or max(c['modes']) >= 4
    if c['op'] == 'coords_shift':
        return any(Fraction(v) != 0 for v in c['shift'])
    if c['op'] == 'history':
        return len({json_key(c['fills'][s_['fill']]) for s_ in c['steps']}) >= 2
    if c['op'] == 'seq':
        return len(c['calls']) >= 2
    if c['op'] == 'coords':
        m = np.asarray(c['mask']) != 0
        r, cc = m.shape
        idx = np.argwhere(m)
        cen = idx.mean(axis=0)
        return bool(abs(cen[0] - r // 2) + abs(cen[1] - cc // 2) > 1e-9)
    return False


# ------------------------------------------------------------------ model side
def encode(c):
    if c['op'] == 'index_bulk':
        return [1, c['lo'], c['cnt']]
    if c['op'] == 'index':
        return [2, c['j']]
    if c['op'] == 'mode':
        out = [3, c['L'], c['j'], 1 if c['normalize'] else 0]
        pts = []
        for rr, tt, mm in zip(c['rho'], c['tk'], c['mask']):
            for rho, tk, mv in zip(rr, tt, mm):
                pts += C.enc_q(Fraction(rho)) + C.enc_q(Fraction(tk, c['L'])) + C.enc_q(C.frac(mv))
        n = sum(len(r) for r in c['rho'])
        return out + [n] + pts
    if c['op'] == 'coords':
        m = c['mask']
        out = [4, len(m), len(m[0])]
        for row in m:
            for v in row:
                out += C.enc_q(C.frac(v))
        return out
    if c['op'] == 'coords_shift':
        m = c['mask']
        out = [8] + C.enc_q(Fraction(c['shift'][0])) + C.enc_q(Fraction(c['shift'][1])) + [len(m), len(m[0])]
        for row in m:
            for v in row:
                out += C.enc_q(C.frac(v))
        return out
    if c['op'] == 'entry':
        m = c['mask']
        out = [7, {'none': 0, 'rho': 1, 'theta': 2, 'both': 3}[c['args']], 1 if c['normalize'] else 0,
               0 if c['via'] == 'zernike' else 1, 1 if c['via'].endswith('_vec') else 0, len(c['modes'])] + list(c['modes'])
        out += [len(m), len(m[0])]
        for row in m:
            for v in row:
                out += C.enc_q(C.frac(v))
        return out
    if c['op'] == 'history':
        out = [5, len(c['steps'])]
        for st in c['steps']:
            m = c['fills'][st['fill']]
            out += [len(m), len(m[0])]
            for row in m:
                for v in row:
                    out += C.enc_q(C.frac(v))
        return out
    if c['op'] == 'seq':
        out = [6, c['L'], len(c['calls'])]
        for j, nz in c['calls']:
            out += [j, 1 if nz else 0]
        pts = []
        for rr, tt, mm in zip(c['rho'], c['tk'], c['mask']):
            for rho, tk, mv in zip(rr, tt, mm):
                pts += C.enc_q(Fraction(rho)) + C.enc_q(Fraction(tk, c['L'])) + C.enc_q(C.frac(mv))
        return out + [sum(len(r) for r in c['rho'])] + pts
    return None


def read_mode(rd, L):
    st = rd.z()
    if st == 1:
        return {'err': C.ERRNAMES[rd.z()]}
    n2 = rd.z()
    vals = rd.lst(rd.k)
    out = []
    for v in vals:
        z = C.kval(v, L)
        assert abs(z.imag) < 1e-9 * (1 + abs(z.real)), 'model value is not real'
        out.append(math.sqrt(n2) * z.real)
    return {'vals': out, 'norm2': n2}


def read_coords(rd, npts):
    st = rd.z()
    if st == 1:
        return {'err': C.ERRNAMES[rd.z()]}
    cr, cc, rm2 = rd.q(), rd.q(), rd.q()
    rho2, dx, dy = [], [], []
    for _ in range(npts):
        rho2.append(rd.q())
        dx.append(rd.q())
        dy.append(rd.q())
    return {'origin': [cr, cc], 'rmax2': rm2, 'rho2': rho2, 'dx': dx, 'dy': dy}


def decode(c, ints):
    if c['op'] == 'coords_shift':
        rd = C.Reader(ints)
        m = c['mask']
        out = read_coords(rd, len(m) * len(m[0]))
        assert rd.done()
        return out
    if c['op'] == 'entry':
        if ints[0] == 1:
            return {'err': C.ERRNAMES[ints[1]]}
        rd = C.Reader(ints)
        rd.z()
        supplied = rd.z() == 0
        shape = rd.lst(rd.z)
        if supplied:
            assert rd.done()
            return {'supplied': True, 'shape': shape}
        m = c['mask']
        npts = len(m) * len(m[0])

        def one():
            n2, odd, rm2 = rd.z(), rd.z(), rd.q()
            return {'norm2': n2, 'odd': odd, 'rmax2': rm2, 'vals': [rd.q() for _ in range(npts)]}
        out = rd.lst(one)
        assert rd.done()
        return {'modes': out, 'shape': shape}
    if c['op'] == 'history':
        rd = C.Reader(ints)
        rd.z()
        m = c['fills'][0]
        out = [read_coords(rd, len(m) * len(m[0])) for _ in c['steps']]
        assert rd.done()
        return {'steps': out}
    if c['op'] == 'seq':
        rd = C.Reader(ints, c['L'])
        rd.z()
        out = [read_mode(rd, c['L']) for _ in c['calls']]
        assert rd.done()
        return {'calls': out}
    if ints[0] == 1:
        return {'err': C.ERRNAMES[ints[1]]}
    if c['op'] == 'index_bulk':
        body = ints[1:]
        return {'mn': [[body[2 * i], body[2 * i + 1]] for i in range(len(body) // 2)]}
    if c['op'] == 'index':
        return {'mn': [ints[1], ints[2]]}
    if c['op'] == 'mode':
        L = c['L']
        rd = C.Reader(ints, L)
        rd.z()
        n2 = rd.z()
        vals = rd.lst(rd.k)
        assert rd.done()
        out = []
        for v in vals:
            z = C.kval(v, L)
            assert abs(z.imag) < 1e-9 * (1 + abs(z.real)), 'model value is not real'
            out.append(math.sqrt(n2) * z.real)
        return {'vals': out, 'norm2': n2}
    if c['op'] == 'coords':
        rd = C.Reader(ints)
        rd.z()
        cr, cc, rm2 = rd.q(), rd.q(), rd.q()
        m = c['mask']
        rho2, dx, dy = [], [], []
        for _ in range(len(m) * len(m[0])):
            rho2.append(rd.q())
            dx.append(rd.q())
            dy.append(rd.q())
        assert rd.done()
        return {'origin': [cr, cc], 'rmax2': rm2, 'rho2': rho2, 'dx': dx, 'dy': dy}
    raise ValueError(c['op'])


# ------------------------------------------------------------------ implementation side
def run_impl(c):
    lentil = C.import_lentil()
    Z = zmod()
    try:
        if c['op'] == 'index_bulk':
            return {'mn': [[int(x) for x in Z.zernike_index(j)] for j in range(c['lo'], c['lo'] + c['cnt'])]}
        if c['op'] == 'index':
            m, n = Z.zernike_index(c['j'])
            return {'mn': [int(m), int(n)]}
        if c['op'] == 'mode':
            L = c['L']
            rho = np.array([[float(Fraction(v)) for v in row] for row in c['rho']], dtype=float)
            theta = np.array([[2 * math.pi * k / L for k in row] for row in c['tk']], dtype=float)
            mask = np.array(c['mask'])
            out = lentil.zernike(mask, c['j'], normalize=c['normalize'], rho=rho, theta=theta)
            out = np.asarray(out)
            if out.shape != mask.shape:
                return {'err': f'shape {out.shape}'}
            return {'vals': [float(v) for v in out.ravel()]}
        if c['op'] == 'coords':
            mask = np.array(c['mask'])
            keep = mask.copy()
            rho, theta = lentil.zernike_coordinates(mask)
            res = {'rho': np.asarray(rho, dtype=float).tolist(), 'theta': np.asarray(theta, dtype=float).tolist()}
            j = c['j']
            res['z4'] = np.asarray(lentil.zernike(mask, 4), dtype=float).tolist()
            res['zj'] = np.asarray(lentil.zernike(mask, j), dtype=float).tolist()
            res['zj_scaled'] = np.asarray(lentil.zernike(mask * c['scale'], j), dtype=float).tolist()
            res['zj_bool'] = np.asarray(lentil.zernike(mask != 0, j), dtype=float).tolist()
            res['zj_raw'] = np.asarray(lentil.zernike(mask, j, normalize=False), dtype=float).tolist()
            sup = mask != 0
            res['zj_dtypes'] = {dt: np.asarray(lentil.zernike(sup.astype(dt), j), dtype=float).tolist()
                                for dt in ('uint8', 'int32', 'float32')}
            res['mask_changed'] = not np.array_equal(mask, keep)
            res['variants'] = coords_variants(lentil, mask, j, res)
            return res
        if c['op'] == 'coords_large':
            return run_large(lentil, c)
        if c['op'] == 'coords_shift':
            mask = np.array(c['mask'])
            sh = [float(Fraction(v)) for v in c['shift']]
            arg = {'tuple': tuple(sh), 'list': list(sh), 'array': np.array(sh), 'int_array': np.array(sh).astype(int)}[c['form']]
            rho, theta = lentil.zernike_coordinates(mask, shift=arg)
            return {'rho': np.asarray(rho, dtype=float).tolist(), 'theta': np.asarray(theta, dtype=float).tolist()}
        if c['op'] == 'entry':
            mask = np.array(c['mask'])
            kw = {}
            if c['args'] in ('rho', 'both'):
                kw['rho'] = np.full(mask.shape, 0.5)
            if c['args'] in ('theta', 'both'):
                kw['theta'] = np.full(mask.shape, 0.3)
            mdt = c.get('mdtype', 'list')
            if c['via'] == 'zernike':
                idx = c['modes'][0] if mdt == 'list' else np.dtype(mdt).type(c['modes'][0])
                out = lentil.zernike(mask, idx, normalize=c['normalize'], **kw)
            else:
                modes = c['modes'][0] if c['via'].startswith('basis_scalar') else list(c['modes'])
                if mdt != 'list':
                    modes = np.dtype(mdt).type(modes) if c['via'].startswith('basis_scalar') else np.array(modes, dtype=mdt)
                out = lentil.zernike_basis(mask, modes, vectorize=c['via'].endswith('_vec'), normalize=c['normalize'], **kw)
            out = np.asarray(out, dtype=float)
            return {'shape': list(out.shape), 'rows': out.reshape((len(c['modes']), -1)).tolist()}
        if c['op'] == 'history':
            return run_history(lentil, c)
        if c['op'] == 'seq':
            return run_seq(lentil, c)
        if c['op'] == 'gram':
            return {'gram_entry': gram_entry(lentil, c['j'], c['j2'], *c['nodes'])}
        if c['op'] == 'bound':
            z = lentil.zernike(np.ones((1, 1)), c['j'], normalize=False, rho=np.full((1, 1), float(c['rho'])),
                               theta=np.full((1, 1), float(c['theta'])))
            return {'abs_value': float(abs(np.asarray(z, dtype=float)[0, 0]))}
    except Exception as e:
        return {'err': type(e).__name__}
    raise ValueError(c['op'])


class TaggedArray(np.ndarray):
    """an ndarray subclass that only carries metadata"""
    def __new__(cls, a, tag='pupil'):
        obj = np.asarray(a).view(cls)
        obj.tag = tag
        return obj

    def __array_finalize__(self, obj):
        self.tag = getattr(obj, 'tag', None)


def coords_variants(lentil, mask, j, res):
    """the same mask data handed over in other legal array_like forms and, for the coordinates, with other
    values on the same support: every result is reported as its largest deviation from the plain-ndarray call"""
    import tempfile
    out = {}
    rho0, th0 = np.asarray(res['rho'], dtype=float), np.asarray(res['theta'], dtype=float)
    zj0, raw0 = np.asarray(res['zj'], dtype=float), np.asarray(res['zj_raw'], dtype=float)
    forms = {
        'nested lists': lambda: mask.tolist(),
        'np.ma.MaskedArray (nothing masked)': lambda: np.ma.MaskedArray(mask.copy()),
        'np.matrix': lambda: np.matrix(mask.copy()),
        'metadata-carrying ndarray subclass': lambda: TaggedArray(mask.copy()),
        'Fortran-ordered copy': lambda: np.asfortranarray(mask),
        'strided view': lambda: np.repeat(np.repeat(mask, 2, axis=0), 3, axis=1)[::2, ::3],
        'support as bool': lambda: mask != 0,
        'support as float 0/1': lambda: (mask != 0).astype(float),
        'sign-flipped weights': lambda: -mask,
    }
    with tempfile.TemporaryDirectory(dir='/var/tmp') as d:
        def memmap():
            mm = np.memmap(d + '/m.dat', dtype=mask.dtype, mode='w+', shape=mask.shape)
            mm[...] = mask
            return mm
        forms['np.memmap'] = memmap
        for name, mk in forms.items():
            try:
                a = mk()
                keep = np.array(a, copy=True)
                rho, th = lentil.zernike_coordinates(a)
                dev = float(max(np.max(np.abs(np.asarray(rho, dtype=float) - rho0)),
                                np.max(np.abs(np.cos(np.asarray(th, dtype=float)) - np.cos(th0))),
                                np.max(np.abs(np.sin(np.asarray(th, dtype=float)) - np.sin(th0)))))
                z = np.asarray(lentil.zernike(a, j), dtype=float)
                out[name] = {'coords_dev': dev, 'mode_dev': float(np.max(np.abs(z.reshape(zj0.shape) - zj0))),
                             'changed': not np.array_equal(np.asarray(a), np.asarray(keep))}
                del a
            except Exception as e:
                out[name] = {'err': type(e).__name__}
    # the caller edits what it received in place; the next identical call must not see it
    try:
        e0 = np.geterr()
        r1, t1 = lentil.zernike_coordinates(mask)
        z1 = lentil.zernike(mask, j)
        for a in (r1, t1, z1):
            try:
                np.asarray(a)[...] = -7
            except (ValueError, TypeError):
                pass
        r2, t2 = lentil.zernike_coordinates(mask)
        z2 = np.asarray(lentil.zernike(mask, j), dtype=float)
        out['a repeated call after the caller overwrote the previous results in place'] = {
            'coords_dev': float(max(np.max(np.abs(np.asarray(r2, dtype=float) - rho0)), np.max(np.abs(np.asarray(t2, dtype=float) - th0)))),
            'mode_dev': float(np.max(np.abs(z2 - zj0))), 'changed': np.geterr() != e0}
    except Exception as e:
        out['a repeated call after the caller overwrote the previous results in place'] = {'err': type(e).__name__}
    # the caller's numpy error state must not matter
    for es in ('raise', 'ignore'):
        name = f'inside np.errstate(divide/invalid/over={es!r})'
        try:
            with np.errstate(divide=es, invalid=es, over=es):
                e1 = np.geterr()
                r3, t3 = lentil.zernike_coordinates(mask)
                z3 = np.asarray(lentil.zernike(mask, j), dtype=float)
                ch = np.geterr() != e1
            out[name] = {'coords_dev': float(max(np.max(np.abs(np.asarray(r3, dtype=float) - rho0)),
                                                 np.max(np.abs(np.asarray(t3, dtype=float) - th0)))),
                         'mode_dev': float(np.max(np.abs(z3 - zj0))), 'changed': bool(ch)}
        except Exception as e:
            out[name] = {'err': type(e).__name__}
    # truthy-but-not-True flags
    for name, flag, ref in (('normalize=np.True_', np.True_, zj0), ('normalize=1', 1, zj0),
                            ('normalize=np.False_', np.False_, raw0), ('normalize=0', 0, raw0)):
        try:
            z = np.asarray(lentil.zernike(mask, j, normalize=flag), dtype=float)
            out[name] = {'mode_dev': float(np.max(np.abs(z - ref)))}
        except Exception as e:
            out[name] = {'err': type(e).__name__}
    return out


def large_mask(c):
    r, cdim = c['shape']
    cr, cc, rad = c['disc']
    i, j = np.ogrid[0:r, 0:cdim]
    m = (i - cr) ** 2 + (j - cc) ** 2 <= rad * rad
    h = c['half']
    if h != 'none':
        m = m & {'u': i <= cr, 'd': i >= cr, 'l': j <= cc, 'r': j >= cc}[h]
    return m


def run_large(lentil, c):
    sup = large_mask(c)
    mask = sup if c['dtype'] == 'bool' else sup.astype(c['dtype'])
    rho, theta = lentil.zernike_coordinates(mask)
    rho = np.asarray(rho, dtype=float)
    z = np.asarray(lentil.zernike(mask, c['j']), dtype=float)
    # exact reference by integer sums
    idx_i, idx_j = np.nonzero(sup)
    cnt = int(sup.sum())
    si, sj = int(idx_i.sum()), int(idx_j.sum())
    i, j = np.ogrid[0:sup.shape[0], 0:sup.shape[1]]
    d2 = ((i * cnt - si).astype(float) ** 2 + (j * cnt - sj).astype(float) ** 2) / float(cnt) ** 2
    dmax2 = float(d2[sup].max())
    e = np.sqrt(d2 / dmax2)
    k = np.unravel_index(np.argmax(np.abs(rho - e)), rho.shape)
    res = {'rho_dev': float(np.abs(rho - e).max()), 'at': [int(k[0]), int(k[1])], 'rho_at': float(rho[k]), 'exp_at': float(e[k]),
           'centroid': [si / cnt, sj / cnt], 'max_rho_on_mask': float(rho[sup].max()),
           'outside_nonzero': bool(np.any(z[~sup] != 0)), 'shape_ok': z.shape == sup.shape, 'npix': cnt}
    jn = c['j']
    if jn in (4, 11):
        t = e ** 2
        ref = (math.sqrt(3) * (2 * t - 1) if jn == 4 else math.sqrt(5) * (6 * t * t - 6 * t + 1)) * sup
        res['mode_dev'] = float(np.abs(z - ref).max())
    else:
        res['tilt_sum'] = float(z[sup].sum())
    return res


def opd_of(c, shape):
    a, b, d, e = c['opd']
    i, j = np.indices(shape, dtype=float)
    return a + b * i + d * j + e * i * j / 4.0


def run_history(lentil, c):
    """one buffer object, refilled IN PLACE before every step; all references are computed afterwards on
    fresh arrays, so that they cannot disturb whatever state the calls on the buffer build up"""
    fills = [np.array(f) for f in c['fills']]
    shape = fills[0].shape
    buf = np.zeros(shape, dtype=c['dtype'])
    modes = list(c['modes'])
    opd = opd_of(c, shape)
    steps = []
    held = []            # (step, what, the array object the caller received, its content when it was returned)
    err_before = np.geterr()
    import contextlib
    es = c.get('errstate')
    ctx = np.errstate(divide=es, invalid=es, over=es) if es else contextlib.nullcontext()
    with ctx:
        err_in = np.geterr()
        for k, st in enumerate(c['steps']):
            f = fills[st['fill']]
            buf[...] = (f != 0) if c['dtype'] == 'bool' else (f * st.get('weight', 1)).astype(c['dtype'])
            snap = buf.copy()
            rec = {}
            try:
                if 'basis' in st['call']:
                    B = lentil.zernike_basis(buf, modes, vectorize=st['vectorize'], normalize=st['normalize'])
                    rec['basis'] = np.asarray(B, dtype=float).reshape((len(modes),) + shape).tolist()
                    held.append((k, 'zernike_basis', B, np.array(B, dtype=float, copy=True)))
                if 'fit' in st['call']:
                    F = lentil.zernike_fit(opd * (snap != 0), buf, modes, normalize=st['normalize'])
                    rec['fit'] = np.asarray(F, dtype=float).tolist()
                    held.append((k, 'zernike_fit', F, np.array(F, dtype=float, copy=True)))
                if st['call'] == 'remove':
                    Rm = lentil.zernike_remove(opd * (snap != 0), buf, modes)
                    rec['remove'] = np.asarray(Rm, dtype=float).tolist()
                    held.append((k, 'zernike_remove', Rm, np.array(Rm, dtype=float, copy=True)))
            except Exception as e:
                rec['err'] = type(e).__name__
            rec['buffer_changed'] = not np.array_equal(buf, snap)
            if np.geterr() != err_in:
                rec['errstate_changed'] = True
            steps.append(rec)
        # every result the caller still holds must be what it was when it was returned
        for k, what, live, then in held:
            a = np.asarray(live, dtype=float)
            if a.shape != then.shape or not np.array_equal(a, then, equal_nan=True):
                steps[k]['held_changed'] = [what, float(np.nanmax(np.abs(a - then))) if a.shape == then.shape else -1.0]
        # the caller may do what it likes with its results: overwrite them all, then repeat the last basis call
        last = [(k, then) for k, what, live, then in held if what == 'zernike_basis']
        if last:
            for k, what, live, then in held:
                try:
                    np.asarray(live)[...] = 1e300
                except (ValueError, TypeError):
                    pass
            k, then = last[-1]
            st = c['steps'][k]
            f = fills[st['fill']]
            buf[...] = (f != 0) if c['dtype'] == 'bool' else (f * st.get('weight', 1)).astype(c['dtype'])
            try:
                B2 = np.asarray(lentil.zernike_basis(buf, modes, vectorize=st['vectorize'], normalize=st['normalize']), dtype=float)
                steps[k]['after_scribble_dev'] = float(np.max(np.abs(B2 - then))) if B2.shape == then.shape else -1.0
            except Exception as e:
                steps[k]['after_scribble_dev'] = -2.0
    if np.geterr() != err_before:
        steps[-1]['errstate_changed'] = True
    # references: the single-mode entry point and the same calls on fresh arrays, after the history
    for st, rec in zip(c['steps'], steps):
        f = fills[st['fill']]
        fresh = (f != 0) if c['dtype'] == 'bool' else (f * st.get('weight', 1)).astype(c['dtype'])
        try:
            rec['ref_modes'] = [np.asarray(lentil.zernike(fresh.copy(), j, normalize=st['normalize']), dtype=float).tolist()
                                for j in modes]
            if 'fit' in rec:
                rec['ref_fit'] = np.asarray(lentil.zernike_fit(opd * (fresh != 0), fresh.copy(), modes, normalize=st['normalize']),
                                            dtype=float).tolist()
            if 'remove' in rec:
                rec['ref_remove'] = np.asarray(lentil.zernike_remove(opd * (fresh != 0), fresh.copy(), modes), dtype=float).tolist()
        except Exception as e:
            rec['ref_err'] = type(e).__name__
    return {'steps': steps}


def run_seq(lentil, c):
    """several modes evaluated on the SAME caller-owned rho/theta arrays"""
    L = c['L']
    rho = np.array([[float(Fraction(v)) for v in row] for row in c['rho']], dtype=float)
    theta = np.array([[2 * math.pi * k / L for k in row] for row in c['tk']], dtype=float)
    rho0, theta0 = rho.copy(), theta.copy()
    mask = np.array(c['mask'])
    live, then = [], []
    res = {}
    if c['via'] == 'zernike':
        for j, nz in c['calls']:
            z = lentil.zernike(mask, j, normalize=nz, rho=rho, theta=theta)
            live.append(z)
            then.append(np.array(z, dtype=float).ravel().tolist())
    elif c['via'] == 'basis':
        B = lentil.zernike_basis(mask, [j for j, _ in c['calls']], normalize=c['calls'][0][1], rho=rho, theta=theta)
        live = [B[k] for k in range(len(c['calls']))]
        then = [np.array(b, dtype=float).ravel().tolist() for b in live]
    else:
        nz = c['calls'][0][1]
        res['composed'] = np.asarray(lentil.zernike_compose(mask, c['coeffs'], normalize=nz, rho=rho, theta=theta),
                                     dtype=float).ravel().tolist()
        for j, _ in c['calls']:          # afterwards, on the same arrays
            z = lentil.zernike(mask, j, normalize=nz, rho=rho, theta=theta)
            live.append(z)
            then.append(np.array(z, dtype=float).ravel().tolist())
    res['then'] = then
    res['end'] = [np.array(z, dtype=float).ravel().tolist() for z in live]
    res['rho_changed'] = not np.array_equal(rho, rho0)
    res['theta_changed'] = not np.array_equal(theta, theta0)
    return res


def quad_nodes(nr_, nt):
    """exact quadrature for polynomials * trigonometric polynomials on the unit disk: Gauss-Legendre in rho
    (weight rho), uniform in theta; weights normalised by pi"""
    x, w = np.polynomial.legendre.leggauss(nr_)
    rho1 = 0.5 * (x + 1)
    w1 = 0.5 * w * rho1
    th1 = 2 * np.pi * np.arange(nt) / nt
    rho, theta = np.meshgrid(rho1, th1, indexing='ij')
    wt = np.outer(w1, np.full(nt, 2 * np.pi / nt)) / np.pi
    return rho, theta, wt


def gram_entry(lentil, j, j2, nr_, nt):
    rho, theta, wt = quad_nodes(nr_, nt)
    mask = np.ones(rho.shape)
    a = np.asarray(lentil.zernike(mask, j, rho=rho, theta=theta), dtype=float)
    b = np.asarray(lentil.zernike(mask, j2, rho=rho, theta=theta), dtype=float)
    return float(np.sum(a * b * wt))


# ------------------------------------------------------------------ comparison with the model
def mode_tol(c, ref):
    """rounding of the alternating radial sum in doubles: scaled by its conditioning"""
    try:
        m, n = noll_textbook(c['j'])
    except Exception:
        return [TOL] * len(ref)
    N = norm_textbook(m, n, c['normalize'])
    tols = []
    flat_rho = [v for row in c['rho'] for v in row]
    for rho, r in zip(flat_rho, ref):
        tols.append(TOL * (1 + abs(r)) + 256 * EPS * N * radial_cond(n, abs(m), Fraction(rho)))
    return tols


def close_vec(a, b, tols):
    worst = None
    for i, (x, y, t) in enumerate(zip(a, b, tols)):
        if not (abs(x - y) <= t):
            if worst is None or abs(x - y) > worst[1]:
                worst = (i, abs(x - y), x, y)
    return worst


def gram_mismatch(theta, dx, dy, tol=1e-9):
    """unit vectors (cos theta, sin theta) vs (dx, dy)/|.|: equal up to one fixed rotation/reflection
    iff their Gram matrices agree; samples at the origin (dx = dy = 0) have no direction"""
    th = np.asarray(theta, dtype=float).ravel()
    x = np.asarray([float(v) for v in dx])
    y = np.asarray([float(v) for v in dy])
    nz = (x != 0) | (y != 0)
    th, x, y = th[nz], x[nz], y[nz]
    if len(th) < 2:
        return None
    nrm = np.hypot(x, y)
    ux, uy = x / nrm, y / nrm
    g_model = np.outer(ux, ux) + np.outer(uy, uy)
    g_impl = np.cos(th[:, None] - th[None, :])
    d = np.abs(g_model - g_impl)
    if d.max() > tol:
        a, b = np.unravel_index(np.argmax(d), d.shape)
        return f'angle between samples #{a} and #{b} (non-origin order): cos = {g_impl[a, b]:.12g}, expected {g_model[a, b]:.12g}'
    return None


def radial_from_rho2(n, rho2):
    """R_n^0 as a polynomial in rho^2 (exact)"""
    return sum(cf * Fraction(rho2) ** (p // 2) for cf, p in radial_coeffs(n, 0))


def sub_mode_case(c, j, nz):
    return {'op': 'mode', 'j': j, 'normalize': nz, 'L': c['L'], 'rho': c['rho'], 'tk': c['tk'], 'mask': c['mask']}


def compare_history(c, impl, model):
    """the radially symmetric modes of every zernike_basis call against the model's rho^2 for the support
    that is in the buffer at that moment"""
    for k, (st, rec, mo) in enumerate(zip(c['steps'], impl['steps'], model['steps'])):
        if 'err' in mo or 'basis' not in rec:
            continue
        sup = np.asarray(c['fills'][st['fill']]) != 0
        for idx, j in enumerate(c['modes']):
            m, n = noll_textbook(j)
            if m != 0:
                continue
            N = norm_textbook(m, n, st['normalize'])
            got = np.asarray(rec['basis'][idx], dtype=float).ravel()
            for q, (r2, inside) in enumerate(zip(mo['rho2'], sup.ravel())):
                e = N * float(radial_from_rho2(n, r2)) if inside else 0.0
                if not abs(got[q] - e) <= TOL * (1 + abs(e)) + 256 * EPS * N * radial_cond(n, 0, math.sqrt(float(r2))):
                    return (f'step {k} (buffer refilled in place with support #{st["fill"]}): zernike_basis mode {j} at flat index {q} '
                            f'is {got[q]!r}, model (coordinates of the support now in the buffer) {e!r}')
    return None


def compare_seq(c, impl, model):
    for k, ((j, nz), mo) in enumerate(zip(c['calls'], model['calls'])):
        if 'err' in mo:
            continue
        sub = sub_mode_case(c, j, nz)
        msg = compare(sub, {'vals': impl['then'][k]}, mo)
        if msg:
            return f'call {k} of the sequence on shared rho/theta arrays: {msg}'
    return None


def compare_entry(c, impl, model):
    if ('err' in impl) != ('err' in model):
        return (f'{c["via"]} with rho/theta arguments "{c["args"]}", modes {c["modes"]}: implementation '
                f'{impl.get("err", "returned a value")}, model {model.get("err", "returned a value")}')
    if 'err' in impl:
        return None if impl['err'] == model['err'] else f'error kinds differ: impl {impl["err"]} model {model["err"]}'
    m = c['mask']
    r, cdim = len(m), len(m[0])
    nm = len(c['modes'])
    want = model['shape']
    if impl['shape'] != want:
        return f'{c["via"]}: result shape {impl["shape"]}, model {want}'
    if model.get('supplied'):
        return None
    for k, (j, mo) in enumerate(zip(c['modes'], model['modes'])):
        mm, n = noll_textbook(j)
        N = math.sqrt(mo['norm2'])
        div = math.sqrt(float(mo['rmax2'])) if mo['odd'] else 1.0
        exp = [N * float(v) / div for v in mo['vals']]
        tols = [TOL * (1 + abs(e)) + 256 * EPS * N * radial_cond(n, abs(mm), 1.0) for e in exp]
        got = impl['rows'][k]
        w = close_vec(got, exp, tols)
        if w is not None and j % 2 == 1 and close_vec(got, [-e for e in exp], tols) is None:
            w = None
        if w is not None:
            return (f'{c["via"]} (default coordinates, rho/theta arguments "{c["args"]}") mode {j} at flat index {w[0]}: '
                    f'{w[2]!r}, model {w[3]!r}')
    return None


def compare(c, impl, model):
    if c['op'] == 'coords_shift':
        if ('err' in impl) != ('err' in model):
            return f'implementation {impl.get("err", "returned a value")}, model {model.get("err", "returned a value")}'
        if 'err' in impl:
            return None
        if float(model['rmax2']) == 0:
            return None       # the only masked sample is the origin: 0/0, not modelled
        rho = np.asarray(impl['rho'], dtype=float).ravel()
        for k, (a, b) in enumerate(zip(rho, model['rho2'])):
            if not abs(a * a - float(b)) <= TOL * (1 + float(b)):
                return f'shift={c["shift"]}: rho^2 at flat index {k}: {a * a!r} vs model {float(b)!r}'
        return gram_mismatch(impl['theta'], model['dx'], model['dy'])
    if c['op'] == 'entry':
        return compare_entry(c, impl, model)
    if c['op'] == 'history':
        return compare_history(c, impl, model)
    if c['op'] == 'seq':
        return None if 'err' in impl else compare_seq(c, impl, model)
    if ('err' in impl) != ('err' in model):
        return f'implementation {impl.get("err", "returned a value")}, model {model.get("err", "returned a value")}'
    if 'err' in impl:
        return None if impl['err'] == model['err'] else f'error kinds differ: impl {impl["err"]} model {model["err"]}'
    if c['op'] == 'index_bulk':
        if impl['mn'] != model['mn']:
            for k, (a, b) in enumerate(zip(impl['mn'], model['mn'])):
                if a != b:
                    return f'zernike_index({c["lo"] + k}) = (m, n) = {tuple(a)}, model {tuple(b)}'
            return 'lengths differ'
        return None
    if c['op'] == 'index':
        return None if impl['mn'] == model['mn'] else f'zernike_index({c["j"]}) = {tuple(impl["mn"])}, model {tuple(model["mn"])}'
    if c['op'] == 'mode':
        ref = model['vals']
        tols = mode_tol(c, ref)
        w = close_vec(impl['vals'], ref, tols)
        if w is not None and c['j'] % 2 == 1:
            w2 = close_vec(impl['vals'], [-v for v in ref], tols)     # sine modes: global sign not pinned
            if w2 is None:
                w = None
        if w is not None:
            return f'zernike(j={c["j"]}, normalize={c["normalize"]}) sample #{w[0]}: {w[2]!r} vs model {w[3]!r} (|diff| {w[1]:.3g})'
        return None
    if c['op'] == 'coords':
        rho = np.asarray(impl['rho'], dtype=float).ravel()
        for k, (a, b) in enumerate(zip(rho, model['rho2'])):
            if not abs(a * a - float(b)) <= TOL * (1 + float(b)):
                return f'rho^2 at flat index {k}: {a * a!r} vs model {float(b)!r}'
        return gram_mismatch(impl['theta'], model['dx'], model['dy'])
    return None


# ------------------------------------------------------------------ direct oracle (no model)
def centroid_exact(mb):
    r, c = mb.shape
    cnt = int(mb.sum())
    cr = Fraction(sum(i for i in range(r) for j in range(c) if mb[i, j]), cnt)
    cc = Fraction(sum(j for i in range(r) for j in range(c) if mb[i, j]), cnt)
    return cr, cc


def oracle(c, impl):
    if c['op'] == 'index_bulk':
        if 'err' in impl:
            return f'zernike_index raised {impl["err"]} in block starting at {c["lo"]}'
        exp = noll_textbook_block(c['lo'], c['cnt'])
        for k, (a, b) in enumerate(zip(impl['mn'], exp)):
            if tuple(a) != tuple(b):
                return f'zernike_index({c["lo"] + k}) = (m, n) = {tuple(a)}, Noll ordering gives {tuple(b)}'
        return None
    if c['op'] == 'index':
        if c['j'] < 1:
            return None if impl.get('err') == 'ValueError' else f'zernike_index({c["j"]}) did not raise ValueError'
        if 'err' in impl:
            return f'zernike_index({c["j"]}) raised {impl["err"]}'
        exp = noll_textbook(c['j'])
        return None if tuple(impl['mn']) == exp else f'zernike_index({c["j"]}) = {tuple(impl["mn"])}, Noll ordering gives {exp}'
    if c['op'] == 'mode':
        if c['j'] < 1:
            return None if impl.get('err') == 'ValueError' else f'zernike(j={c["j"]}) did not raise ValueError'
        if 'err' in impl:
            return f'zernike(j={c["j"]}) raised {impl["err"]}'
        L = c['L']
        flat = [(Fraction(r), 2 * math.pi * k / L, mv) for rr, tt, mm in zip(c['rho'], c['tk'], c['mask'])
                for r, k, mv in zip(rr, tt, mm)]
        exp, sine = [], False
        for rho, th, mv in flat:
            v, sine = mode_textbook(c['j'], c['normalize'], rho, th)
            exp.append(v if mv != 0 else 0.0)
        tols = mode_tol(c, exp)
        for k, (_, _, mv) in enumerate(flat):
            if mv == 0 and impl['vals'][k] != 0:
                return f'zernike(j={c["j"]}) is {impl["vals"][k]!r} at sample #{k} outside the mask'
        w = close_vec(impl['vals'], exp, tols)
        if w is not None and sine:
            if close_vec(impl['vals'], [-v for v in exp], tols) is None:
                w = None
        if w is not None:
            m, n = noll_textbook(c['j'])
            return (f'zernike(j={c["j"]}, normalize={c["normalize"]}) is not N*R_{n}^{abs(m)}(rho)*{"sin" if sine else "cos"}({abs(m)} theta): '
                    f'sample #{w[0]} rho={flat[w[0]][0]} theta={flat[w[0]][1]!r}: {w[2]!r}, textbook {w[3]!r}')
        return None
    if c['op'] == 'coords':
        if 'err' in impl:
            return f'zernike_coordinates / zernike raised {impl["err"]}'
        if impl.get('mask_changed'):
            return 'the caller\'s mask was modified'
        mb = np.asarray(c['mask']) != 0
        r, cc_ = mb.shape
        cr, cc = centroid_exact(mb)
        d2 = [[(i - cr) ** 2 + (j - cc) ** 2 for j in range(cc_)] for i in range(r)]
        dmax2 = max(d2[i][j] for i in range(r) for j in range(cc_) if mb[i, j])
        rho = np.asarray(impl['rho'], dtype=float)
        for i in range(r):
            for j in range(cc_):
                e = math.sqrt(float(d2[i][j] / dmax2))
                if not abs(rho[i, j] - e) <= TOL * (1 + e):
                    return (f'rho[{i},{j}] = {rho[i, j]!r}; with the origin at the mask centroid ({float(cr)}, {float(cc)}) and rho = 1 at '
                            f'the farthest masked sample it is {e!r} (shape {mb.shape})')
        mx = float(np.max(rho[mb]))
        if not abs(mx - 1.0) <= 1e-12:
            return f'largest rho over the mask is {mx!r}, not 1'
        # theta: directions from the centroid, up to a fixed rotation/reflection
        dx = [Fraction(j) - cc for i in range(r) for j in range(cc_)]
        dy = [Fraction(i) - cr for i in range(r) for j in range(cc_)]
        msg = gram_mismatch(impl['theta'], dx, dy)
        if msg:
            return 'theta is not measured about the mask centroid: ' + msg
        # default-coordinate modes
        z4 = np.asarray(impl['z4'], dtype=float)
        for i in range(r):
            for j in range(cc_):
                e = math.sqrt(3) * (2 * float(d2[i][j] / dmax2) - 1) if mb[i, j] else 0.0
                if not abs(z4[i, j] - e) <= TOL * (1 + abs(e)):
                    return f'zernike(mask, 4)[{i},{j}] = {z4[i, j]!r}, sqrt(3)(2 rho^2 - 1) about the centroid is {e!r}'
        zj = np.asarray(impl['zj'], dtype=float)
        if np.any(zj[~mb] != 0):
            return f'zernike(mask, {c["j"]}) is non-zero outside the mask'
        for key, what in (('zj_scaled', f'mask*{c["scale"]}'), ('zj_bool', 'mask != 0')):
            if not np.array_equal(np.asarray(impl[key], dtype=float), zj):
                return f'zernike(mask, {c["j"]}) changes when the mask is replaced by {what} (same support)'
        # the default path uses exactly these coordinates
        theta = np.asarray(impl['theta'], dtype=float)
        m, n = noll_textbook(c['j'])
        exp = np.zeros(mb.shape)
        tol = np.zeros(mb.shape)
        for i in range(r):
            for j in range(cc_):
                if mb[i, j]:
                    N = norm_textbook(m, n, True)
                    a = abs(m)
                    rr = sum(cf * rho[i, j] ** p for cf, p in radial_coeffs(n, a))
                    az = 1.0 if m == 0 else (math.cos(a * theta[i, j]) if c['j'] % 2 == 0 else math.sin(a * theta[i, j]))
                    exp[i, j] = N * rr * az
                    tol[i, j] = TOL * (1 + abs(exp[i, j])) + 256 * EPS * N * radial_cond(n, a, rho[i, j])
        ok = np.all(np.abs(zj - exp) <= tol + 1e-300) or (c['j'] % 2 == 1 and np.all(np.abs(zj + exp) <= tol + 1e-300))
        if not ok:
            k = np.unravel_index(np.argmax(np.abs(zj - exp) - tol), mb.shape)
            return (f'zernike(mask, {c["j"]}) with default coordinates differs from the mode evaluated at zernike_coordinates(mask): '
                    f'[{k[0]},{k[1]}] {zj[k]!r} vs {exp[k]!r}')
        for dt, v in impl.get('zj_dtypes', {}).items():
            if not np.array_equal(np.asarray(v, dtype=float), zj):
                return f'zernike(mask, {c["j"]}) changes when the same support is given as a {dt} array'
        raw = np.asarray(impl['zj_raw'], dtype=float)
        N = norm_textbook(m, n, True)
        if not np.all(np.abs(raw * N - zj) <= 1e-12 * (1 + np.abs(zj))):
            return f'normalize=True is not normalize=False times sqrt({"n+1" if m == 0 else "2(n+1)"}) for j={c["j"]}'
        # the same data in other legal array_like forms / other values on the same support
        for name, v in impl.get('variants', {}).items():
            if 'err' in v:
                return f'the mask given as {name}: raised {v["err"]} (the plain ndarray with the same data is accepted)'
            if v.get('changed'):
                return f'the mask given as {name}: the caller\'s array was modified'
            if 'coords_dev' in v and not v['coords_dev'] <= 1e-12:
                return (f'zernike_coordinates of the mask given as {name} differs from that of the plain ndarray with the same '
                        f'support by {v["coords_dev"]!r} (rho / cos theta / sin theta)')
            if not v['mode_dev'] <= 1e-12 * (1 + float(np.max(np.abs(zj)))):
                return f'zernike(mask, {c["j"]}) with the mask given as / called with {name} differs by {v["mode_dev"]!r}'
        return None
    if c['op'] == 'coords_shift':
        if 'err' in impl:
            return f'zernike_coordinates(mask, shift={c["shift"]}) raised {impl["err"]}'
        mb = np.asarray(c['mask']) != 0
        r, cc_ = mb.shape
        o_r, o_c = r // 2 + Fraction(c['shift'][0]), cc_ // 2 + Fraction(c['shift'][1])
        d2 = np.array([[float((i - o_r) ** 2 + (j - o_c) ** 2) for j in range(cc_)] for i in range(r)])
        dmax2 = d2[mb].max()
        if dmax2 == 0:
            return None
        rho = np.asarray(impl['rho'], dtype=float)
        e = np.sqrt(d2 / dmax2)
        if not np.all(np.abs(rho - e) <= TOL * (1 + e)):
            k = np.unravel_index(np.argmax(np.abs(rho - e)), rho.shape)
            return (f'shift={c["shift"]} ({c["form"]}): rho[{k[0]},{k[1]}] = {rho[k]!r}; with the origin at shape//2 + shift = '
                    f'({float(o_r)}, {float(o_c)}) and rho = 1 at the farthest masked sample it is {e[k]!r}')
        dx = [Fraction(j) - o_c for i in range(r) for j in range(cc_)]
        dy = [Fraction(i) - o_r for i in range(r) for j in range(cc_)]
        msg = gram_mismatch(impl['theta'], dx, dy)
        return ('theta is not measured about shape//2 + shift: ' + msg) if msg else None
    if c['op'] == 'entry':
        if 'err' in impl or c['args'] in ('rho', 'both') or min(c['modes']) < 1:
            return None      # refusals and caller-supplied coordinates: decided by the model comparison / the mode cases
        sup = (np.asarray(c['mask']) != 0).astype(int).tolist()
        rows = np.asarray(impl['rows'], dtype=float).reshape((len(c['modes']), len(sup), len(sup[0]))).tolist()
        h = {'op': 'history', 'dtype': 'float64', 'fills': [sup], 'modes': c['modes'],
             'steps': [{'fill': 0, 'normalize': c['normalize'], 'vectorize': False, 'call': 'basis'}]}
        msg = oracle_history(h, {'steps': [{'basis': rows, 'ref_modes': rows}]})
        return (f'{c["via"]} with default coordinates, Noll indices carried as {c.get("mdtype", "list")}: ' + msg) if msg else None
    if c['op'] == 'coords_large':
        if 'err' in impl:
            return f'zernike_coordinates / zernike raised {impl["err"]} on a {c["shape"]} {c["dtype"]} mask'
        what = f'{c["shape"][0]}x{c["shape"][1]} {c["dtype"]} mask ({impl["npix"]} masked samples, centroid {impl["centroid"]})'
        if not impl['rho_dev'] <= TOL:
            return (f'{what}: rho{impl["at"]} = {impl["rho_at"]!r}, about the centroid with rho = 1 at the farthest masked sample '
                    f'it is {impl["exp_at"]!r}')
        if not abs(impl['max_rho_on_mask'] - 1) <= 1e-12:
            return f'{what}: largest rho over the mask is {impl["max_rho_on_mask"]!r}, not 1'
        if impl['outside_nonzero'] or not impl['shape_ok']:
            return f'{what}: zernike(mask, {c["j"]}) is non-zero outside the mask or has the wrong shape'
        if 'mode_dev' in impl and not impl['mode_dev'] <= 1e-8:
            return f'{what}: zernike(mask, {c["j"]}) deviates by {impl["mode_dev"]!r} from the radial polynomial about the centroid'
        if 'tilt_sum' in impl and not abs(impl['tilt_sum']) <= 1e-9 * impl['npix'] * 4:
            return f'{what}: tilt mode {c["j"]} sums to {impl["tilt_sum"]!r} over the mask: origin is not the centroid'
        return None
    if c['op'] == 'history':
        return oracle_history(c, impl)
    if c['op'] == 'seq':
        return oracle_seq(c, impl)
    if c['op'] == 'gram':
        if 'err' in impl:
            return f'zernike raised {impl["err"]}'
        e = 1.0 if c['j'] == c['j2'] else 0.0
        g = impl['gram_entry']
        return None if abs(g - e) <= 1e-8 else (f'(1/pi) integral of Z_{c["j"]} Z_{c["j2"]} over the unit disk = {g!r} '
                                                f'(exact quadrature nodes), expected {e}')
    if c['op'] == 'bound':
        if 'err' in impl:
            return f'zernike raised {impl["err"]}'
        return None if impl['abs_value'] <= 1 + 1e-7 else (f'|Z_{c["j"]}| = {impl["abs_value"]!r} > 1 without normalisation at '
                                                            f'rho={c["rho"]!r}, theta={c["theta"]!r}')
    return None


def history_text(c, k):
    h = ', '.join(f'#{s_["fill"]}:{s_["call"]}' for s_ in c['steps'][:k + 1])
    return f'one {c["dtype"]} buffer refilled in place, calls so far [{h}]'


def oracle_history(c, impl):
    """every call on the re-used buffer must describe the support the buffer holds NOW: checks that need no
    model and no other lentil call (zero outside, tilts centred on the centroid, radial modes textbook about the
    centroid with rho = 1 at the farthest sample), then equality with the same request made on a fresh array"""
    modes = c['modes']
    for k, (st, rec) in enumerate(zip(c['steps'], impl['steps'])):
        where = f'step {k} ({history_text(c, k)})'
        if 'err' in rec or 'ref_err' in rec:
            return f'{where}: raised {rec.get("err") or rec.get("ref_err")}'
        if rec.get('buffer_changed'):
            return f'{where}: the caller\'s mask buffer was modified'
        if rec.get('errstate_changed'):
            return f'{where}: the caller\'s numpy error state (np.geterr()) was changed by the library'
        if 'held_changed' in rec:
            what, dev = rec['held_changed']
            return (f'{where}: the {what} result returned at this step and still held by the caller was overwritten by the later '
                    f'calls of the history (max change {dev!r}): it is no longer the modes / fit of its own mask')
        if 'after_scribble_dev' in rec and not (0 <= rec['after_scribble_dev'] <= 1e-12):
            return (f'{where}: after the caller overwrote the arrays it had received, repeating this zernike_basis call gives a '
                    f'different result (max change {rec["after_scribble_dev"]!r}): results share memory with library state')
        sup = np.asarray(c['fills'][st['fill']]) != 0
        r, cc_ = sup.shape
        npix = int(sup.sum())
        cr, cc = centroid_exact(sup)
        d2 = np.array([[float((i - cr) ** 2 + (j - cc) ** 2) for j in range(cc_)] for i in range(r)])
        dmax2 = d2[sup].max()
        if 'basis' in rec:
            B = np.asarray(rec['basis'], dtype=float)
            for idx, j in enumerate(modes):
                m, n = noll_textbook(j)
                N = norm_textbook(m, n, st['normalize'])
                z = B[idx]
                if np.any(z[~sup] != 0):
                    return f'{where}: zernike_basis mode {j} is non-zero outside the current support'
                if dmax2 > 0 and m == 0:
                    rho = np.sqrt(d2 / dmax2)
                    e = N * sum(cf * rho ** p for cf, p in radial_coeffs(n, 0)) * sup
                    tol = TOL * (1 + np.abs(e)) + 256 * EPS * N * sum(abs(cf) * rho ** p for cf, p in radial_coeffs(n, 0))
                    if not np.all(np.abs(z - e) <= tol):
                        q = np.unravel_index(np.argmax(np.abs(z - e) - tol), z.shape)
                        return (f'{where}: zernike_basis mode {j} [{q[0]},{q[1]}] = {z[q]!r}; about the centroid of the support now in the '
                                f'buffer ({float(cr):.6g}, {float(cc):.6g}) with rho = 1 at its farthest sample it is {e[q]!r}')
                if dmax2 > 0 and n == 1:
                    # 2 rho cos/sin(theta + any fixed rotation) sums to zero over the support iff the origin is its centroid
                    if not abs(z[sup].sum()) <= 1e-9 * npix * N * max(1.0, float(np.sqrt(d2.max() / dmax2))):
                        return (f'{where}: zernike_basis tilt mode {j} sums to {z[sup].sum()!r} over the support: '
                                f'the polar origin is not the centroid of the support now in the buffer')
            ref = np.asarray(rec['ref_modes'], dtype=float)
            if not np.all(np.abs(B - ref) <= TOL * (1 + np.abs(ref))):
                q = np.unravel_index(np.argmax(np.abs(B - ref)), B.shape)
                return (f'{where}: zernike_basis mode {modes[q[0]]} [{q[1]},{q[2]}] = {B[q]!r} but lentil.zernike on a fresh copy of the '
                        f'same mask gives {ref[q]!r}: the result depends on the call history, not on the support')
        for key, name in (('fit', 'zernike_fit'), ('remove', 'zernike_remove')):
            if key in rec:
                a = np.asarray(rec[key], dtype=float)
                b = np.asarray(rec['ref_' + key], dtype=float)
                if a.shape != b.shape or not np.all(np.abs(a - b) <= 1e-7 * (1 + np.max(np.abs(b)))):
                    return (f'{where}: {name} on the re-used buffer differs from the same call on a fresh copy of the mask '
                            f'(max |diff| {float(np.max(np.abs(a - b))) if a.shape == b.shape else "shape"}): '
                            f'its default-coordinate basis depends on the call history')
    return None


def oracle_seq(c, impl):
    if 'err' in impl:
        return f'sequence on shared coordinates raised {impl["err"]}'
    for k, (j, nz) in enumerate(c['calls']):
        sub = sub_mode_case(c, j, nz)
        for key, when in (('then', 'as returned'), ('end', 'as held by the caller after the later calls')):
            msg = oracle(sub, {'vals': impl[key][k]})
            if msg:
                hist = ', '.join(f'{a}' for a, _ in c['calls'][:k + 1] if True)
                extra_ = ''
                if impl.get('rho_changed') or impl.get('theta_changed'):
                    extra_ = ' (the caller\'s ' + ('rho' if impl.get('rho_changed') else 'theta') + ' array was overwritten)'
                return (f'call {k} of modes [{hist}] via {c["via"]} on the same caller-supplied rho/theta arrays, {when}: {msg}{extra_}')
    if c['via'] == 'compose':
        exp = np.zeros(len(impl['then'][0]))
        for cf, z in zip(c['coeffs'], impl['then']):
            exp += cf * np.asarray(z)
        got = np.asarray(impl['composed'])
        if not np.all(np.abs(got - exp) <= 1e-9 * (1 + np.abs(exp)) * max(1, len(c['coeffs']))):
            return 'zernike_compose on caller-supplied coordinates is not the coefficient-weighted sum of the modes 1..k'
    return None


def known_match(f, c, impl):
    if f['id'] == 'C11-uint64-index':
        return c.get('op') == 'entry' and c.get('mdtype') == 'uint64' and impl.get('err') == 'TypeError'
    return False


def replay_known(f):
    if f['id'] == 'C11-uint64-index':
        Z = zmod()
        try:
            Z.zernike_index(np.uint64(2))
        except TypeError:
            return True
        return False
    return False


# ------------------------------------------------------------------ numeric tests (labelled as tests)
def extra(tier, rng):
    lentil = C.import_lentil()
    quick = tier == 'quick'
    jmax = 66 if quick else 231
    violations = []
    report = {}
    # (a) orthonormality by exact quadrature on caller-supplied nodes: Gauss-Legendre in rho (weight rho), uniform in theta
    nr_, nt = 48, 96
    rho, theta, wt = quad_nodes(nr_, nt)
    mask = np.ones(rho.shape)
    B = np.array([np.asarray(lentil.zernike(mask, j, rho=rho, theta=theta), dtype=float).ravel() for j in range(1, jmax + 1)])
    G = (B * wt.ravel()) @ B.T
    dev = np.abs(G - np.eye(jmax))
    k = np.unravel_index(np.argmax(dev), dev.shape)
    report['orthonormality_test'] = {'kind': 'numeric test (float quadrature, not a theorem)', 'modes': jmax,
                                     'nodes': [nr_, nt], 'max_abs_deviation_from_identity': float(dev.max()), 'tolerance': 1e-8}
    if not dev.max() <= 1e-8:
        violations.append({'case': {'op': 'gram', 'j': int(k[0] + 1), 'j2': int(k[1] + 1), 'nodes': [nr_, nt]},
                           'impl': {'gram_entry': float(G[k])},
                           'what': f'(1/pi) integral of Z_{k[0] + 1} Z_{k[1] + 1} over the unit disk = {G[k]!r} (exact quadrature nodes), '
                                   f'expected {1.0 if k[0] == k[1] else 0.0}'})
    # (b) |Z| <= 1 without normalisation on a grid
    g_r, g_t = (401, 90) if quick else (1601, 180)
    rho, theta = np.meshgrid(np.linspace(0, 1, g_r), 2 * np.pi * np.arange(g_t) / g_t, indexing='ij')
    mask = np.ones(rho.shape)
    worst = (0.0, None)
    for j in range(1, jmax + 1):
        z = np.abs(np.asarray(lentil.zernike(mask, j, normalize=False, rho=rho, theta=theta), dtype=float))
        if z.max() > worst[0]:
            worst = (float(z.max()), j)
        if not z.max() <= 1 + 1e-7:
            i = np.unravel_index(np.argmax(z), z.shape)
            violations.append({'case': {'op': 'bound', 'j': j, 'rho': float(rho[i]), 'theta': float(theta[i])},
                               'impl': {'abs_value': float(z.max())},
                               'what': f'|Z_{j}| = {z.max()!r} > 1 without normalisation at rho={rho[i]!r}, theta={theta[i]!r}'})
            break
    report['bounded_by_one_test'] = {'kind': 'numeric test on a grid (not a theorem)', 'modes': jmax, 'grid': [g_r, g_t],
                                     'max_abs': worst[0], 'at_mode': worst[1], 'tolerance': 1e-7}
    # (c) which global sign the sine modes carry (reported, not judged)
    z3 = float(np.asarray(lentil.zernike(np.ones((1, 1)), 3, rho=np.ones((1, 1)), theta=np.full((1, 1), np.pi / 2)))[0, 0])
    report['sine_sign_observed'] = 'Z3(rho=1, theta=pi/2) = %r (code: sin(m theta) with m < 0)' % z3
    return {'report': report, 'violations': violations}


# ------------------------------------------------------------------ WP-T2: translation layer (source -> Gallina)
# An ADDITIONAL tie: harness/gen_src.py (suite 'C11') translates the integer part of lentil/zernike.py:zernike_index (after the float row formula) from the CURRENT source
# text into coq/theories/Gen/ZernikeSrc.v; Proofs/ZernikeSrcP.v proves every translated term equal to the model for all integers;
# Properties/C11Src.v states it.  Policy (as for C06): a function the translator refuses is only reported
# (coverage.extra.source_translation.refused); a translated function whose equivalence lemma no longer compiles is a
# VIOLATION with a witness searched on an exhaustive small box (replayable: op 'src').  The build of C11Src happens
# here, never in COQ_TARGETS.  The checks of the `extra` defined above are kept unchanged; their report is extended.
_extra_before_src_layer = extra


def extra(tier, rng):
    from .. import gen_src as G
    try:
        base = _extra_before_src_layer(tier, rng)
    except Exception as e:          # keep the translation layer's verdict when the other checks cannot even run
        import traceback
        base = {'report': {'error': traceback.format_exc()[-800:]},
                'violations': [{'case': None, 'impl': None,
                                'what': f'extra: the checks preceding the translation layer raised {type(e).__name__}: {e}'}]}
    layer = G.run_layer('C11', ID, tier, rng, C)
    report = dict(base.get('report', {}))
    report['source_translation'] = layer['report']
    return {'report': report, 'violations': list(base.get('violations', [])) + layer['violations']}


def _wrap_src_replay():
    from .. import gen_src as G
    return G.wrap_replay(run_impl, oracle, C)


run_impl, oracle = _wrap_src_replay()
