"""C07 - Wavefront views agree with each other and planes act as pointwise phasors."""
import cmath
import math
from fractions import Fraction

import numpy as np

from .. import common as C

ID = 'C07'
MODEL = 'c07'
RUNFUN = 'run'
COQ_TARGETS = ['theories/Properties/C07.vo', 'theories/Extract/RunC07.vo']
DESIGN_REF = 'DESIGN.md section 6, C07'
TECHNIQUE = ('Coq proof (ring-generic) about the executable model of Plane.__init__/Plane.multiply/_mul_pixelscale/'
             'Pupil.multiply and Wavefront.field/.intensity/.insert + execution of the extracted model on the exact '
             'group ring Q(i)[C_L] against the public lentil API (Wavefront * Plane chains)')
LEVEL_TEXT = ('Theorems in coq/theories/Properties/C07.v for every commutative ring with conjugation: intensity = '
              '|field|^2 samplewise for every list of sized fields and every shape; Wavefront.insert = out + '
              'weight*intensity on the overlap; Plane.multiply = pointwise product with amplitude*exp(2 pi i opd/lambda)*'
              '[mask] (array masks, monolithic and segmented; all-scalar planes incl. the default plane = identity); '
              'wavelength kept, Pupil hands over its focal length; _mul_pixelscale table. The model is extracted and '
              'compared with lentil on every run.')
LEVEL_NOTE = ('Trusted: Coq kernel, extraction, harness, numpy slicing/broadcasting/np.exp (modelled, observed through the '
              'tie; tolerance 1e-9 where an OPD is present, exact field comparison otherwise). Describes the code after '
              'the fix: commits for C07-one-element-array-field, C07-one-layer-cube and C07-scalar-mask-ignored; theorem (c) '
              'covers planes with an array mask (segments of any size) and all-scalar planes.')
TRUSTED = ['Coq 8.16.1 kernel (coqc; coqchk in the thorough tier)',
           'extraction with ExtrOcamlBasic only; ocaml/driver.ml',
           'harness/props/c07.py: codec, evaluation of group-ring elements at exp(-2 pi i/L), canvas oracle',
           'numpy basic slicing, broadcasting, np.exp and in-place += (modelled; observed through the tie)',
           'the plane-type table that admits a multiplication is property C08 (only permitted combinations are run)',
           'parametricity: the theorem instance (any ring) and the executed instance (group ring) are the same Gallina term']
ASSUMPTIONS = ['array attributes of a plane share the shape of its mask; masks are not identically zero',
               'OPD = k*lambda/L with L <= 12 (phases are L-th roots of unity); amplitudes and incoming data Gaussian integers',
               'permitted plane types only: chains Plane* Pupil* on a fresh Wavefront',
               'comparison: exact for the complex field when no OPD is present, 1e-9 relative otherwise; 1e-12 for |.|^2']
RULE = ('chains of 1..3 planes on a fresh Wavefront: amplitude/OPD/mask each scalar or array (all 8 combinations), '
        'monolithic or segmented (mask cube from a random labelling, so bounding boxes overlap), pixelscale '
        'None/scalar/pair on both sides incl. inconsistent ones, Pupil focal lengths, per-segment tilt lists; after every '
        'step wavelength, pixelscale, focal_length, shape, .field, .intensity are compared, finally .insert(out, weight) '
        'with prior content and dyadic weights; array attributes as ndarray subclasses (masked with/without flags, matrix, metadata '
        'subclass, memmap; constructor and setters; caller memory unchanged); amplitudes scaled by 2^-30..2^-43 with un-scaling; '
        'lentil.Tilt planes with non-default scalar amplitude/opd (kwargs or assigned); pixel scales differing by 1e-3..1e-17 relative / 1e-8..1e-20 absolute at scales 1, '
        '1e-3, 5e-6, 4e-9 (scalar and per-axis, one axis equal): refused exactly when unequal as floats; lentil.Tilt planes and tilted incoming wavefronts in the chains, the input '
        'wavefront looked at again afterwards; masks as float/int/bool/uint8; plane-object histories: 2-4 multiplies on ONE '
        'plane with amplitude/opd/mask updates (setter and in place) and repeated/different wavelengths, each compared with '
        'the plane\'s CURRENT attributes; constructor calls looked at right after construction (amplitude= and amp= alone and together incl. 1 in several spellings and 1x1 arrays, masks of rank 0/2/3/4, masks without a set sample: outcome or exception, amplitude, opd, mask, shape, size, global_mask, pixelscale, focal_length, caller memory); '
        'Wavefront(..., tilt=) with 0..4 entries as list/tuple/ndarray; every chain in one of the spellings w*p / p*w / p.multiply(w) / w*=p with every wavefront of the chain held and looked at again at the end; chains blocked by two disjoint stops followed by a pupil / an inconsistently sampled plane; non-trivial = at least one array attribute and (two planes or a cube)')

LAM = Fraction(1, 2 ** 20)


# ------------------------------------------------------------------ case geometry (shared by encoder, oracle, classifier)
def F(x):
    return Fraction(x)


def cnum(v):
    return complex(float(F(v[0])), float(F(v[1])))


def is_nz(v):
    return F(v[0]) != 0 or F(v[1]) != 0


def plane_geom(pl):
    """-> dict(mshape, segs (list of 2-d bool lists) or None, mscalar)"""
    mk = pl['mask']
    amp = pl['amp']
    if mk is None:
        if 'a' in amp:
            seg = [[is_nz(v) for v in row] for row in amp['a']]
            return {'mshape': (len(seg), len(seg[0])), 'segs': [seg], 'cube': False, 'mscalar': None}
        return {'mshape': None, 'segs': None, 'cube': False, 'mscalar': is_nz(amp['s'])}
    if 's' in mk:
        return {'mshape': None, 'segs': None, 'cube': False, 'mscalar': is_nz(mk['s'])}
    if 'a' in mk:
        seg = [[is_nz(v) for v in row] for row in mk['a']]
        return {'mshape': (len(seg), len(seg[0])), 'segs': [seg], 'cube': False, 'mscalar': None}
    segs = [[[is_nz(v) for v in row] for row in layer] for layer in mk['c']]
    return {'mshape': (len(segs[0]), len(segs[0][0])), 'segs': segs, 'cube': True, 'mscalar': None}


def bbox(seg):
    rows = [i for i, row in enumerate(seg) if any(row)]
    cols = [j for j in range(len(seg[0])) if any(row[j] for row in seg)]
    if not rows:
        return None
    return rows[0], rows[-1], cols[0], cols[-1]


def attr_arrays(pl):
    out = []
    if 'a' in pl['amp']:
        out.append((len(pl['amp']['a']), len(pl['amp']['a'][0])))
    if 'a' in pl['opd']:
        out.append((len(pl['opd']['a']), len(pl['opd']['a'][0])))
    return out


def transmission(pl, L, r, c, mfac=1):
    """amplitude * exp(2 pi i opd/lambda) * [mask] at plane coordinate (r, c), origin = sample floor(n/2).
    The reading of the property: outside an array attribute nothing is transmitted."""
    g = plane_geom(pl)
    amp, opd = pl['amp'], pl['opd']
    if 'a' in amp:
        n, m = len(amp['a']), len(amp['a'][0])
        i, j = r + n // 2, c + m // 2
        if not (0 <= i < n and 0 <= j < m):
            return 0j
        a = cnum(amp['a'][i][j])
    else:
        a = cnum(amp['s'])
    if 'a' in opd:
        n, m = len(opd['a']), len(opd['a'][0])
        i, j = r + n // 2, c + m // 2
        if not (0 <= i < n and 0 <= j < m):
            return 0j
        k = opd['a'][i][j]
    else:
        k = opd['s']
    ph = cmath.exp(2j * math.pi * (((k * mfac) % L) / L)) if L > 1 else 1.0
    if g['segs'] is None:
        mval = 1 if g['mscalar'] else 0
    else:
        n, m = g['mshape']
        i, j = r + n // 2, c + m // 2
        if not (0 <= i < n and 0 <= j < m):
            return 0j
        mval = sum(1 for s in g['segs'] if s[i][j])
    return a * ph * mval


def chain_boxes(c):
    """extent bookkeeping of the chain by plain box arithmetic: the extents of the fields a wavefront holds after
    the chain ('const' = the 0-d plane wave), whether single-sample fields/phasors occur (a statistic), and the
    two input classes outside the property's domain (a mask that is nowhere set; attribute shapes that differ)"""
    info = {'single_sample': False, 'one_layer_cube': False, 'zero_mask': False, 'shape_mismatch': False}
    fields = ['const']
    for pl in c['planes']:
        g = plane_geom(pl)
        arrs = attr_arrays(pl)
        if g['segs'] is None:
            if len(set(arrs)) > 1:
                info['shape_mismatch'] = True
            if arrs:
                n, m = arrs[0]
                phs = [(-(n // 2), -(n // 2) + n - 1, -(m // 2), -(m // 2) + m - 1)]
            else:
                phs = ['const']
        else:
            n, m = g['mshape']
            if any(a != (n, m) for a in arrs):
                info['shape_mismatch'] = True
            if g['cube'] and len(g['segs']) == 1:
                info['one_layer_cube'] = True
            phs = []
            for s in g['segs']:
                b = bbox(s)
                if b is None:
                    info['zero_mask'] = True
                    continue
                phs.append((b[0] - n // 2, b[1] - n // 2, b[2] - m // 2, b[3] - m // 2))
        new = []
        for f in fields:
            for p in phs:
                for x in (f, p):
                    if x != 'const' and x[0] == x[1] and x[2] == x[3]:
                        info['single_sample'] = True
                if f == 'const' and p == 'const':
                    new.append('const')
                elif f == 'const':
                    new.append(p)
                elif p == 'const':
                    new.append(f)
                else:
                    q = (max(f[0], p[0]), min(f[1], p[1]), max(f[2], p[2]), min(f[3], p[3]))
                    if q[0] <= q[1] and q[2] <= q[3]:
                        new.append(q)
        fields = new
    info['fields'] = fields
    return info


# ------------------------------------------------------------------ generation
GAUSS = [[1, 0], [2, 0], [1, 1], [0, 1], [-1, 0], [3, -2], [0, -2], [2, 1]]


def rnd_gauss(rng, zero_p=0.0):
    if rng.random() < zero_p:
        return [0, 0]
    while True:
        v = [rng.randint(-3, 3), rng.randint(-3, 3)]
        if v != [0, 0]:
            return v


def rnd_support(rng, n, m, fill):
    while True:
        s = [[rng.random() < fill for _ in range(m)] for _ in range(n)]
        if sum(map(sum, s)) >= 1:
            return s


def rnd_pix(rng):
    t = rng.random()
    if t < 0.35:
        return None
    if t < 0.7:
        return [rng.choice(['1/2', '1', '1/4', '3/8'])]
    return [rng.choice(['1/2', '1', '1/4']), rng.choice(['1/2', '1', '1/4'])]


def rnd_plane(rng, L, maxn):
    n, m = rng.randint(1 if rng.random() < 0.1 else 2, maxn), rng.randint(1 if rng.random() < 0.1 else 2, maxn)
    amp_arr, opd_arr = rng.random() < 0.55, rng.random() < 0.5
    mk = rng.choice(['none', 'none', 'scalar', '2d', '2d', 'cube', 'cube', 'cube'])
    pl = {'kind': 'Plane', 'pix': None, 'focal': None, 'tilt': []}
    support = rnd_support(rng, n, m, rng.choice([0.4, 0.7, 0.9]))
    if amp_arr:
        zp = 0.3 if mk == 'none' else 0.1
        a = [[rnd_gauss(rng, zp) for _ in range(m)] for _ in range(n)]
        if mk == 'none' and sum(is_nz(v) for row in a for v in row) < 1:
            a[n - 1][m - 1] = [2, 1]
        pl['amp'] = {'a': a}
    else:
        pl['amp'] = {'s': rng.choice(GAUSS)}
    if L == 1:
        pl['opd'] = {'a': [[0] * m for _ in range(n)]} if (opd_arr and rng.random() < 0.5) else {'s': 0}
    elif opd_arr:
        pl['opd'] = {'a': [[rng.randint(-L, 2 * L) for _ in range(m)] for _ in range(n)]}
    else:
        pl['opd'] = {'s': rng.randint(-L, 2 * L)}
    if mk == 'none':
        pl['mask'] = None
    elif mk == 'scalar':
        pl['mask'] = {'s': [rng.choice([1, 1, 2, -1, 0]), 0]}
    elif mk == '2d':
        vals = [1, 1, 1, 2, -3]
        pl['mask'] = {'a': [[[rng.choice(vals) if support[i][j] else 0, 0] for j in range(m)] for i in range(n)]}
    else:
        k = rng.choice([1, 2, 2, 3, 3, 4])       # one layer: a segmented plane with a single segment
        for _ in range(50):
            lab = [[rng.randrange(k) if support[i][j] else -1 for j in range(m)] for i in range(n)]
            layers = [[[[1 if lab[i][j] == q else 0, 0] for j in range(m)] for i in range(n)] for q in range(k)]
            bbs = [bbox([[v[0] != 0 for v in row] for row in ly]) for ly in layers]
            if all(b is not None for b in bbs):             # single-sample segments are welcome
                break
        else:
            layers = [[[[1, 0] for j in range(m)] for i in range(n)]]
        if rng.random() < 0.2:
            # segments may overlap (the transmission is then the multiplicity): doubly covered samples make the
            # fields of one wavefront overlap with non-zero values
            for _ in range(rng.randint(1, 3)):
                i, j = rng.randrange(n), rng.randrange(m)
                if support[i][j]:
                    layers[rng.randrange(len(layers))][i][j] = [1, 0]
        pl['mask'] = {'c': layers}
        if rng.random() < 0.4:
            kk = len(layers)
            pl['tilt'] = [[str(Fraction(rng.randint(-4, 4), 8)), str(Fraction(rng.randint(-4, 4), 8))]
                          for _ in range(kk * rng.randint(1, 2))]
    pl['mdtype'] = rng.choice(['float', 'float', 'int', 'bool', 'uint8'])
    if mk != 'cube' and rng.random() < 0.15:
        pl['tilt'] = [[str(Fraction(rng.randint(-4, 4), 8)), str(Fraction(rng.randint(-4, 4), 8))]
                      for _ in range(rng.randint(1, 2))]
    return pl, (n, m)


def tilt_plane(x, y, amp=None, opd=0, assign=False):
    """lentil.Tilt(x, y, amplitude=, opd=): a mask-less plane (default: amplitude 1, opd 0) that appends itself to every
    field's tilt list; scalar amplitude / opd are legal Plane kwargs and settable attributes (assign=True)"""
    return {'kind': 'Tilt', 'x': x, 'y': y, 'amp': {'s': amp or [1, 0]}, 'opd': {'s': opd}, 'mask': None, 'pix': None,
            'focal': None, 'tilt': [], 'assign': assign}


def rnd_case(rng, maxn):
    L = rng.choice([1, 1, 1, 2, 3, 4, 5, 6, 8, 12])
    nplanes = rng.choice([1, 2, 2, 3, 3])
    planes = []
    shape = None
    for k in range(nplanes):
        for _ in range(20):
            pl, sh = rnd_plane(rng, L, maxn)
            if shape is None or rng.random() < 0.25 or sh == shape:
                break
        # reuse the first array plane's shape most of the time so that fields overlap
        if shape is None and plane_geom(pl)['mshape'] is not None:
            shape = plane_geom(pl)['mshape']
        planes.append(pl)
    # classes: Plane* Pupil*
    first_pupil = rng.randint(0, nplanes)
    for k, pl in enumerate(planes):
        if k >= first_pupil:
            pl['kind'] = 'Pupil'
            pl['focal'] = rng.choice([None, '2', '1/2', '10', '0'])
    c = {'op': 'chain', 'L': L, 'lam': str(LAM), 'wpix': rnd_pix(rng),
         'wfocal': rng.choice([None, None, '3', '0']), 'wtilt': None, 'planes': planes, 'insert': None}
    if rng.random() < 0.3:
        c['wtilt'] = [str(Fraction(rng.randint(-4, 4), 8)), str(Fraction(rng.randint(-4, 4), 8))]
    # lentil.Tilt planes anywhere in the chain (before and after segmented planes)
    for _ in range(rng.choice([0, 0, 1, 1, 2])):
        nd = rng.random() < 0.5
        planes.insert(rng.randint(0, len(planes)),
                      tilt_plane(str(Fraction(rng.randint(-4, 4), 8)), str(Fraction(rng.randint(-4, 4), 8)),
                                 amp=rng.choice(GAUSS) if nd and rng.random() < 0.7 else None,
                                 opd=rng.randint(1, 2 * L) if nd and L > 1 and rng.random() < 0.7 else 0,
                                 assign=rng.random() < 0.4))
    # pixel scales: mostly consistent, sometimes refused
    base = rnd_pix(rng)
    for pl in planes:
        t = rng.random()
        if t < 0.5 or pl['kind'] == 'Tilt':
            pl['pix'] = None
        elif t < 0.93:
            pl['pix'] = c['wpix'] if (c['wpix'] is not None and rng.random() < 0.7) else base
        else:
            pl['pix'] = rnd_pix(rng)
    if rng.random() < 0.75:
        R, Cc = rng.randint(1, maxn + 2), rng.randint(1, maxn + 2)
        if shape is not None and rng.random() < 0.4:
            R, Cc = shape
        c['insert'] = {'out': [[rng.randint(-3, 5) for _ in range(Cc)] for _ in range(R)],
                       'w': str(rng.choice([1, 1, 2, Fraction(1, 2), Fraction(3, 4), -1, 0, Fraction(5, 2)]))}
    # array attributes as ndarray subclasses holding the same samples; amplitudes 2^-30 .. 2^-43 times smaller (exact)
    if rng.random() < 0.3:
        form = rng.choice(SUBFORMS)
        for pl in planes:
            if pl['kind'] != 'Tilt':
                pl['aform'] = form
    # the three spellings of one multiplication: wavefront * plane, plane * wavefront (Wavefront.__rmul__), plane.multiply
    c['callform'] = rng.choice(['w*p', 'w*p', 'p*w', 'multiply', 'mixed', 'w*=p', 'w*=p'])
    if rng.random() < 0.15:
        for pl in planes:
            if pl['kind'] != 'Tilt':
                pl['ascale'] = rng.choice([30, 33, 37, 40, 43])
        if c['insert'] is not None:      # a tiny contribution added to O(1) prior content is lost in float
            c['insert']['out'] = [[0 for _ in row] for row in c['insert']['out']]
    return c


def rnd_views(rng):
    k = rng.randint(1, 4)
    fs = []
    for _ in range(k):
        n, m = rng.randint(1, 4), rng.randint(1, 4)
        fs.append({'data': [[[rng.randint(-3, 3), rng.randint(-3, 3)] for _ in range(m)] for _ in range(n)],
                   'off': [rng.randint(-3, 3), rng.randint(-3, 3)], 'form': rng.choice(['list', 'tuple', 'ndarray'])})
    R, Cc = rng.randint(1, 7), rng.randint(1, 7)
    return {'op': 'views', 'L': 1, 'shape': [rng.randint(1, 6), rng.randint(1, 6)], 'fs': fs,
            'insert': {'out': [[rng.randint(-3, 5) for _ in range(Cc)] for _ in range(R)],
                       'w': str(rng.choice([1, 2, Fraction(1, 2), Fraction(3, 4), -1, 0, Fraction(5, 2)]))}}


def rnd_bridge(rng):
    """k >= 3 fields: outer fields with pairwise disjoint extents and one field that bridges them all, listed in a
    random order (bridging field last in half of the cases): reduce() must end with ONE group"""
    k = rng.randint(3, 5)
    horiz = rng.random() < 0.5
    outers = []
    pos = -rng.randint(4, 7)
    for _ in range(k - 1):
        a, b = rng.randint(1, 3), rng.randint(1, 3)          # extent along / across the chain
        across = rng.randint(-1, 1)
        lo = pos
        pos += a + rng.randint(0, 2)                           # next outer field starts after a gap >= 0
        outers.append((lo, a, across, b))
    span_lo, span_hi = outers[0][0], outers[-1][0] + outers[-1][1] - 1
    fs = []
    for lo, a, across, b in outers:
        n, m = (b, a) if horiz else (a, b)
        off_along = lo + a // 2
        off = [across, off_along] if horiz else [off_along, across]
        fs.append({'data': [[P7_gauss(rng) for _ in range(m)] for _ in range(n)], 'off': off})
    # the bridge covers [span_lo, span_hi] along the chain and rows/cols -1..1 across
    L = span_hi - span_lo + 1
    bw = rng.randint(1, 3)
    n, m = (bw, L) if horiz else (L, bw)
    off_along = span_lo + L // 2
    across = rng.randint(-1, 1) if bw > 1 else rng.choice([o[2] - (o[3] // 2) + rng.randrange(o[3]) for o in outers[:1]])
    bridge = {'data': [[P7_gauss(rng) for _ in range(m)] for _ in range(n)],
              'off': [across, off_along] if horiz else [off_along, across]}
    order = rng.random()
    if order < 0.5:
        fs.append(bridge)
    else:
        fs.insert(rng.randrange(len(fs) + 1), bridge)
        if rng.random() < 0.5:
            rng.shuffle(fs)
    ext_lo = span_lo - 1
    size = span_hi - span_lo + 3
    shape = [rng.randint(3, 6), size + rng.randint(0, 2)] if horiz else [size + rng.randint(0, 2), rng.randint(3, 6)]
    R, Cc = shape[0] + rng.randint(-1, 1), shape[1] + rng.randint(-1, 1)
    return {'op': 'views', 'L': 1, 'shape': shape, 'fs': fs,
            'insert': {'out': [[rng.randint(-3, 5) for _ in range(max(1, Cc))] for _ in range(max(1, R))],
                       'w': str(rng.choice([1, 2, Fraction(1, 2), Fraction(3, 4), -1, Fraction(5, 2)]))}}


def P7_gauss(rng):
    return rnd_gauss(rng, 0.0)


def explicit_mask(pl):
    """the mask the constructor stores, as an explicit argument (a mask derived from the amplitude does not follow
    later amplitude updates)"""
    if pl['mask'] is not None:
        return pl['mask']
    if 'a' in pl['amp']:
        return {'a': [[[1 if is_nz(v) else 0, 0] for v in row] for row in pl['amp']['a']]}
    return {'s': [1 if is_nz(pl['amp']['s']) else 0, 0]}


def mask_edit(rng, mk):
    """an in-place change of a mask array that keeps every bounding slice (Plane._slice is computed once)"""
    import copy
    if 's' in mk:
        return None
    layers = [mk['a']] if 'a' in mk else mk['c']
    for _ in range(20):
        new = copy.deepcopy(layers)
        q = rng.randrange(len(new))
        i, j = rng.randrange(len(new[q])), rng.randrange(len(new[q][0]))
        new[q][i][j] = [0, 0] if is_nz(new[q][i][j]) else [1, 0]
        same = all(bbox([[is_nz(v) for v in row] for row in a]) == bbox([[is_nz(v) for v in row] for row in b])
                   for a, b in zip(layers, new))
        if same and all(bbox([[is_nz(v) for v in row] for row in b]) is not None for b in new):
            return ({'a': new[0]} if 'a' in mk else {'c': new}), (q, i, j)
    return None


def rnd_phist(rng, maxn):
    """2-4 multiplies on ONE plane object with attribute updates (setter and in place) and repeated / different
    wavelengths in between"""
    import copy
    L = rng.choice([1, 1, 2, 3, 4, 6, 8])
    for _ in range(50):
        pl, _sh = rnd_plane(rng, L, maxn)
        info = chain_boxes({'planes': [pl]})
        if not (info['shape_mismatch'] or info['zero_mask']):
            break
    pl['kind'] = rng.choice(['Plane', 'Pupil'])
    if rng.random() < 0.25:
        pl['aform'] = rng.choice(SUBFORMS)
    pl['focal'] = rng.choice([None, '2']) if pl['kind'] == 'Pupil' else None
    pl['pix'] = None
    cur = copy.deepcopy(pl)
    cur_mask = explicit_mask(pl)
    acts = []
    nmul = 0
    target = rng.randint(2, 4)
    while nmul < target:
        u = rng.random()
        if u < 0.45 or not acts:
            m = rng.choice([1, 1, 1, 2, 4])
            acts.append({'a': 'mul', 'm': m, 'src': rng.choice(['fresh', 'same', 'same', 'last'])})
            nmul += 1
        elif u < 0.72:
            amp = cur['amp']
            if 'a' in amp and rng.random() < 0.6:
                new = copy.deepcopy(amp['a'])
                cplx = any(v[1] != 0 for row in new for v in row)
                edits = []
                for _ in range(rng.randint(1, 3)):
                    i, j = rng.randrange(len(new)), rng.randrange(len(new[0]))
                    new[i][j] = [rng.randint(-3, 3), rng.randint(-3, 3) if cplx else 0]
                    edits.append([i, j])
                how = rng.choice(['inplace', 'setter'])
                acts.append({'a': 'amp', 'v': {'a': new}, 'how': how, 'edits': edits})
            elif 'a' in amp:
                acts.append({'a': 'amp', 'v': {'a': [[rnd_gauss(rng, 0.1) for _ in row] for row in amp['a']]}, 'how': 'setter'})
            else:
                acts.append({'a': 'amp', 'v': {'s': rng.choice(GAUSS)}, 'how': 'setter'})
            cur['amp'] = acts[-1]['v']
        elif u < 0.9:
            opd = cur['opd']
            if L == 1:
                continue
            if 'a' in opd:
                new = copy.deepcopy(opd['a'])
                edits = []
                for _ in range(rng.randint(1, 3)):
                    i, j = rng.randrange(len(new)), rng.randrange(len(new[0]))
                    new[i][j] = rng.randint(-L, 2 * L)
                    edits.append([i, j])
                acts.append({'a': 'opd', 'v': {'a': new}, 'how': rng.choice(['inplace', 'setter']), 'edits': edits})
            else:
                acts.append({'a': 'opd', 'v': {'s': rng.randint(-L, 2 * L)}, 'how': 'setter'})
            cur['opd'] = acts[-1]['v']
        else:
            e = mask_edit(rng, cur_mask)
            if e is None:
                continue
            cur_mask = e[0]
            acts.append({'a': 'mask', 'v': cur_mask, 'at': list(e[1])})
    return {'op': 'phist', 'L': L, 'lam': str(LAM), 'plane': pl, 'acts': acts}


def near(rng, a):
    """a float close to a: relative 1e-3 .. 1e-17, absolute 1e-8 .. 1e-20, a factor 2, or a itself"""
    t = rng.random()
    if t < 0.15:
        return a
    if t < 0.6:
        return a * (1 + rng.choice([1, -1]) * 10.0 ** (-rng.choice([3, 4, 6, 9, 12, 15, 16, 17])))
    if t < 0.9:
        return a + rng.choice([1, -1]) * 10.0 ** (-rng.choice([8, 9, 10, 12, 15, 18, 20]))
    return a * rng.choice([2, 0.5, 9])


def rnd_pixchain(rng):
    """pixel scales that differ a little (relative and absolute, scalar and per-axis with one axis equal) at the
    scales 1, 1e-3, 5e-6, 4e-9: refused exactly when unequal as floats"""
    a = rng.choice([1.0, 1e-3, 5e-6, 4e-9, 0.25])
    b = a if rng.random() < 0.6 else rng.choice([1.0, 1e-3, 5e-6, 4e-9]) * rng.choice([1, 2])
    def form(x, y):
        return [repr(x)] if (x == y and rng.random() < 0.5) else [repr(x), repr(y)]
    w = form(a, b)
    planes = []
    for _ in range(rng.choice([1, 1, 2])):
        t = rng.random()
        if t < 0.35:
            px, py = near(rng, a), near(rng, b) if a != b else None
            if py is None:
                py = px if rng.random() < 0.6 else near(rng, a)
        elif t < 0.7:
            px, py = (a, near(rng, b)) if rng.random() < 0.5 else (near(rng, a), b)      # one axis equal
        else:
            px, py = a, b
        n = rng.randint(2, 3)
        pl = {'kind': 'Plane', 'amp': {'a': [[rnd_gauss(rng) for _ in range(n)] for _ in range(n)]}, 'opd': {'s': 0},
              'mask': None, 'pix': form(px, py), 'focal': None, 'tilt': [], 'mdtype': 'float'}
        planes.append(pl)
    c = {'op': 'chain', 'L': 1, 'lam': str(LAM), 'wpix': w if rng.random() < 0.7 else None, 'wfocal': None, 'wtilt': None,
         'planes': planes, 'insert': None}
    return c


def rnd_ctor(rng):
    """Plane(...) / Pupil(...) looked at right after construction: both spellings of the amplitude keyword (and both at
    once), masks of rank 0/2/3/4, masks without a set sample, and the attributes amplitude/opd/mask/shape/size/
    global_mask/pixelscale/focal_length"""
    pl, (n, m) = rnd_plane(rng, 1, 5)
    pl['tilt'] = []
    pl['pix'] = rnd_pix(rng)
    if rng.random() < 0.4:
        pl['kind'] = 'Pupil'
        pl['focal'] = rng.choice([None, '2', '1/2', '0'])
    if rng.random() < 0.3:
        pl['opd'] = ({'a': [[rng.randint(-3, 5) for _ in range(m)] for _ in range(n)]} if rng.random() < 0.6
                     else {'s': rng.randint(-3, 5)})
    c = {'op': 'ctor', 'L': 1, 'lam': str(LAM), 'plane': pl, 'alias': None, 'given': 'kw'}
    t = rng.random()
    if t < 0.45:
        # amp= next to amplitude (omitted, 1 in several spellings, a 1x1 array, another scalar, a larger array)
        c['alias'] = pl['amp']
        u = rng.random()
        if u < 0.25:
            pl['amp'], c['given'] = {'s': [1, 0]}, 'omit'
        elif u < 0.45:
            pl['amp'], c['given'] = {'s': [1, 0]}, rng.choice(['int', 'float', 'np', 'bool', '0d'])
        elif u < 0.6:
            pl['amp'] = {'a': [[[rng.choice([1, 1, 2, 0]), 0]]]}
        elif u < 0.85:
            pl['amp'] = {'s': rng.choice([[2, 0], [0, 0], [-1, 0], [1, 1], [3, -2]])}
        else:
            pl['amp'] = {'a': [[rnd_gauss(rng) for _ in range(m)] for _ in range(n)]}
    elif t < 0.55:
        pl['mask'] = {'r4': [rng.randint(1, 2), rng.randint(1, 2), n, m]}
    elif t < 0.7:
        # no set sample: an all-zero 2-d mask, a cube with an empty layer, or no mask and an all-zero amplitude
        u = rng.random()
        if u < 0.4:
            pl['mask'] = {'a': [[[0, 0] for _ in range(m)] for _ in range(n)]}
        elif u < 0.75:
            full = [[[1, 0] for _ in range(m)] for _ in range(n)]
            empty = [[[0, 0] for _ in range(m)] for _ in range(n)]
            ly = [full, empty] if rng.random() < 0.5 else [empty, full, full]
            pl['mask'] = {'c': ly}
        else:
            pl['mask'] = None
            pl['amp'] = {'a': [[[0, 0] for _ in range(m)] for _ in range(n)]}
    if rng.random() < 0.25:
        pl['aform'] = rng.choice(SUBFORMS)
    return c


def rnd_blocked(rng):
    """two stops whose openings do not meet leave a wavefront without fields; it is still a wavefront: the next plane's
    pixel scale is checked, a pupil hands over its focal length, the shape follows the plane - in every call spelling"""
    n, m = rng.randint(4, 7), rng.randint(4, 7)
    def stop(r0, r1, c0, c1):
        a = [[[1, 0] if (r0 <= i < r1 and c0 <= j < c1) else [0, 0] for j in range(m)] for i in range(n)]
        return {'kind': 'Plane', 'amp': {'a': a}, 'opd': {'s': 0}, 'mask': None, 'pix': ['1/2'], 'focal': None, 'tilt': [],
                'mdtype': 'float'}
    planes = [stop(0, 2, 0, 2), stop(n - 2, n, m - 2, m)]
    kind = rng.choice(['pupil', 'pupil', 'badpix', 'plane'])
    last = {'kind': 'Pupil' if kind == 'pupil' else 'Plane',
            'amp': {'a': [[rnd_gauss(rng) for _ in range(m)] for _ in range(n)]} if rng.random() < 0.6 else {'s': [2, 0]},
            'opd': {'s': 0}, 'mask': None, 'pix': ['1/4'] if kind == 'badpix' else rng.choice([None, ['1/2']]),
            'focal': rng.choice(['2', '1/2', '10']) if kind == 'pupil' else None, 'tilt': [], 'mdtype': 'float'}
    if 'a' in last['amp'] and not any(is_nz(v) for row in last['amp']['a'] for v in row):
        last['amp']['a'][0][0] = [1, 0]
    planes.append(last)
    if rng.random() < 0.4:
        planes.append(dict(last, amp={'s': [1, 1]}, pix=None))
    return {'op': 'chain', 'L': 1, 'lam': str(LAM), 'wpix': rng.choice([None, ['1/2']]), 'wfocal': None, 'wtilt': None,
            'planes': planes, 'insert': {'out': [[1] * m for _ in range(n)], 'w': '2'} if rng.random() < 0.5 else None,
            'callform': rng.choice(['w*p', 'p*w', 'multiply', 'w*=p', 'mixed'])}


def rnd_wctor(rng):
    """Wavefront(wavelength, pixelscale, focal_length, tilt=...) with tilt arguments of 0..4 entries in several forms"""
    k = rng.choice([None, 0, 1, 2, 2, 2, 3, 4])
    tilt = None if k is None else [str(Fraction(rng.randint(-6, 6), 8)) for _ in range(k)]
    return {'op': 'wctor', 'L': 1, 'lam': str(LAM * rng.choice([1, 2, 3])), 'wpix': rnd_pix(rng),
            'wfocal': rng.choice([None, None, '3', '0', '1/2']), 'tilt': tilt,
            'tform': rng.choice(['list', 'tuple', 'ndarray'])}


def generate(rng, tier):
    for _ in range(40 if tier == 'quick' else 500):
        yield rnd_ctor(rng)
    for _ in range(16 if tier == 'quick' else 200):
        yield rnd_wctor(rng)
    for _ in range(12 if tier == 'quick' else 150):
        yield rnd_blocked(rng)
    for _ in range(60 if tier == 'quick' else 600):
        yield rnd_pixchain(rng)
    for _ in range(40 if tier == 'quick' else 500):
        yield rnd_views(rng)
    for _ in range(60 if tier == 'quick' else 800):
        yield rnd_phist(rng, 5 if tier == 'quick' else 7)
    for _ in range(40 if tier == 'quick' else 500):
        yield rnd_bridge(rng)
    n = 170 if tier == 'quick' else 3000
    maxn = 6 if tier == 'quick' else 8
    out = 0
    while out < n:
        c = rnd_case(rng, maxn)
        info = chain_boxes(c)
        if info['shape_mismatch'] or info['zero_mask']:
            continue
        out += 1
        yield c


def bridge_kind(c):
    """does some field bridge two earlier, mutually disjoint fields?"""
    def ext(f):
        n, m = len(f['data']), len(f['data'][0])
        r0, c0 = -(n // 2) + f['off'][0], -(m // 2) + f['off'][1]
        return r0, r0 + n - 1, c0, c0 + m - 1

    def meet(a, b):
        return a[0] <= b[1] and b[0] <= a[1] and a[2] <= b[3] and b[2] <= a[3]
    es = [ext(f) for f in c['fs']]
    for k in range(2, len(es)):
        for i in range(k):
            for j in range(i + 1, k):
                if not meet(es[i], es[j]) and meet(es[k], es[i]) and meet(es[k], es[j]):
                    return 'late-bridge'
    return 'plain'


def classify(c):
    if c['op'] == 'ctor':
        pl = c['plane']
        mk = pl['mask']
        return ('ctor/' + ('alias-' + c['given'] + '-' + ('A' if 'a' in pl['amp'] else 'a') if c['alias'] is not None else 'plain')
                + '/' + ('none' if mk is None else 's' if 's' in mk else '2d' if 'a' in mk else 'cube' if 'c' in mk else 'rank4'))
    if c['op'] == 'wctor':
        return f'wctor/{"none" if c["tilt"] is None else len(c["tilt"])}/{c["tform"]}'
    if c['op'] == 'phist':
        return 'phist/' + '-'.join(a['a'] if a['a'] != 'mul' else f'mul{a["m"]}{a["src"][0]}' for a in c['acts'])
    if c['op'] == 'views':
        return f'views/{len(c["fs"])}/' + bridge_kind(c)
    kinds = []
    for pl in c['planes']:
        g = plane_geom(pl)
        kinds.append(('A' if 'a' in pl['amp'] else 'a') + ('O' if 'a' in pl['opd'] else 'o')
                     + ('M' if g['segs'] is not None else 'm') + ('3' if g['cube'] else ''))
    return f'L{"1" if c["L"] == 1 else ">1"}/' + '-'.join(kinds) + ('/1px' if chain_boxes(c)['single_sample'] else '')


def nontrivial(c):
    if c['op'] in ('phist', 'ctor', 'wctor'):
        return True
    if c['op'] == 'views':
        return len(c['fs']) > 1
    arr = any(('a' in pl['amp']) or ('a' in pl['opd']) or plane_geom(pl)['segs'] is not None for pl in c['planes'])
    return arr and (len(c['planes']) > 1 or any(plane_geom(pl)['cube'] for pl in c['planes']))


# ------------------------------------------------------------------ model side
def enc_pix(p):
    if p is None:
        return [0]
    if len(p) == 1:
        return [1] + C.enc_q(float(F(p[0])))
    return [2] + C.enc_q(float(F(p[0]))) + C.enc_q(float(F(p[1])))


def enc_carr(a):
    out = [len(a), len(a[0])]
    for row in a:
        for v in row:
            out += C.enc_c((F(v[0]), F(v[1])))
    return out


def enc_tilts(ts):
    # lentil.Tilt(x=a, y=b) stores self.x = b, self.y = a; the model carries the stored attributes
    out = [len(ts)]
    for a, b in ts:
        out += [0] + C.enc_q(float(F(b))) + C.enc_q(float(F(a)))
    return out


def enc_amp(amp):
    return ([2] + enc_carr(amp['a'])) if 'a' in amp else ([0] + C.enc_c((F(amp['s'][0]), F(amp['s'][1]))))


def enc_opd(opd, L, lam):
    if 'a' in opd:
        o = opd['a']
        out = [2, len(o), len(o[0])]
        for row in o:
            for k in row:
                out += C.enc_q(F(k) * lam / L)
        return out
    return [0] + C.enc_q(F(opd['s']) * lam / L)


def enc_mask(mk):
    if mk is None:
        return [0]
    if 'r4' in mk:
        return [4]
    if 's' in mk:
        return [1] + C.enc_c((F(mk['s'][0]), F(mk['s'][1])))
    if 'a' in mk:
        return [2] + enc_carr(mk['a'])
    ly = mk['c']
    out = [3, len(ly[0]), len(ly[0][0]), len(ly)]
    for a in ly:
        out += enc_carr(a)
    return out


def enc_plane(pl, L, lam):
    if pl['kind'] == 'Tilt' and pl['mask'] is not None:
        # a tilt-type plane with Plane kwargs (mask): stored attributes self.x, self.y, then the plane itself
        return ([3] + C.enc_q(float(F(pl['y']))) + C.enc_q(float(F(pl['x'])))
                + enc_amp(pl['amp']) + enc_opd(pl['opd'], L, lam) + enc_mask(pl['mask']) + enc_pix(None)
                + C.enc_opt(None, None) + enc_tilts([]))
    if pl['kind'] == 'Tilt':
        # lentil.Tilt(x=a, y=b) stores self.x = b, self.y = a; the model carries the stored attributes
        return ([2] + C.enc_q(float(F(pl['y']))) + C.enc_q(float(F(pl['x'])))
                + C.enc_c((F(pl['amp']['s'][0]), F(pl['amp']['s'][1]))) + C.enc_q(F(pl['opd']['s']) * lam / L))
    out = [0 if pl['kind'] == 'Plane' else 1]
    amp, opd, mk = pl['amp'], pl['opd'], pl['mask']
    out += enc_amp(amp) + enc_opd(opd, L, lam) + enc_mask(mk)
    out += enc_pix(pl['pix'])
    out += C.enc_opt(pl['focal'] if pl['kind'] == 'Pupil' else None, lambda f: C.enc_q(float(F(f))))
    out += enc_tilts(pl['tilt'])
    return out


def encode_phist(c):
    L, lam = c['L'], F(c['lam'])
    out = [5, L] + enc_plane(c['plane'], L, lam)
    out += [len(c['acts'])]
    for a in c['acts']:
        if a['a'] == 'mul':
            out += [0] + C.enc_q(lam / a['m']) + [1 if a['src'] == 'last' else 0]
        elif a['a'] == 'amp':
            out += [1] + enc_amp(a['v'])
        elif a['a'] == 'opd':
            out += [2] + enc_opd(a['v'], L, lam)
        else:
            out += [3] + enc_mask(a['v'])
    return out


def encode(c):
    if c['op'] == 'phist':
        return encode_phist(c)
    if c['op'] == 'ctor':
        pl, lam = c['plane'], F(c['lam'])
        out = [6, 1, 0 if pl['kind'] == 'Plane' else 1] + enc_amp(pl['amp'])
        out += C.enc_opt(c['alias'], enc_amp)
        out += enc_opd(pl['opd'], 1, lam) + enc_mask(pl['mask']) + enc_pix(pl['pix'])
        out += C.enc_opt(pl['focal'] if pl['kind'] == 'Pupil' else None, lambda f: C.enc_q(float(F(f))))
        return out
    if c['op'] == 'wctor':
        out = [7, 1] + C.enc_q(F(c['lam'])) + enc_pix(c['wpix']) + C.enc_opt(c['wfocal'], lambda f: C.enc_q(float(F(f))))
        return out + C.enc_opt(c['tilt'], lambda t: [len(t)] + [x for q in t for x in C.enc_q(float(F(q)))])
    if c['op'] == 'views':
        out = [3, 1] + list(c['shape']) + [len(c['fs'])]
        for f in c['fs']:
            out += [2] + enc_carr(f['data']) + list(f['off']) + [0]
        ins = c['insert']
        return out + enc_carr([[[v, 0] for v in row] for row in ins['out']]) + C.enc_c((F(ins['w']), 0))
    L = c['L']
    lam = F(c['lam'])
    out = [1, L] + C.enc_q(lam) + enc_pix(c['wpix']) + C.enc_opt(c['wfocal'], lambda f: C.enc_q(float(F(f))))
    out += enc_tilts([c['wtilt']] if c['wtilt'] else [])
    out += [len(c['planes'])]
    for pl in c['planes']:
        out += enc_plane(pl, L, lam)
    ins = c['insert']
    if ins is None:
        out += [0]
    else:
        out += [1] + enc_carr([[[v, 0] for v in row] for row in ins['out']]) + C.enc_c((F(ins['w']), 0))
    return out


def read_fdata(rd, L):
    st = rd.z()
    if st == 1:
        return {'err': C.ERRNAMES[rd.z()]}
    tag = rd.z()
    if tag == 0:
        return {'v': C.kval(rd.k(), L)}
    a = rd.arr()
    return {'arr': [[C.kval(v, L) for v in row] for row in a]}


def read_wf(rd, L):
    lam = rd.q()
    pix = rd.opt(lambda: [rd.q(), rd.q()])
    t = rd.z()
    focal = 'inf' if t == 0 else (None if t == 1 else rd.q())
    shape = rd.opt(lambda: [rd.z(), rd.z()])

    def fld():
        tag, a, b, orr, occ = rd.z(), rd.z(), rd.z(), rd.z(), rd.z()

        def tl():
            k = rd.z()
            if k == 0:
                return [rd.q(), rd.q()]
            return [rd.q() for _ in range(5)]
        return {'ext': [-(a // 2) + orr, -(a // 2) + orr + a - 1, -(b // 2) + occ, -(b // 2) + occ + b - 1],
                'tilt': rd.lst(tl)}
    fields = rd.lst(fld)
    fv = read_fdata(rd, L)
    iv = read_fdata(rd, L)
    return {'lam': lam, 'pix': pix, 'focal': focal, 'shape': shape, 'fields': fields, 'field': fv, 'intensity': iv}


def read_plane(rd, L):
    tag = rd.z()
    amp = {'v': C.kval(rd.k(), L)} if tag == 0 else {'arr': [[C.kval(v, L) for v in row] for row in rd.arr()]}

    def gb():
        n, m = rd.z(), rd.z()
        return [[rd.z() for _ in range(m)] for _ in range(n)]
    if rd.z() == 0:
        opd = {'v': rd.q()}
    else:
        n, m = rd.z(), rd.z()
        opd = {'arr': [[rd.q() for _ in range(m)] for _ in range(n)]}
    tag = rd.z()
    if tag == 0:
        mask = {'rank': 0, 'vals': rd.z()}
    elif tag == 2:
        mask = {'rank': 2, 'vals': gb()}
    else:
        n, m = rd.z(), rd.z()
        mask = {'rank': 3, 'vals': rd.lst(gb), 'dims': [n, m]}
    shape = rd.opt(lambda: [rd.z(), rd.z()])
    size = rd.z()
    if shape is None:
        gm = rd.z()
    else:
        gm = [[rd.z() for _ in range(shape[1])] for _ in range(shape[0])]
    pix = rd.opt(lambda: [rd.q(), rd.q()])

    def foc():
        t = rd.z()
        return 'inf' if t == 0 else (None if t == 1 else rd.q())
    focal = rd.opt(lambda: {'f': foc()})          # None: a plain Plane (no focal_length attribute)
    ntilt = rd.z()
    return {'amp': amp, 'opd': opd, 'mask': mask, 'shape': shape, 'size': size, 'gmask': gm, 'pix': pix,
            'focal': focal, 'ntilt': ntilt}


def decode(c, ints):
    L = c['L']
    rd = C.Reader(ints, L)
    st = rd.z()
    if c['op'] in ('ctor', 'wctor'):
        if st == 1:
            res = {'err': C.ERRNAMES[rd.z()]}
        else:
            res = read_plane(rd, L) if c['op'] == 'ctor' else read_wf(rd, L)
        assert rd.done()
        return res
    if c['op'] == 'phist':
        if st == 1:
            return {'err': C.ERRNAMES[rd.z()]}
        res = []
        for a in c['acts']:
            if a['a'] == 'mul':
                res.append(read_wf(rd, L) if rd.z() == 0 else {'err': C.ERRNAMES[rd.z()]})
        assert rd.done()
        return {'muls': res}
    assert st == 0
    if c['op'] == 'views':
        res = {'field': read_fdata(rd, L), 'intensity': read_fdata(rd, L)}
        if rd.z() == 1:
            res['insert'] = {'err': C.ERRNAMES[rd.z()]}
        else:
            res['insert'] = {'arr': [[C.kval(v, L) for v in row] for row in rd.arr()]}
        assert rd.done()
        return res
    n = rd.z()
    steps = [read_wf(rd, L) for _ in range(n + 1)]
    res = {'steps': steps, 'err': None, 'insert': None}
    if rd.z() == 1:
        res['err'] = {'step': n, 'err': C.ERRNAMES[rd.z()]}
    else:
        if rd.z() == 1:
            st = rd.z()
            if st == 1:
                res['insert'] = {'err': C.ERRNAMES[rd.z()]}
            else:
                a = rd.arr()
                res['insert'] = {'arr': [[C.kval(v, L) for v in row] for row in a]}
    assert rd.done()
    return res


# ------------------------------------------------------------------ implementation side
def np_carr(a):
    return np.array([[cnum(v) for v in row] for row in a], dtype=complex)


def np_attr(a):
    """complex data -> real array when every imaginary part vanishes (what a user would pass)"""
    z = np_carr(a)
    return z.real.copy() if np.all(z.imag == 0) else z


def mk_pix(p):
    if p is None:
        return None
    if len(p) == 1:
        return float(F(p[0]))
    return (float(F(p[0])), float(F(p[1])))


def np_mask(a, dt):
    """a mask array in one of the dtypes a caller may use (bool/int/uint8 only for 0/1 masks)"""
    z = np_attr(a)
    if dt in ('int', 'bool', 'uint8') and np.isrealobj(z) and np.all((z == 0) | (z == 1)):
        return z.astype({'int': int, 'bool': bool, 'uint8': np.uint8}[dt])
    return z


class MetaArr(np.ndarray):
    """an ndarray subclass that only carries metadata"""
    def __new__(cls, a, info='caller metadata'):
        obj = np.asarray(a).view(cls)
        obj.info = info
        return obj

    def __array_finalize__(self, obj):
        self.info = getattr(obj, 'info', None)


SUBFORMS = ['ma', 'ma_masked', 'matrix', 'meta', 'memmap']
_MEMMAPS = []


def subclass_form(a, form):
    """the array a handed over as an instance of an ndarray subclass with the SAME data (legal array_like input of
    the public API): the result must be the one for the plain ndarray"""
    a = np.asarray(a)
    if form is None or a.ndim == 0:
        return a
    if form == 'ma':
        return np.ma.MaskedArray(a.copy())
    if form == 'ma_masked':
        mask = np.fromfunction(lambda *ix: (sum(ix) % 2) == 0, a.shape)      # flags about half of the samples
        return np.ma.MaskedArray(a.copy(), mask=mask)
    if form == 'matrix':
        return np.matrix(a.copy()) if a.ndim == 2 else a
    if form == 'meta':
        return MetaArr(a.copy())
    if form == 'memmap':
        import tempfile
        f = tempfile.NamedTemporaryFile(prefix='lv-memmap-', suffix='.dat')
        _MEMMAPS.append(f)
        if len(_MEMMAPS) > 64:
            _MEMMAPS.pop(0).close()
        m = np.memmap(f.name, dtype=a.dtype, mode='w+', shape=a.shape)
        m[...] = a
        return m
    raise ValueError(form)


def plain(a):
    """the sample values of an array of any subclass (masked arrays: the underlying data)"""
    return np.array(np.ma.getdata(a), copy=True, subok=False)


def mk_plane(pl, L, lam, keep=None):
    """keep: a list that receives (name, object handed to lentil, copy of its values) for every array argument, so that
    the caller's memory can be compared afterwards"""
    lentil = C.import_lentil()
    if pl['kind'] == 'Tilt':
        kw = {}
        if pl['amp']['s'] != [1, 0]:            # a tilt-type plane is a Plane: scalar amplitude / opd are legal kwargs
            z = cnum(pl['amp']['s'])
            kw['amplitude'] = z.real if z.imag == 0 else z
        if pl['opd']['s'] != 0:
            kw['opd'] = float(F(pl['opd']['s']) * lam / L)
        mkw = {}
        if pl['mask'] is not None:
            mk = pl['mask']
            mkw['mask'] = (cnum(mk['s']).real if 's' in mk else np_mask(mk['a'], pl.get('mdtype', 'float')) if 'a' in mk
                           else np.array([np_mask(a, pl.get('mdtype', 'float')) for a in mk['c']]))
        if pl.get('assign'):
            t = lentil.Tilt(x=float(F(pl['x'])), y=float(F(pl['y'])), **mkw)
            for k, v in kw.items():
                setattr(t, k, v)
            return t
        return lentil.Tilt(x=float(F(pl['x'])), y=float(F(pl['y'])), **kw, **mkw)
    kw = {}
    form = pl.get('aform')
    fac = 2.0 ** (-pl['ascale']) if pl.get('ascale') else 1.0       # exact power-of-two scaling of the amplitude
    amp, opd, mk = pl['amp'], pl['opd'], pl['mask']
    if 'a' in amp:
        kw['amplitude'] = subclass_form(np_attr(amp['a']) * fac, form)
    else:
        z = cnum(amp['s']) * fac
        kw['amplitude'] = z.real if z.imag == 0 else z
    if 'a' in opd:
        kw['opd'] = subclass_form(np.array([[float(F(k) * lam / L) for k in row] for row in opd['a']], dtype=float), form)
    else:
        kw['opd'] = float(F(opd['s']) * lam / L)
    if mk is not None:
        if 's' in mk:
            kw['mask'] = cnum(mk['s']).real
        elif 'a' in mk:
            kw['mask'] = subclass_form(np_mask(mk['a'], pl.get('mdtype', 'float')), form)
        else:
            kw['mask'] = subclass_form(np.array([np_mask(a, pl.get('mdtype', 'float')) for a in mk['c']]),
                                       form if form != 'matrix' else None)
    if keep is not None:
        for name in ('amplitude', 'opd', 'mask'):
            if isinstance(kw.get(name), np.ndarray):
                keep.append((name, kw[name], plain(kw[name]),
                             None if not isinstance(kw[name], np.ma.MaskedArray) else np.array(np.ma.getmaskarray(kw[name]))))
    kw['pixelscale'] = mk_pix(pl['pix'])
    if pl['kind'] == 'Pupil':
        kw['focal_length'] = None if pl['focal'] is None else float(F(pl['focal']))
        p = lentil.Pupil(**kw)
    else:
        p = lentil.Plane(**kw)
    if pl['tilt']:
        p.tilt = [lentil.Tilt(x=float(F(a)), y=float(F(b))) for a, b in pl['tilt']]
    return p


def memory_changed(keep):
    """-> description of the first caller-owned array whose values (or mask flags) changed, else None"""
    for name, obj, vals, flags in keep:
        if not np.array_equal(plain(obj), vals):
            return f'the caller\'s {name} array was modified'
        if flags is not None and not np.array_equal(np.ma.getmaskarray(obj), flags):
            return f'the mask flags of the caller\'s {name} masked array were modified'
    return None


def view(fn):
    try:
        a = np.asarray(fn())
    except Exception as e:
        return {'err': type(e).__name__}
    if a.ndim == 0:
        return {'v': complex(a)}
    return {'arr': [[complex(v) for v in row] for row in a.tolist()]}


def observe(w):
    pix = None if w.pixelscale is None else [C.frac(float(w.pixelscale[0])), C.frac(float(w.pixelscale[1]))]
    fl = w.focal_length
    focal = None if fl is None else ('inf' if math.isinf(fl) else C.frac(float(fl)))
    shape = None if tuple(w.shape) == () else [int(w.shape[0]), int(w.shape[1])]
    fields = []
    for f in w.data:
        e = f.extent
        fields.append({'ext': [int(x) for x in e],
                       'tilt': [[C.frac(float(t.x)), C.frac(float(t.y))] for t in f.tilt]})
    return {'lam': C.frac(float(w.wavelength)), 'pix': pix, 'focal': focal, 'shape': shape, 'fields': fields,
            'field': view(lambda: w.field), 'intensity': view(lambda: w.intensity)}


def run_phist(c):
    lentil = C.import_lentil()
    L, lam = c['L'], F(c['lam'])
    keep = []
    try:
        p = mk_plane(c['plane'], L, lam, keep)
    except Exception as e:
        return {'err': type(e).__name__}
    form = c['plane'].get('aform')
    inputs = {}
    last = None
    res = []
    for a in c['acts']:
        if a['a'] == 'mul':
            m = a['m']
            if a['src'] == 'last' and last is not None:
                w = last
            elif a['src'] == 'same':
                w = inputs.setdefault(m, lentil.Wavefront(wavelength=float(lam / m)))
            else:
                w = lentil.Wavefront(wavelength=float(lam / m))
            try:
                last = w * p
                res.append(observe(last))
            except Exception as e:
                res.append({'err': type(e).__name__})
        elif a['a'] == 'amp':
            v = a['v']
            if a['how'] == 'inplace':
                for i, j in a['edits']:
                    p.amplitude[i, j] = cnum(v['a'][i][j]) if np.iscomplexobj(p.amplitude) else float(v['a'][i][j][0])
            elif 'a' in v:
                p.amplitude = subclass_form(np_attr(v['a']), form)
            else:
                z = cnum(v['s'])
                p.amplitude = z.real if z.imag == 0 else z
        elif a['a'] == 'opd':
            v = a['v']
            if a['how'] == 'inplace':
                for i, j in a['edits']:
                    p.opd[i, j] = float(F(v['a'][i][j]) * lam / L)
            elif 'a' in v:
                p.opd = subclass_form(np.array([[float(F(k) * lam / L) for k in row] for row in v['a']], dtype=float), form)
            else:
                p.opd = float(F(v['s']) * lam / L)
        else:
            q, i, j = a['at']
            layers = [a['v']['a']] if 'a' in a['v'] else a['v']['c']
            val = 1 if is_nz(layers[q][i][j]) else 0
            if p.mask.ndim == 3:
                p.mask[q, i, j] = val
            else:
                p.mask[i, j] = val
    return {'muls': res, 'inputs': {str(m): observe(w) for m, w in inputs.items()}}


def observe_plane(p):
    def arr_or_val(a):
        a = plain(a)
        if a.ndim == 0:
            return {'v': complex(a)}
        if a.ndim == 2:
            return {'arr': [[complex(v) for v in row] for row in a.tolist()]}
        return {'ndim': int(a.ndim)}
    mk = plain(p.mask)
    binary = bool(np.all((mk == 0) | (mk == 1)))
    nzm = (mk != 0).astype(int)
    gm = plain(p.global_mask)
    shape = tuple(p.shape)
    fl = getattr(p, 'focal_length', 'absent')
    return {'amp': arr_or_val(p.amplitude), 'opd': arr_or_val(p.opd),
            'mask': {'rank': int(mk.ndim), 'vals': nzm.tolist(), 'binary': binary},
            'shape': None if shape == () else [int(x) for x in shape], 'size': int(p.size),
            'gmask': gm.astype(complex).real.tolist(), 'gm_imag': bool(np.any(gm.astype(complex).imag != 0)),
            'pix': None if p.pixelscale is None else [C.frac(float(p.pixelscale[0])), C.frac(float(p.pixelscale[1]))],
            'focal': None if fl == 'absent' else {'f': None if fl is None else ('inf' if math.isinf(fl) else C.frac(float(fl)))},
            'ntilt': len(p.tilt)}


def amp_value(amp, form=None):
    if 'a' in amp:
        return subclass_form(np_attr(amp['a']), form)
    z = cnum(amp['s'])
    return z.real if z.imag == 0 else z


def run_ctor(c):
    lentil = C.import_lentil()
    pl, lam = c['plane'], F(c['lam'])
    form = pl.get('aform')
    kw, keep = {}, []
    if c['given'] != 'omit':
        if c['alias'] is not None and 's' in pl['amp'] and c['given'] != 'kw':
            kw['amplitude'] = {'int': 1, 'float': 1.0, 'np': np.float64(1.0), 'bool': True, '0d': np.array(1.0)}[c['given']]
        else:
            # next to amp= the amplitude argument is a plain ndarray (its comparison with 1 decides, not its class)
            kw['amplitude'] = amp_value(pl['amp'], None if c['alias'] is not None else form)
    if c['alias'] is not None:
        kw['amp'] = amp_value(c['alias'], form)
    opd, mk = pl['opd'], pl['mask']
    if 'a' in opd:
        kw['opd'] = subclass_form(np.array([[float(F(k) * lam) for k in row] for row in opd['a']], dtype=float), form)
    else:
        kw['opd'] = float(F(opd['s']) * lam)
    if mk is not None:
        if 's' in mk:
            kw['mask'] = cnum(mk['s']).real
        elif 'a' in mk:
            kw['mask'] = subclass_form(np_mask(mk['a'], pl.get('mdtype', 'float')), form)
        elif 'c' in mk:
            kw['mask'] = subclass_form(np.array([np_mask(a, pl.get('mdtype', 'float')) for a in mk['c']]),
                                       form if form != 'matrix' else None)
        else:
            kw['mask'] = np.ones(tuple(mk['r4']))
    for name in ('amplitude', 'amp', 'opd', 'mask'):
        if isinstance(kw.get(name), np.ndarray) and kw[name].ndim > 0:
            keep.append((name, kw[name], plain(kw[name]),
                         None if not isinstance(kw[name], np.ma.MaskedArray) else np.array(np.ma.getmaskarray(kw[name]))))
    kw['pixelscale'] = mk_pix(pl['pix'])
    try:
        if pl['kind'] == 'Pupil':
            kw['focal_length'] = None if pl['focal'] is None else float(F(pl['focal']))
            p = lentil.Pupil(**kw)
        else:
            p = lentil.Plane(**kw)
    except Exception as e:
        return {'err': type(e).__name__, 'memory': memory_changed(keep)}
    res = observe_plane(p)
    res['memory'] = memory_changed(keep)
    return res


def run_wctor(c):
    lentil = C.import_lentil()
    t = c['tilt']
    if t is not None:
        t = [float(F(q)) for q in t]
        t = {'list': list, 'tuple': tuple, 'ndarray': lambda x: np.array(x, dtype=float)}[c['tform']](t)
    try:
        w = lentil.Wavefront(wavelength=float(F(c['lam'])), pixelscale=mk_pix(c['wpix']),
                             focal_length=None if c['wfocal'] is None else float(F(c['wfocal'])), tilt=t)
    except Exception as e:
        return {'err': type(e).__name__}
    return observe(w)


def held_changed(held, raw):
    """every wavefront a chain produced (and the one it started from) is still referenced by the caller: looked at again
    after the later multiplications it must show what it showed when it was produced"""
    for k, (w, before) in enumerate(zip(held, raw)):
        now = observe(w)
        if now != before:
            keys = [key for key in before if now.get(key) != before[key]]
            return (f'the wavefront after step {k}, still held by the caller, changed after the later multiplications: '
                    f'{keys[0]} was {before[keys[0]]}, is now {now[keys[0]]}')
    return None


def run_impl(c):
    lentil = C.import_lentil()
    if c['op'] == 'ctor':
        return run_ctor(c)
    if c['op'] == 'wctor':
        return run_wctor(c)
    if c['op'] == 'phist':
        return run_phist(c)
    if c['op'] == 'views':
        w = lentil.Wavefront.empty(wavelength=1e-6, shape=tuple(c['shape']))
        forms = {'tuple': tuple, 'ndarray': np.array, 'list': list}
        w.data = [lentil.field.Field(data=np_carr(f['data']), offset=forms[f.get('form', 'list')](f['off'])) for f in c['fs']]
        ins = c['insert']
        out = np.array(ins['out'], dtype=float)
        return {'field': view(lambda: w.field), 'intensity': view(lambda: w.intensity),
                'insert': view(lambda: w.insert(out, weight=float(F(ins['w']))))}
    L, lam = c['L'], F(c['lam'])
    w = lentil.Wavefront(wavelength=float(lam), pixelscale=mk_pix(c['wpix']),
                         focal_length=None if c['wfocal'] is None else float(F(c['wfocal'])),
                         tilt=None if not c['wtilt'] else [float(F(c['wtilt'][0])), float(F(c['wtilt'][1]))])
    w0 = w
    res = {'steps': [observe(w)], 'err': None, 'insert': None}
    held, raw = [w], [res['steps'][0]]     # every wavefront of the chain stays referenced; re-observed at the end
    keep = []
    f = 1.0            # product of the power-of-two amplitude scalings applied so far (undone before comparing)
    for k, pl in enumerate(c['planes']):
        try:
            p = mk_plane(pl, L, lam, keep)
            cf = c.get('callform', 'w*p')
            if cf == 'mixed':
                cf = ['w*p', 'p*w', 'multiply', 'w*=p'][k % 4]
            if cf == 'w*=p':
                w *= p              # augmented assignment: rebinds the name, the incoming object stays held in `held`
            else:
                w = (p * w) if cf == 'p*w' else (p.multiply(w) if cf == 'multiply' else w * p)
        except Exception as e:
            res['err'] = {'step': k, 'err': type(e).__name__}
            res['input_after'] = observe(w0)
            res['held_changed'] = held_changed(held, raw)
            return res
        f *= 2.0 ** (-pl['ascale']) if pl.get('ascale') else 1.0
        st = observe(w)
        held.append(w)
        raw.append(dict(st))          # as observed, before any un-scaling
        if f != 1.0:
            st['field'], st['intensity'] = unscale_view(st['field'], f), unscale_view(st['intensity'], f * f)
        res['steps'].append(st)
    res['input_after'] = observe(w0)       # the wavefront the chain started from, looked at again afterwards
    res['held_changed'] = held_changed(held, raw)
    res['memory'] = memory_changed(keep)
    ins = c['insert']
    if ins is not None:
        out = np.array(ins['out'], dtype=float)
        try:
            r = w.insert(out, weight=float(F(ins['w'])))
            res['insert'] = unscale_view({'arr': [[complex(v) for v in row] for row in np.asarray(r).tolist()]}, f * f)
        except Exception as e:
            res['insert'] = {'err': type(e).__name__}
    return res


def unscale_view(v, f):
    if 'arr' in v:
        return {'arr': [[x / f for x in row] for row in v['arr']]}
    if 'v' in v:
        return {'v': v['v'] / f}
    return v


# ------------------------------------------------------------------ comparison
def close(a, b, tol):
    return abs(a - b) <= tol * (1 + abs(b))


def cmp_view(a, b, tol, what):
    if ('err' in a) or ('err' in b):
        if a.get('err') != b.get('err'):
            return f'{what}: implementation {a.get("err", "returned a value")}, model {b.get("err", "returned a value")}'
        return None
    if ('v' in a) != ('v' in b):
        return f'{what}: dimensionality differs'
    if 'v' in a:
        return None if close(a['v'], b['v'], tol) else f'{what}: {a["v"]} vs model {b["v"]}'
    x, y = a['arr'], b['arr']
    if len(x) != len(y) or len(x[0]) != len(y[0]):
        return f'{what}: shapes differ'
    mx = max(abs(v) for row in y for v in row)
    for i, (rx, ry) in enumerate(zip(x, y)):
        for j, (u, v) in enumerate(zip(rx, ry)):
            if abs(u - v) > tol * (1 + mx):
                return f'{what}: sample ({i},{j}) is {u}, model {v}'
    return None


def tols(c):
    exact = c['L'] == 1
    return (0.0 if exact else 1e-9), (1e-12 if exact else 1e-9)


def compare_phist(c, impl, model):
    tf, ti = tols(c)
    if 'err' in impl or 'err' in model:
        return None if impl.get('err') == model.get('err') else f'constructor: implementation {impl.get("err", "ok")}, model {model.get("err", "ok")}'
    for k, (a, b) in enumerate(zip(impl['muls'], model['muls'])):
        if 'err' in a or 'err' in b:
            if a.get('err') != b.get('err'):
                return f'multiply {k}: implementation {a.get("err", "ok")}, model {b.get("err", "ok")}'
            continue
        for key in ('lam', 'pix', 'focal', 'shape'):
            if a[key] != b[key]:
                return f'multiply {k}: {key} is {a[key]}, model {b[key]}'
        m = cmp_view(a['field'], b['field'], tf, f'multiply {k} (plane with its current attributes): field') or \
            cmp_view(a['intensity'], b['intensity'], ti, f'multiply {k}: intensity')
        if m:
            return m
    return None


def cmp_wf(a, b, tf, ti, what):
    for key in ('lam', 'pix', 'focal', 'shape'):
        if a[key] != b[key]:
            return f'{what}: {key} is {a[key]}, model {b[key]}'
    ta = sorted((f['ext'], f['tilt']) for f in a['fields'])
    tb = sorted((f['ext'], f['tilt']) for f in b['fields'])
    if ta != tb:
        return f'{what}: extents/tilt lists of the fields differ: {ta} vs model {tb}'
    return cmp_view(a['field'], b['field'], tf, f'{what} field') or cmp_view(a['intensity'], b['intensity'], ti, f'{what} intensity')


def compare_ctor(c, impl, model):
    if 'err' in impl or 'err' in model:
        if impl.get('err') != model.get('err'):
            return f'constructor: implementation {impl.get("err", "built a plane")}, model {model.get("err", "built a plane")}'
        return None
    if c['op'] == 'wctor':
        return cmp_wf(impl, model, 0.0, 1e-12, 'new wavefront')
    m = cmp_view(impl['amp'], model['amp'], 0.0, 'amplitude')
    if m:
        return m
    a, b = impl['opd'], model['opd']
    if ('v' in a) != ('v' in b):
        return 'opd: dimensionality differs'
    if 'v' in a:
        if C.frac(a['v'].real) != b['v']:
            return f'opd: {a["v"]} vs model {b["v"]}'
    elif [[C.frac(v.real) for v in row] for row in a['arr']] != b['arr']:
        return 'opd: samples differ from the model'
    if impl['mask']['rank'] != model['mask']['rank'] or impl['mask']['vals'] != model['mask']['vals']:
        return f'mask: non-zero pattern {impl["mask"]["vals"]} (rank {impl["mask"]["rank"]}), model {model["mask"]["vals"]} (rank {model["mask"]["rank"]})'
    if not impl['mask']['binary']:
        return 'mask: stored values other than 0 and 1'
    for key in ('shape', 'size', 'pix', 'focal', 'ntilt'):
        if impl[key] != model[key]:
            return f'{key} is {impl[key]}, model {model[key]}'
    if impl['gm_imag'] or impl['gmask'] != model['gmask']:
        return f'global_mask is {impl["gmask"]}, model {model["gmask"]}'
    return None


def compare(c, impl, model):
    tf, ti = tols(c)
    if c['op'] in ('ctor', 'wctor'):
        return compare_ctor(c, impl, model)
    if c['op'] == 'phist':
        return compare_phist(c, impl, model)
    if c['op'] == 'views':
        return (cmp_view(impl['field'], model['field'], tf, 'field')
                or cmp_view(impl['intensity'], model['intensity'], ti, 'intensity')
                or cmp_view(impl['insert'], model['insert'], ti, 'insert'))
    if len(impl['steps']) != len(model['steps']):
        return f'implementation completed {len(impl["steps"]) - 1} steps ({impl["err"]}), model {len(model["steps"]) - 1} ({model["err"]})'
    if impl['err'] != model['err']:
        return f'implementation error {impl["err"]}, model {model["err"]}'
    for k, (a, b) in enumerate(zip(impl['steps'], model['steps'])):
        for key in ('lam', 'pix', 'focal', 'shape'):
            if a[key] != b[key]:
                return f'step {k}: {key} is {a[key]}, model {b[key]}'
        ta = sorted((f['ext'], f['tilt']) for f in a['fields'])
        tb = sorted((f['ext'], f['tilt']) for f in b['fields'])
        if ta != tb:
            return f'step {k}: extents/tilt lists of the fields differ: {ta} vs model {tb}'
        m = cmp_view(a['field'], b['field'], tf, f'step {k} field') or \
            cmp_view(a['intensity'], b['intensity'], ti, f'step {k} intensity')
        if m:
            return m
    a, b = impl['input_after'], model['steps'][0]
    if sorted((f['ext'], f['tilt']) for f in a['fields']) != sorted((f['ext'], f['tilt']) for f in b['fields']):
        return ('the wavefront the chain started from was changed by the chain: its fields/tilt lists are now '
                f'{[(f["ext"], f["tilt"]) for f in a["fields"]]}, model {[(f["ext"], f["tilt"]) for f in b["fields"]]}')
    m = cmp_view(a['field'], b['field'], tf, 'field of the input wavefront after the chain')
    if m:
        return m
    if (impl['insert'] is None) != (model['insert'] is None):
        return 'insert: one side did not run'
    if impl['insert'] is not None:
        return cmp_view(impl['insert'], model['insert'], ti, 'insert')
    return None


# ------------------------------------------------------------------ direct oracle: plain-loop canvas arithmetic
def expected_field(c, upto, r, cc):
    v = 1 + 0j
    for pl in c['planes'][:upto]:
        v *= transmission(pl, c['L'], r, cc)
        if v == 0:
            return 0j
    return v


def pix_pair(p):
    if p is None:
        return None
    return (float(F(p[0])), float(F(p[-1])))


def embed_sum(fs, r, c):
    tot = 0j
    for f in fs:
        n, m = len(f['data']), len(f['data'][0])
        i, j = r - f['off'][0] + n // 2, c - f['off'][1] + m // 2
        if 0 <= i < n and 0 <= j < m:
            tot += cnum(f['data'][i][j])
    return tot


def oracle_views(c, impl):
    for k in ('field', 'intensity', 'insert'):
        if 'err' in impl[k]:
            return f'{k} raised {impl[k]["err"]}'
    n, m = c['shape']
    fa, ia = impl['field']['arr'], impl['intensity']['arr']
    if (len(fa), len(fa[0])) != (n, m) or (len(ia), len(ia[0])) != (n, m):
        return 'field/intensity do not have the wavefront shape'
    for i in range(n):
        for j in range(m):
            e = embed_sum(c['fs'], i - n // 2, j - m // 2)
            if fa[i][j] != e:
                return f'field[{i},{j}] = {fa[i][j]} is not the sum of the fields there ({e})'
            if not close(ia[i][j], abs(fa[i][j]) ** 2, 1e-12):
                return f'intensity[{i},{j}] = {ia[i][j]} but |field|^2 = {abs(fa[i][j]) ** 2} (fields must add coherently)'
    out, w = c['insert']['out'], float(F(c['insert']['w']))
    R, Cc = len(out), len(out[0])
    got = impl['insert']['arr']
    for i in range(R):
        for j in range(Cc):
            r, cc = i - R // 2, j - Cc // 2
            ii, jj = r + n // 2, cc + m // 2
            inten = ia[ii][jj].real if (0 <= ii < n and 0 <= jj < m) else abs(embed_sum(c['fs'], r, cc)) ** 2
            if not close(got[i][j], out[i][j] + w * inten, 1e-12):
                return f'insert[{i},{j}] = {got[i][j]}, expected out + weight*intensity = {out[i][j] + w * inten}'
    return None


def oracle_phist(c, impl):
    import copy
    L = c['L']
    tf, ti = tols(c)
    tf = max(tf, 1e-12)
    if 'err' in impl:
        return f'constructor raised {impl["err"]}'
    cur = copy.deepcopy(c['plane'])
    cur['mask'] = explicit_mask(cur)
    chain = []          # plane snapshots the current `last` wavefront went through
    mfac = 1
    k = 0
    for a in c['acts']:
        if a['a'] == 'amp':
            cur['amp'] = a['v']
        elif a['a'] == 'opd':
            cur['opd'] = a['v']
        elif a['a'] == 'mask':
            cur['mask'] = a['v']
        else:
            got = impl['muls'][k]
            if a['src'] == 'last' and chain:
                chain = chain + [copy.deepcopy(cur)]
            else:
                chain, mfac = [copy.deepcopy(cur)], a['m']
            if 'err' in got:
                return f'multiply {k} raised {got["err"]}'
            if got['lam'] != F(c['lam']) / mfac:
                return f'multiply {k}: wavelength {got["lam"]}'
            fv, iv = got['field'], got['intensity']

            def exp(r, cc):
                v = 1 + 0j
                for snap in chain:
                    v *= transmission(snap, L, r, cc, mfac)
                return v
            if 'v' in fv:
                if not close(fv['v'], exp(0, 0), tf):
                    return f'multiply {k}: plane-wave amplitude {fv["v"]}, the plane\'s current attributes give {exp(0, 0)}'
            elif 'arr' in fv:
                R, Cc = len(fv['arr']), len(fv['arr'][0])
                for i in range(R):
                    for j in range(Cc):
                        e = exp(i - R // 2, j - Cc // 2)
                        if not close(fv['arr'][i][j], e, tf):
                            return (f'multiply {k}: field[{i},{j}] = {fv["arr"][i][j]} but the plane\'s CURRENT amplitude/opd/mask '
                                    f'(after the updates made so far) give {e}')
                        if 'arr' in iv and not close(iv['arr'][i][j], abs(fv['arr'][i][j]) ** 2, ti):
                            return f'multiply {k}: intensity[{i},{j}] is not |field|^2'
            k += 1
    for m, w in impl['inputs'].items():
        if w['field'].get('v') != 1 or any(f['tilt'] for f in w['fields']) or len(w['fields']) != 1:
            return f'the incoming Wavefront object (wavelength lambda/{m}) was changed by the multiplications'
    return None


def oracle_ctor(c, impl):
    """the constructor's contract written out directly: amp= is the same keyword as amplitude= (both at once, with an
    amplitude other than the default, is a TypeError), the mask is the non-zero pattern of mask= or else of the
    amplitude, shape/size/global_mask are read off it, a mask of more than three dimensions is a ValueError"""
    pl = c['plane']
    amp, alias, mk = pl['amp'], c['alias'], pl['mask']
    used = amp
    if alias is not None:
        if 's' in amp:
            if cnum(amp['s']) != 1:
                return None if impl.get('err') == 'TypeError' else \
                    f'amplitude={cnum(amp["s"])} together with amp=: {impl.get("err", "a plane was built")}, expected TypeError'
        elif len(amp['a']) * len(amp['a'][0]) > 1:
            return None if 'err' in impl else 'an amplitude array together with amp= was accepted'
        elif cnum(amp['a'][0][0]) != 1:
            return None if impl.get('err') == 'TypeError' else \
                f'amplitude=[[{cnum(amp["a"][0][0])}]] together with amp=: {impl.get("err", "a plane was built")}, expected TypeError'
        used = alias
    if mk is not None and 'r4' in mk:
        return None if impl.get('err') == 'ValueError' else \
            f'a mask with {len(mk["r4"])} dimensions: {impl.get("err", "a plane was built")}, expected ValueError'
    # the non-zero pattern
    if mk is None:
        src = used
        layers = None if 's' in src else [src['a']]
        rank = 0 if 's' in src else 2
        val0 = src.get('s')
    elif 's' in mk:
        layers, rank, val0 = None, 0, mk['s']
    elif 'a' in mk:
        layers, rank = [mk['a']], 2
    else:
        layers, rank = mk['c'], 3
    if layers is not None:
        pat = [[[1 if is_nz(v) else 0 for v in row] for row in ly] for ly in layers]
        if any(sum(map(sum, ly)) == 0 for ly in pat):
            return None          # a mask (or segment) without a set sample: outside the property (no aperture)
    if 'err' in impl:
        return f'a legal constructor call raised {impl["err"]}'
    want_amp = {'v': cnum(used['s'])} if 's' in used else {'arr': [[cnum(v) for v in row] for row in used['a']]}
    m = cmp_view(impl['amp'], want_amp, 0.0, 'plane.amplitude vs the value given')
    if m:
        return m
    if not impl['mask']['binary']:
        return 'plane.mask holds values other than 0 and 1'
    if impl['mask']['rank'] != rank:
        return f'plane.mask has {impl["mask"]["rank"]} dimensions, expected {rank}'
    if layers is None:
        want = 1 if is_nz(val0) else 0
        if impl['mask']['vals'] != want or impl['shape'] is not None or impl['size'] != 1 or impl['gmask'] != want:
            return (f'0-d mask: mask {impl["mask"]["vals"]}, shape {impl["shape"]}, size {impl["size"]}, global_mask '
                    f'{impl["gmask"]}; expected {want}, (), 1, {want}')
    else:
        n, m_ = len(pat[0]), len(pat[0][0])
        if impl['mask']['vals'] != (pat[0] if rank == 2 else pat):
            return f'plane.mask is not the non-zero pattern of the {"mask" if mk is not None else "amplitude"} given'
        if impl['shape'] != [n, m_]:
            return f'plane.shape is {impl["shape"]}, expected {[n, m_]}'
        if impl['size'] != (1 if rank == 2 else len(pat)):
            return f'plane.size is {impl["size"]}, expected {1 if rank == 2 else len(pat)}'
        gm = [[sum(ly[i][j] for ly in pat) for j in range(m_)] for i in range(n)]
        if impl['gm_imag'] or impl['gmask'] != gm:
            return f'plane.global_mask is {impl["gmask"]}, expected the sum of the segment masks {gm}'
    px = pix_pair(pl['pix'])
    got = None if impl['pix'] is None else (float(impl['pix'][0]), float(impl['pix'][1]))
    if got != px:
        return f'plane.pixelscale is {got}, expected {px}'
    if pl['kind'] == 'Pupil':
        want = None if pl['focal'] is None else C.frac(float(F(pl['focal'])))
        if impl['focal'] is None or impl['focal']['f'] != want:
            return f'pupil.focal_length is {impl["focal"]}, expected {want}'
    if impl['ntilt'] != 0:
        return 'a new plane starts with a non-empty tilt list'
    return None


def oracle_wctor(c, impl):
    t = c['tilt']
    if t is not None and len(t) != 2:
        return None if impl.get('err') == 'ValueError' else \
            f'a tilt argument of {len(t)} entries: {impl.get("err", "a wavefront was built")}, expected ValueError'
    if 'err' in impl:
        return f'a legal Wavefront(...) call raised {impl["err"]}'
    if impl['lam'] != F(c['lam']):
        return f'wavelength {impl["lam"]}, expected {F(c["lam"])}'
    px = pix_pair(c['wpix'])
    got = None if impl['pix'] is None else (float(impl['pix'][0]), float(impl['pix'][1]))
    if got != px:
        return f'pixelscale {got}, expected {px}'
    want = 'inf' if (c['wfocal'] is None or F(c['wfocal']) == 0) else C.frac(float(F(c['wfocal'])))
    if impl['focal'] != want:
        return f'focal_length {impl["focal"]}, expected {want}'
    if impl['shape'] is not None or len(impl['fields']) != 1:
        return f'a new wavefront has shape {impl["shape"]} and {len(impl["fields"])} fields, expected () and one'
    # Tilt(x=rx, y=ry) keeps the angle about x in .y and the angle about y in .x
    wt = [] if t is None else [[C.frac(float(F(t[1]))), C.frac(float(F(t[0])))]]
    if impl['fields'][0]['tilt'] != wt:
        return f'tilt list of the plane wave is {impl["fields"][0]["tilt"]}, expected {wt}'
    if impl['field'].get('v') != 1 or impl['intensity'].get('v') != 1:
        return f'a new wavefront is not the unit plane wave: field {impl["field"]}, intensity {impl["intensity"]}'
    return None


def oracle(c, impl):
    if isinstance(impl, dict) and impl.get('memory'):
        return impl['memory'] + (' by the multiplications' if c['op'] not in ('ctor', 'wctor') else ' by the constructor')
    if isinstance(impl, dict) and impl.get('held_changed'):
        return impl['held_changed']
    if c['op'] == 'ctor':
        return oracle_ctor(c, impl)
    if c['op'] == 'wctor':
        return oracle_wctor(c, impl)
    if c['op'] == 'phist':
        return oracle_phist(c, impl)
    if c['op'] == 'views':
        return oracle_views(c, impl)
    L = c['L']
    tf, ti = tols(c)
    tf = max(tf, 1e-12)
    info = chain_boxes(c)
    if info['zero_mask'] or info['shape_mismatch']:
        return None          # outside the property's domain (no aperture / malformed plane)
    steps = impl['steps']
    # which step must be refused: the first with inconsistent pixel scales
    cur = pix_pair(c['wpix'])
    refuse_at = None
    for k, pl in enumerate(c['planes']):
        p = pix_pair(pl['pix'])
        if cur is not None and p is not None and cur != p:
            refuse_at = k
            break
        cur = cur if cur is not None else p
    if refuse_at is not None:
        if impl['err'] is None or impl['err']['step'] > refuse_at:
            return f'plane {refuse_at} has a pixel scale inconsistent with the wavefront and was not refused'
        if impl['err']['step'] == refuse_at and impl['err']['err'] != 'ValueError':
            return f'inconsistent pixel scales raised {impl["err"]["err"]}, not ValueError'
    n_ok = len(c['planes']) if refuse_at is None else refuse_at
    if len(steps) - 1 < n_ok:
        return f'plane {impl["err"]["step"]} raised {impl["err"]["err"]}'
    cur = pix_pair(c['wpix'])
    prev_focal = steps[0]['focal']
    for k in range(0, n_ok + 1):
        st = steps[k]
        if st['lam'] != F(c['lam']):
            return f'step {k}: wavelength changed to {st["lam"]}'
        if k > 0:
            pl = c['planes'][k - 1]
            p = pix_pair(pl['pix'])
            cur = cur if cur is not None else p
            got = None if st['pix'] is None else (float(st['pix'][0]), float(st['pix'][1]))
            if got != cur:
                return f'step {k}: pixelscale {got}, expected {cur}'
            if pl['kind'] == 'Pupil':
                want = None if pl['focal'] is None else C.frac(float(F(pl['focal'])))
                if st['focal'] != want:
                    return f'step {k}: focal length {st["focal"]} is not the pupil\'s {want}'
            elif prev_focal is not None and prev_focal != 0 and st['focal'] != prev_focal:
                return f'step {k}: a plain plane changed the focal length {prev_focal} -> {st["focal"]}'
            prev_focal = st['focal']
        fv, iv = st['field'], st['intensity']
        # intensity = |field|^2 samplewise
        if 'err' not in fv and 'err' not in iv:
            if 'v' in fv:
                if 'v' not in iv or not close(iv['v'], abs(fv['v']) ** 2, ti):
                    return f'step {k}: intensity is not |field|^2'
            else:
                for i, row in enumerate(fv['arr']):
                    for j, v in enumerate(row):
                        if not close(iv['arr'][i][j], abs(v) ** 2, ti):
                            return f'step {k}: intensity[{i},{j}] = {iv["arr"][i][j]} but |field|^2 = {abs(v) ** 2}'
        elif ('err' in fv) != ('err' in iv):
            return f'step {k}: one of field/intensity raised and the other did not'
        # field = product of the transmissions of the planes passed so far
        if 'v' in fv:
            if not close(fv['v'], expected_field(c, k, 0, 0), tf):
                return f'step {k}: plane-wave amplitude {fv["v"]}, expected {expected_field(c, k, 0, 0)}'
        elif 'arr' in fv:
            R, Cc = len(fv['arr']), len(fv['arr'][0])
            for i in range(R):
                for j in range(Cc):
                    e = expected_field(c, k, i - R // 2, j - Cc // 2)
                    if not close(fv['arr'][i][j], e, tf):
                        return (f'step {k}: field[{i},{j}] = {fv["arr"][i][j]} but the product of the plane '
                                f'transmissions there is {e}')
        elif st['shape'] is not None:
            return f'step {k}: .field raised {fv["err"]} on a wavefront of shape {st["shape"]}'
    # accumulate: out + weight * intensity on the overlap, nothing else
    ins = c['insert']
    if ins is not None and refuse_at is None:
        got = impl['insert']
        last = steps[-1]
        arrays = any(f != 'const' for f in info['fields'])
        if not arrays and info['fields']:
            return None        # plane wave only: 0-d data cannot be inserted (finding C06-one-element-insert)
        if 'err' in got:
            return f'insert raised {got["err"]}'
        out, w = ins['out'], float(F(ins['w']))
        R, Cc = len(out), len(out[0])
        for i in range(R):
            for j in range(Cc):
                r, cc = i - R // 2, j - Cc // 2
                if 'arr' in last['intensity']:
                    I = last['intensity']['arr']
                    ii, jj = r + len(I) // 2, cc + len(I[0]) // 2
                    inten = I[ii][jj].real if (0 <= ii < len(I) and 0 <= jj < len(I[0])) else None
                else:
                    inten = None
                e = abs(expected_field(c, len(c['planes']), r, cc)) ** 2
                if inten is not None and not close(inten, e, max(ti, 1e-9)):
                    inten = None       # already reported above if wrong; fall back to the specification value
                val = out[i][j] + w * (inten if inten is not None else e)
                if not close(got['arr'][i][j], val, max(ti, 1e-12)):
                    return f'insert[{i},{j}] = {got["arr"][i][j]}, expected out + weight*intensity = {val}'
    return None



# ------------------------------------------------------------------ WP-T4: translation layer (source -> Gallina)
# An ADDITIONAL tie (DESIGN 10.3): harness/gen_src.py (suite 'C07') translates the bookkeeping decisions of lentil/plane.py:Plane.multiply (_mul_pixelscale on rational pixel scales, the shape of the product)
# from the CURRENT source text into coq/theories/Gen/PlaneMulSrc.v; Proofs/PlaneMulSrcP.v proves every translated term equal to the model for
# all integers; Properties/C07Src.v states it.  Policy: a function the translator refuses is only reported; a
# translated function whose equivalence lemma no longer compiles is compared with the model mirror on sampled points,
# an exhaustive small box and random points - a found disagreement is a VIOLATION with that witness (replayable: op
# 'src'), none found is reported as unproved.  The build of C07Src happens here, never in COQ_TARGETS.
def extra(tier, rng):
    from .. import gen_src as G
    return G.run_layer('C07', ID, tier, rng, C)


def _wrap_src_replay():
    from .. import gen_src as G
    return G.wrap_replay(run_impl, oracle, C)


run_impl, oracle = _wrap_src_replay()
