"""C19 - Pixel, jitter and smear blurs are flux-preserving convolutions on any shape."""
import math
from fractions import Fraction

import numpy as np

from .. import common as C

ID = 'C19'
MODEL = 'c19'
RUNFUN = 'run'
COQ_TARGETS = ['theories/Properties/C19.vo', 'theories/Extract/RunC19.vo']
DESIGN_REF = 'DESIGN.md section 6, C19'
TECHNIQUE = ('Coq proof (ring-generic DFT shift theorem and convolution theorem from the kernel laws and cyclic '
             're-indexing of sums; inverse theorem, DC gain and non-negativity over Coquelicot C; renormalisation in any '
             'ring with inverses) about an executable model of |ifft2(fft2 img * kernel)| with the three kernels built from '
             'fftfreq as the code builds them + execution of the extracted model on the exact group ring Q(i)[C_L], '
             'L = lcm(rows, cols), against lentil.detector.pixel / lentil.jitter / lentil.smear')
LEVEL_TEXT = ('Theorems in coq/theories/Properties/C19.v for every shape (any aspect ratio), every multiplier / extent / angle / '
              'pixel scale / oversampling and every circular translation; the model follows detector.py / convolvable.py line '
              'by line (fftfreq, axis order, (scale/pixelscale)*oversample, renormalisation by sums) and is run exactly '
              '(roots of unity as group-ring monomials) against the public functions on every check.')
LEVEL_NOTE = ('Trusted: Coq kernel + stdlib Reals axioms (inverse theorem, modulus), extraction, harness. np.fft.fft2/ifft2 are '
              'modelled by their documented defining sums; np.sinc / np.exp / np.sin / np.cos values enter the model as a table '
              'evaluated by the harness with numpy at the exact rational arguments the model computes (only sinc 0 = 1, '
              'exp 0 = 1 are used by the theorems); np.abs of the complex intermediate is applied by the harness between '
              'the two model stages; IEEE rounding is not modelled (tolerance 1e-9 relative in the tie).')
TRUSTED = ['Coq 8.16.1 kernel (coqc; coqchk in the thorough tier)',
           'extraction with ExtrOcamlBasic only; ocaml/driver.ml',
           'harness/props/c19.py: codec, evaluation of group-ring elements at exp(-2 pi i/L), np.abs between model stage 1 '
           '(complex ifft2(fft2 img * kernel)) and stage 2 (renormalisation on the rationals)',
           'multiplier values: np.sinc / np.exp(-2 pi^2 q) / np.sin, np.cos(np.radians(angle)) evaluated by the harness with '
           'numpy and passed to the model as rationals in a table keyed by the exact rational argument; the model chooses '
           'which argument belongs to which sample (fftfreq, axis order, extent product)',
           'numpy: np.fft.fft2/ifft2 contract (defining sums), np.fft.fftfreq, np.meshgrid, np.outer (modelled; observed through the tie)',
           'parametricity: the theorem instance (any ring / Coquelicot C) and the executed instance (group ring) are the same Gallina term']
ASSUMPTIONS = ['non-negative, non-zero images (integer samples), 2..12 samples per axis',
               'extent parameters, pixel scales, oversampling factors and angles are floats given as small rationals; '
               'comparison tolerance 1e-9*(1+max|value|)',
               'equality with the circular convolution is checked where that convolution is non-negative, to within the '
               'bound on the unpaired Nyquist samples of even axes']
RULE = ('random pixel/jitter/smear cases: shapes 2..12 x 2..12 with every aspect ratio (thorough: every shape at least once per '
        'blur), images sparse (point sources) or background+detail, extents 0..3 samples, angles incl. multiples of 45 deg and '
        'negative, pixel scales and oversampling factors, circular translations (all of them for small images); '
        'non-trivial = extent > 0 on a non-constant image')

TOL = 1e-9


def lcm(a, b):
    return a * b // math.gcd(a, b)


def fl(s):
    """the float the implementation receives for a rational parameter"""
    return float(Fraction(s))


def exact(x):
    """the exact rational value of a float"""
    return Fraction(*float(x).as_integer_ratio())


GRID = 2 ** 48


def grid(x):
    """multiplier values are handed to the model on the dyadic grid 2^-48 (|error| <= 1.8e-15, far inside the tolerance)
    so that the exact arithmetic of the model stays on short numbers"""
    return Fraction(round(x * GRID), GRID)


def shape_of(c):
    return len(c['img']), len(c['img'][0])


# ------------------------------------------------------------------ generation
SHAPES_ALL = [(m, n) for m in range(2, 13) for n in range(2, 13)]


def cost(m, n):
    return m * n * (m + n) * lcm(m, n)


def rnd_img(rng, m, n, kind):
    if kind == 'sparse':
        img = [[0] * n for _ in range(m)]
        for _ in range(rng.randint(1, 3)):
            img[rng.randrange(m)][rng.randrange(n)] = rng.randint(1, 9)
    elif kind == 'background':
        b = rng.randint(20, 60)
        img = [[b + rng.randint(0, 4) for _ in range(n)] for _ in range(m)]
    else:
        img = [[rng.randint(0, 9) for _ in range(n)] for _ in range(m)]
        if not any(any(r) for r in img):
            img[0][0] = 1
    return img


EXTENTS = ['0', '1/4', '1/2', '3/4', '1', '5/4', '3/2', '2', '5/2', '3', '1/3', '7/5']
ANGLES = ['0', '30', '45', '90', '135', '180', '270', '-60', '17', '222', '57/2', '360']
UNITS = [('1', '1'), ('1', '2'), ('1', '3'), ('1/200000', '1'), ('1/200000', '5'), ('13/2', '2'), ('3/8', '4'), ('5', '1')]


def mk_case(rng, op, m, n, tier, allshifts_max):
    kind = rng.choice(['sparse', 'background', 'background', 'dense'])
    c = {'op': op, 'img': rnd_img(rng, m, n, kind), 'kind': kind}
    e = rng.choice(EXTENTS)
    if op == 'pixel':
        c['os'] = rng.choice(['0', '1', '2', '3', '1', '2', '3/2', '5/2', '1/2'])
    else:
        ps, os_ = rng.choice(UNITS)
        # scale in physical units such that (scale/ps)*os = e samples
        c['ext'] = str(Fraction(e) * Fraction(ps) / Fraction(os_))
        c['ps'] = ps
        c['os'] = os_
        if op == 'smear':
            c['angle'] = rng.choice(ANGLES)
    if m * n <= allshifts_max:
        c['shifts'] = [[a, b] for a in range(m) for b in range(n)]
    else:
        c['shifts'] = [[rng.randint(-m, 2 * m), rng.randint(-n, 2 * n)], [rng.randrange(m), 0], [0, rng.randrange(1, n)]]
    return c


def generate(rng, tier):
    ops = ['pixel', 'jitter', 'smear']
    out = []
    if tier == 'quick':
        shapes = [s for s in SHAPES_ALL if cost(*s) <= 20000]
        ncase, allshifts = 150, 12
        fixed = [(2, 2), (2, 3), (3, 2), (2, 12), (12, 2), (3, 5), (5, 3), (4, 6), (6, 4), (3, 12), (12, 4), (7, 7), (8, 8), (5, 10)]
        for (m, n) in fixed:
            for op in ops:
                out.append(mk_case(rng, op, m, n, tier, allshifts))
        out.append(mk_case(rng, 'jitter', 12, 12, tier, allshifts))
    else:
        shapes = [s for s in SHAPES_ALL if cost(*s) <= 60000]
        ncase, allshifts = 900, 25
        # every shape 2..12 x 2..12 once per blur
        for (m, n) in SHAPES_ALL:
            for op in ops:
                out.append(mk_case(rng, op, m, n, tier, allshifts))
    while len(out) < ncase:
        m, n = rng.choice(shapes)
        out.append(mk_case(rng, rng.choice(ops), m, n, tier, allshifts))
    rng.shuffle(out)         # spread the expensive shapes over the model shards
    for c in out:
        yield c


def classify(c):
    m, n = shape_of(c)
    asp = 'square' if m == n else ('tall' if m > n else 'wide')
    ext = c['os'] if c['op'] == 'pixel' else c['ext']
    return f"{c['op']}/{asp}/{c.get('kind', 'corpus')}/{'zero-extent' if Fraction(ext) == 0 else 'blur'}"


def nontrivial(c):
    ext = c['os'] if c['op'] == 'pixel' else c['ext']
    flat = [v for r in c['img'] for v in r]
    return Fraction(ext) != 0 and len(set(flat)) > 1


# ------------------------------------------------------------------ parameters as the implementation sees them
def params(c):
    """floats handed to lentil, and their exact rational values handed to the model"""
    p = {'os': fl(c['os'])}
    if c['op'] != 'pixel':
        p['ext'] = fl(c['ext'])
        p['ps'] = fl(c['ps'])
    if c['op'] == 'smear':
        p['angle'] = fl(c['angle'])
        a = np.radians(p['angle'])
        p['sn'] = float(np.sin(a))
        p['cs'] = float(np.cos(a))
    return p


def freq_range(n):
    return range(-(n // 2) - 1, n // 2 + 2)


def table(c):
    """(argument, value) pairs for the transcendental function of the blur, at every argument the model can ask for
    (a superset: all frequency numerators of both axes, in both roles)"""
    m, n = shape_of(c)
    p = params(c)
    os_ = exact(p['os'])
    keys = set()
    if c['op'] == 'pixel':
        for a in freq_range(m):
            keys.add(Fraction(a, m) * os_)
        for b in freq_range(n):
            keys.add(Fraction(b, n) * os_)
        fn = lambda q: float(np.sinc(float(q)))
    elif c['op'] == 'jitter':
        s = exact(p['ext']) / exact(p['ps']) * os_
        for a in freq_range(m):
            for b in freq_range(n):
                keys.add(s * s * (Fraction(b, n) ** 2 + Fraction(a, m) ** 2))
        fn = lambda q: float(np.exp(-2 * np.pi ** 2 * float(q)))
    else:
        sn, cs = exact(p['sn']), exact(p['cs'])
        dp = exact(p['ext']) / exact(p['ps'])
        for a in freq_range(m):
            for b in freq_range(n):
                keys.add((sn * Fraction(a, m) + cs * Fraction(b, n)) * dp * os_)
        fn = lambda q: float(np.sinc(float(q)))
    return [(k, grid(fn(k))) for k in sorted(keys)]


# ------------------------------------------------------------------ model side
def enc_img(img):
    out = [len(img), len(img[0])]
    for row in img:
        for v in row:
            out += C.enc_c((Fraction(v), Fraction(0)))
    return out


def enc_table(t):
    out = [len(t)]
    for k, v in t:
        out += C.enc_q(k) + C.enc_q(v)
    return out


def encode(c):
    m, n = shape_of(c)
    L = lcm(m, n)
    p = params(c)
    t = enc_table(table(c))
    if c['op'] == 'pixel':
        return [1, L] + enc_img(c['img']) + C.enc_q(exact(p['os'])) + t
    if c['op'] == 'jitter':
        return [2, L] + enc_img(c['img']) + C.enc_q(exact(p['ext'])) + C.enc_q(exact(p['ps'])) + C.enc_q(exact(p['os'])) + t
    return ([3, L] + enc_img(c['img']) + C.enc_q(exact(p['ext'])) + C.enc_q(exact(p['sn'])) + C.enc_q(exact(p['cs']))
            + C.enc_q(exact(p['ps'])) + C.enc_q(exact(p['os'])) + t)


def enc_qarr(a):
    a = np.asarray(a, dtype=float)
    out = [a.shape[0], a.shape[1]]
    for v in a.ravel():
        out += C.enc_q(exact(v))
    return out


_BIN = []


def model_renorm(absd, img):
    """second model stage: out * sum(img) / sum(out) on the rationals"""
    if not _BIN:
        _BIN.append(C.build_model(MODEL))
    import subprocess
    inp = ' '.join(str(int(x)) for x in [4] + enc_qarr(absd) + enc_qarr(img)) + '\n'
    pr = subprocess.run([_BIN[0]], input=inp, stdout=subprocess.PIPE, stderr=subprocess.PIPE, text=True, timeout=600)
    if pr.returncode != 0:
        raise RuntimeError('model binary failed in the renormalisation stage: ' + pr.stderr[-300:])
    res = [int(t, 2) for t in pr.stdout.split()]
    rd = C.Reader(res, 1)
    if rd.z() != 0:
        raise ValueError('renorm stage rejected its input')
    return [[float(v) for v in row] for row in rd.arr(rd.q)]


def decode(c, ints):
    m, n = shape_of(c)
    L = lcm(m, n)
    if len(ints) != 3 + 4 * L * m * n:
        raise ValueError('model returned a poisoned value (an argument was missing from the oracle table)')
    if ints[0] != 0:
        return {'err': C.ERRNAMES.get(ints[1], '?')}
    # group-ring elements -> complex numbers: sum_k c_k exp(-2 pi i k / L)
    nums, dens = ints[3::2], ints[4::2]
    num = np.array([a / b for a, b in zip(nums, dens)], dtype=float).reshape(m, n, L, 2)
    w = np.exp(-2j * np.pi * np.arange(L) / L)
    pre = (num[..., 0] + 1j * num[..., 1]) @ w
    absd = np.abs(pre)                      # np.abs: applied here, between the two model stages
    if c['op'] == 'pixel':
        return {'out': absd.tolist()}
    return {'out': model_renorm(absd, np.asarray(c['img'], dtype=float))}


# ------------------------------------------------------------------ implementation side
def call(lentil, c, img, p):
    if c['op'] == 'pixel':
        return lentil.detector.pixel(img, p['os'])
    if c['op'] == 'jitter':
        return lentil.jitter(img, p['ext'], pixelscale=p['ps'], oversample=p['os'])
    return lentil.smear(img, p['ext'], angle=p['angle'], pixelscale=p['ps'], oversample=p['os'])


def run_impl(c):
    lentil = C.import_lentil()
    img = np.array(c['img'], dtype=float)
    p = params(c)
    res = {}
    try:
        out = call(lentil, c, img.copy(), p)
        res['out'] = np.asarray(out).tolist()
        res['dtype_kind'] = np.asarray(out).dtype.kind
    except Exception as e:
        return {'err': type(e).__name__}
    # circular translations of the input
    rolled = []
    for s in c.get('shifts', []):
        try:
            rolled.append(np.asarray(call(lentil, c, np.roll(img, tuple(s), axis=(0, 1)), p)).tolist())
        except Exception as e:
            rolled.append({'err': type(e).__name__})
    res['rolled'] = rolled
    # zero extent
    p0 = dict(p)
    if c['op'] == 'pixel':
        p0['os'] = 0.0
    else:
        p0['ext'] = 0.0
    try:
        res['zero'] = np.asarray(call(lentil, c, img.copy(), p0)).tolist()
    except Exception as e:
        res['zero'] = {'err': type(e).__name__}
    # the same extent expressed in samples
    if c['op'] != 'pixel':
        ps_ = dict(p)
        ps_['ext'] = float(Fraction(c['ext']) / Fraction(c['ps']) * Fraction(c['os']))
        ps_['ps'] = 1
        ps_['os'] = 1
        try:
            res['samples'] = np.asarray(call(lentil, c, img.copy(), ps_)).tolist()
        except Exception as e:
            res['samples'] = {'err': type(e).__name__}
    else:
        o = Fraction(c['os'])
        if o.denominator == 1 and o >= 1:
            try:
                a = lentil.detector.pixelate(img.copy(), int(o))
                b = lentil.rescale(lentil.detector.pixel(img.copy(), int(o)), 1 / int(o), order=3, mode='nearest', unitary=True)
                res['pixelate'] = [np.asarray(a).tolist(), np.asarray(b).tolist()]
            except Exception as e:
                res['pixelate'] = {'err': type(e).__name__}
    return res


def arr_close(a, b, tol=TOL, extra=0.0):
    a = np.asarray(a, dtype=float)
    b = np.asarray(b, dtype=float)
    if a.shape != b.shape:
        return f'shapes differ: {a.shape} vs {b.shape}'
    if not np.all(np.isfinite(a)):
        return 'non-finite values'
    d = np.max(np.abs(a - b)) if a.size else 0.0
    if d > tol * (1 + np.max(np.abs(b))) + extra:
        i = np.unravel_index(np.argmax(np.abs(a - b)), a.shape)
        return f'max difference {d:.3g} at index {tuple(int(x) for x in i)}: {a[i]} vs {b[i]}'
    return None


def compare(c, impl, model):
    if ('err' in impl) != ('err' in model):
        return f'implementation {impl.get("err", "returned a value")}, model {model.get("err", "returned a value")}'
    if 'err' in impl:
        return None
    msg = arr_close(impl['out'], model['out'])
    return f'{c["op"]}: {msg}' if msg else None


# ------------------------------------------------------------------ direct oracle (no model, no np.fft)
def dft_matrix(n, sign):
    k = np.arange(n)
    return np.exp(sign * 2j * np.pi * ((np.outer(k, k) % n) / n))


def freqs(n):
    """signed frequencies of the n-point grid, cycles per sample: k/n for k <= (n-1)//2, (k-n)/n above"""
    return np.array([(k if 2 * k < n else k - n) / n for k in range(n)])


def transfer(c, m, n):
    """the documented transfer function on the (m, n) frequency grid: rows = y frequencies, columns = x frequencies"""
    fy = freqs(m)[:, None] * np.ones((1, n))
    fx = np.ones((m, 1)) * freqs(n)[None, :]
    if c['op'] == 'pixel':
        o = fl(c['os'])
        return np.sinc(fy * o) * np.sinc(fx * o)
    e = float(Fraction(c['ext']) / Fraction(c['ps']) * Fraction(c['os']))      # extent in samples
    if c['op'] == 'jitter':
        return np.exp(-2 * np.pi ** 2 * e ** 2 * (fx ** 2 + fy ** 2))
    a = math.radians(fl(c['angle']))
    return np.sinc((math.cos(a) * fx + math.sin(a) * fy) * e)


def circ_conv(img, h):
    m, n = img.shape
    out = np.zeros((m, n), dtype=complex)
    for x in range(m):
        for y in range(n):
            if img[x, y] != 0:
                out += img[x, y] * np.roll(h, (x, y), axis=(0, 1))
    return out


def oracle(c, impl):
    img = np.array(c['img'], dtype=float)
    m, n = img.shape
    if 'err' in impl:
        return f'{c["op"]} raised {impl["err"]} on a {m}x{n} image'
    out = np.asarray(impl['out'])
    if out.shape != (m, n):
        return f'shape not preserved: input {(m, n)}, output {out.shape}'
    if impl.get('dtype_kind') != 'f':
        return f'output is not a real array (dtype kind {impl.get("dtype_kind")})'
    out = out.astype(float)
    if not np.all(np.isfinite(out)):
        return 'output contains non-finite values'
    if np.min(out) < 0:
        return f'negative output value {np.min(out)}'
    scale = 1 + float(np.max(np.abs(img)))
    # commutation with circular translation
    for s, r in zip(c.get('shifts', []), impl.get('rolled', [])):
        if isinstance(r, dict):
            return f'raised {r["err"]} on the image translated by {s}'
        msg = arr_close(r, np.roll(out, tuple(s), axis=(0, 1)))
        if msg:
            return f'does not commute with the circular translation {s}: {msg}'
    # zero extent is the identity
    z = impl.get('zero')
    if isinstance(z, dict):
        return f'raised {z["err"]} at zero extent'
    msg = arr_close(z, img)
    if msg:
        return f'zero extent is not the identity: {msg}'
    # totals
    if c['op'] != 'pixel':
        if abs(float(np.sum(out)) - float(np.sum(img))) > TOL * m * n * scale:
            return f'total not kept: sum(img) = {np.sum(img)}, sum(out) = {np.sum(out)}'
        sm = impl.get('samples')
        if isinstance(sm, dict):
            return f'raised {sm["err"]} with the extent given in samples'
        msg = arr_close(sm, out)
        if msg:
            return (f'extent {c["ext"]} at pixel scale {c["ps"]}, oversampling {c["os"]} differs from the same extent '
                    f'in samples: {msg}')
    # equality with the circular convolution with the inverse transform of the documented transfer function
    T = transfer(c, m, n)
    if abs(T[0, 0] - 1) > 1e-12:
        return 'oracle transfer function has no unit gain (harness bug)'
    Wm, Wn = dft_matrix(m, +1), dft_matrix(n, +1)
    h = (Wm @ T.astype(complex) @ Wn) / (m * n)                 # inverse DFT of T, by matrices
    cc = circ_conv(img, h)
    F = dft_matrix(m, -1) @ img.astype(complex) @ dft_matrix(n, -1)
    nyq = 0.0
    if m % 2 == 0:
        nyq += float(np.sum(np.abs(F[m // 2, :] * T[m // 2, :])))
    if n % 2 == 0:
        nyq += float(np.sum(np.abs(F[:, n // 2] * T[:, n // 2])))
    nyq /= (m * n)
    if np.min(cc.real) >= 0:
        tot = float(np.sum(img))
        bound = nyq * (1 + m * n * float(np.max(np.abs(cc))) / tot) if c['op'] != 'pixel' else nyq
        msg = arr_close(out, cc.real, extra=bound)
        if msg:
            return ('output differs from the (non-negative) circular convolution with the documented transfer function '
                    f'by more than the unpaired Nyquist contribution {bound:.3g}: {msg}')
        if abs(float(np.sum(out)) - tot) > TOL * m * n * scale + m * n * bound:
            return f'total not kept although the convolution is non-negative: {tot} -> {np.sum(out)}'
    # pixelate = pixel then rescale
    pz = impl.get('pixelate')
    if pz is not None:
        if isinstance(pz, dict):
            return f'pixelate raised {pz["err"]}'
        msg = arr_close(pz[0], pz[1])
        if msg:
            return f'pixelate is not pixel followed by rescale(1/oversample): {msg}'
    return None
