"""C19 - Pixel, jitter and smear blurs are flux-preserving convolutions on any shape."""
import math
from fractions import Fraction

import numpy as np

from .. import common as C

ID = 'C19'
MODEL = 'c19'
RUNFUN = 'run'
COQ_TARGETS = ['theories/Properties/C19.vo', 'theories/Extract/RunC19.vo']
DESIGN_REF = 'DESIGN.md section 6, C19'
TECHNIQUE = ('Coq proof (ring-generic DFT shift theorem and convolution theorem from the kernel laws and cyclic '
             're-indexing of sums; inverse theorem, DC gain and non-negativity over Coquelicot C; renormalisation in any '
             'ring with inverses) about an executable model of |ifft2(fft2 img * kernel)| with the three kernels built from '
             'fftfreq as the code builds them + execution of the extracted model on the exact group ring Q(i)[C_L], '
             'L = lcm(rows, cols), against lentil.detector.pixel / lentil.jitter / lentil.smear')
LEVEL_TEXT = ('Theorems in coq/theories/Properties/C19.v for every shape (any aspect ratio), every multiplier / extent / angle / '
              'pixel scale / oversampling and every circular translation; the model follows detector.py / convolvable.py line '
              'by line (fftfreq, axis order, (scale/pixelscale)*oversample, renormalisation by sums) and is run exactly '
              '(roots of unity as group-ring monomials) against the public functions on every check.')
LEVEL_NOTE = ('Trusted: Coq kernel + stdlib Reals axioms (inverse theorem, modulus), extraction, harness. np.fft.fft2/ifft2 are '
              'modelled by their documented defining sums; np.sinc / np.exp / np.sin / np.cos values enter the model as a table '
              'evaluated by the harness with numpy at the exact rational arguments the model computes (only sinc 0 = 1, '
              'exp 0 = 1 are used by the theorems); np.abs of the complex intermediate is applied by the harness between '
              'the two model stages; IEEE rounding is not modelled (tolerance 1e-9 relative in the tie).')
TRUSTED = ['Coq 8.16.1 kernel (coqc; coqchk in the thorough tier)',
           'extraction with ExtrOcamlBasic only; ocaml/driver.ml',
           'harness/props/c19.py: codec, evaluation of group-ring elements at exp(-2 pi i/L), np.abs between model stage 1 '
           '(complex ifft2(fft2 img * kernel)) and stage 2 (renormalisation on the rationals)',
           'multiplier values: np.sinc / np.exp(-2 pi^2 q) / np.sin, np.cos(np.radians(angle)) evaluated by the harness with '
           'numpy and passed to the model as rationals in a table keyed by the exact rational argument; the model chooses '
           'which argument belongs to which sample (fftfreq, axis order, extent product)',
           'numpy: np.fft.fft2/ifft2 contract (defining sums), np.fft.fftfreq, np.meshgrid, np.outer (modelled; observed through the tie)',
           'parametricity: the theorem instance (any ring / Coquelicot C) and the executed instance (group ring) are the same Gallina term']
ASSUMPTIONS = ['non-negative, non-zero images (integer samples); 2..12 samples per axis run through the model, sides 13, 17, 19, '
               '23 (and 26, 29, 31) through the model only for 1 x n / n x 1 / small x n shapes and otherwise through the '
               'direct oracle alone',
               'extent parameters, pixel scales, oversampling factors and angles are floats given as small rationals; '
               'comparison tolerance 1e-9*(1+max|value|)',
               'equality with the circular convolution is checked where that convolution is non-negative, to within the '
               'bound on the unpaired Nyquist samples of even axes',
               'every case starts from a freshly imported lentil (empty module-level caches)']
RULE = ('random pixel/jitter/smear cases: shapes 2..12 x 2..12 with every aspect ratio (thorough: every shape at least once per '
        'blur) plus shapes with a side that is not 2-3-5-7-11-smooth (13, 17, 19, 23, 26, 29, 31) carrying a bright source in a '
        'corner; images sparse (point sources) or background+detail, as float64 / float32 / int64 / uint8 / bool arrays or '
        'nested lists; whole-number parameters as ints or floats; extents 0..3 samples, angles incl. 0, multiples of 45 deg '
        'and negative, pixel scales and oversampling factors, circular translations (all of them for small images), the call '
        'repeated after the others; call histories of 2-4 blurs on one shape with one argument varied at a time, each '
        'compared with the same call made first in a fresh interpreter state; non-trivial = extent > 0 on a non-constant image')

TOL = 1e-9


def lcm(a, b):
    return a * b // math.gcd(a, b)


def fl(s):
    """the float the implementation receives for a rational parameter"""
    return float(Fraction(s))


def exact(x):
    """the exact rational value of a float"""
    return Fraction(*float(x).as_integer_ratio())


GRID = 2 ** 48


def grid(x):
    """multiplier values are handed to the model on the dyadic grid 2^-48 (|error| <= 1.8e-15, far inside the tolerance)
    so that the exact arithmetic of the model stays on short numbers"""
    return Fraction(round(x * GRID), GRID)


def shape_of(c):
    if 'proc' in c:
        return tuple(c['proc']['shape'])
    return len(c['img']), len(c['img'][0])


def get_img(c):
    """the samples of the case's image as float64: listed in the case, or (large frames) described procedurally as a
    flat background plus point sources"""
    if 'proc' in c:
        pr = c['proc']
        a = np.full(tuple(pr['shape']), float(Fraction(pr['bg'])))
        for r, q, v in pr['src']:
            a[r, q] += float(Fraction(v))
        return a
    return np.array(c['img'], dtype=float)


# ------------------------------------------------------------------ generation
SHAPES_ALL = [(m, n) for m in range(2, 13) for n in range(2, 13)]


def cost(m, n):
    return m * n * (m + n) * lcm(m, n)


def rnd_img(rng, m, n, kind):
    if kind == 'sparse':
        img = [[0] * n for _ in range(m)]
        for _ in range(rng.randint(1, 3)):
            img[rng.randrange(m)][rng.randrange(n)] = rng.randint(1, 9)
    elif kind == 'background':
        b = rng.randint(20, 60)
        img = [[b + rng.randint(0, 4) for _ in range(n)] for _ in range(m)]
    else:
        img = [[rng.randint(0, 9) for _ in range(n)] for _ in range(m)]
        if not any(any(r) for r in img):
            img[0][0] = 1
    return img


EXTENTS = ['0', '1/4', '1/2', '3/4', '1', '5/4', '3/2', '2', '5/2', '3', '1/3', '7/5']
ANGLES = ['0', '30', '45', '90', '135', '180', '270', '-60', '17', '222', '57/2', '360']
UNITS = [('1', '1'), ('1', '2'), ('1', '3'), ('1/200000', '1'), ('1/200000', '5'), ('13/2', '2'), ('3/8', '4'), ('5', '1')]


DTYPES = ['int64', 'uint8', 'float32', 'bool', 'list']
# ndarray subclasses / containers (legal array_like inputs: the blur acts on their samples), memory layouts,
# scalar forms of the parameters, power-of-two scalings of the image (every step of the blur is linear, and a power
# of two scales every float exactly: blur(s*img)/s must reproduce blur(img))
CONTAINERS = ['masked', 'masked_nomask', 'matrix', 'subclass', 'memmap']
LAYOUTS = ['F', 'strided', 'negstride', 'readonly', 'offset']
ARGFORMS = ['np0d', 'npscalar']
# whole-number extent / pixel scale / oversampling given as small-width numpy integers (scalars or 0-d arrays) whose
# pairwise products leave the dtype's range although every value fits: (dtype, extent, oversample, pixelscale)
SMALLINTS = [('uint8', '60', '5', '200'), ('uint8', '17', '16', '136'), ('uint8', '200', '2', '250'),
             ('int8', '60', '4', '100'), ('int8', '16', '9', '96'), ('int8', '100', '2', '80'),
             ('uint16', '300', '300', '45000'), ('uint16', '1000', '70', '40000'),
             ('int16', '200', '200', '20000'), ('int16', '5000', '7', '17500')]
# the caller's floating-point error state / warnings filter / spelling of the call must not matter
CALLSTATES = ['errstate-raise', 'errstate-ignore', 'warnings-error', 'positional']
SCALES2 = [-60, -43, -30, 20, 40]
# near-ties: parameters within 1e-6 relative of a special value, but not equal to it
NEAR_UNITS = [('1000001/1000000', '1'), ('999999/1000000', '2'), ('1', '1000001/1000000'), ('1', '2000001/1000000')]
NEAR_ANGLES = ['1/1000000', '89999999/1000000', '180000001/1000000', '359999999/1000000']
NEAR_EXTENTS = ['1/1000', '1000001/1000000', '2999999/1000000']
NEAR_OS = ['1000001/1000000', '1999999/1000000', '1/1000']
# frames at and around 2**20 samples / 1000 rows (thresholds of "large frame" code paths), not divisible by round blocks
BIG_SHAPES = [(1024, 1100), (1000, 1049), (1024, 1024), (1030, 1018), (4100, 257), (1023, 1025)]
# side lengths that are not 2-3-5-7-11-smooth ("slow" FFT lengths): cheap enough for the model ...
PRIME_MODEL = [(1, 13), (13, 1), (2, 13), (13, 2), (1, 17), (17, 1), (1, 19), (19, 1), (1, 23), (23, 1), (3, 13), (2, 17)]
# ... and oracle-only (roll commutation, circular convolution, totals, identity; no model run)
PRIME_ORACLE = [(13, 17), (17, 13), (19, 12), (12, 19), (23, 23), (13, 13), (5, 13), (17, 4), (4, 23), (19, 19), (23, 3),
                (26, 5), (7, 29), (31, 2), (13, 16)]


def corner_img(rng, m, n):
    """faint background and a bright source in a corner, so that the blur wraps around the frame edges"""
    img = [[rng.randint(1, 3) for _ in range(n)] for _ in range(m)]
    r, c_ = rng.choice([(0, 0), (0, n - 1), (m - 1, 0), (m - 1, n - 1)])
    img[r][c_] = rng.randint(40, 90)
    return img


def mk_case(rng, op, m, n, tier, allshifts_max, kind=None, variants=True):
    kind = kind or rng.choice(['sparse', 'background', 'background', 'dense'])
    c = {'op': op, 'img': corner_img(rng, m, n) if kind == 'corner' else rnd_img(rng, m, n, kind), 'kind': kind}
    e = rng.choice(['1', '5/4', '3/2', '2', '3']) if kind == 'corner' else rng.choice(EXTENTS)
    if op == 'pixel':
        c['os'] = (rng.choice(['1', '2', '3', '3/2', '5/2']) if kind == 'corner'
                   else rng.choice(['0', '1', '2', '3', '1', '2', '3/2', '5/2', '1/2']))
    else:
        ps, os_ = rng.choice(UNITS)
        # scale in physical units such that (scale/ps)*os = e samples
        c['ext'] = str(Fraction(e) * Fraction(ps) / Fraction(os_))
        c['ps'] = ps
        c['os'] = os_
        if op == 'smear':
            c['angle'] = rng.choice(ANGLES)
    if m * n <= allshifts_max:
        c['shifts'] = [[a, b] for a in range(m) for b in range(n)]
    else:
        c['shifts'] = [[rng.randint(-m, 2 * m), rng.randint(-n, 2 * n)], [rng.randrange(m), 0],
                       [0, rng.randrange(1, n) if n > 1 else 0]]
    # argument forms: the image as another dtype / a nested list, whole-number parameters as Python ints
    if variants and rng.random() < 0.3:
        dt = rng.choice(DTYPES)
        if dt == 'bool':
            c['img'] = [[1 if v else 0 for v in row] for row in c['img']]
        c['dtype'] = dt
    if variants and rng.random() < 0.3:
        c['intargs'] = True
    if variants and 'intargs' not in c and rng.random() < 0.15:
        c['argform'] = rng.choice(ARGFORMS)
    if variants and rng.random() < 0.2:
        c['container'] = rng.choice(CONTAINERS)
    if variants and c.get('dtype') != 'list' and rng.random() < 0.2:
        c['layout'] = rng.choice(LAYOUTS)
    if variants and c.get('dtype', 'float64') in ('float64', 'float32') and rng.random() < 0.2:
        c['scale2'] = rng.choice(SCALES2)
    return c


def mk_near(rng, op, m, n):
    """a parameter next to, but not at, a special value (0, 1, an integer, a multiple of 90 degrees)"""
    c = mk_case(rng, op, m, n, 'quick', 0, kind=rng.choice(['background', 'dense']), variants=False)
    if op == 'pixel':
        c['os'] = rng.choice(NEAR_OS)
    else:
        t = rng.randrange(3 if op == 'smear' else 2)
        if t == 0:
            ps, os_ = rng.choice(NEAR_UNITS)
            e = rng.choice(['1', '3/2', '2'])
            c['ext'], c['ps'], c['os'] = str(Fraction(e) * Fraction(ps) / Fraction(os_)), ps, os_
        elif t == 1:
            c['ext'], c['ps'], c['os'] = rng.choice(NEAR_EXTENTS), '1', '1'
        else:
            c['angle'] = rng.choice(NEAR_ANGLES)
    c['kind'] = 'near-tie'
    return c


def mk_variant(rng, op, m, n, what):
    """one variant dimension on an otherwise plain case"""
    c = mk_case(rng, op, m, n, 'quick', 0, kind=rng.choice(['background', 'dense', 'sparse']), variants=False)
    if Fraction(c['os'] if op == 'pixel' else c['ext']) == 0:
        c.update(mk_case(rng, op, m, n, 'quick', 0, kind='corner', variants=False))
        c['kind'] = 'background'
    if what in CONTAINERS:
        c['container'] = what
    elif what in LAYOUTS:
        c['layout'] = what
    elif what in ARGFORMS:
        c['argform'] = what
    else:
        c['scale2'] = what
    return c


def mk_smallint(rng, op, m, n):
    c = mk_case(rng, op, m, n, 'quick', 0, kind=rng.choice(['background', 'dense', 'sparse']), variants=False)
    dt, e, o, ps = rng.choice(SMALLINTS)
    if op == 'pixel':
        c['os'] = rng.choice(['2', '3', '5'])
    else:
        c['ext'], c['os'], c['ps'] = e, o, ps
    c['argform'] = dt + rng.choice(['-scalar', '-0d'])
    c['kind'] = 'smallint'
    return c


def mk_callstate(rng, op, m, n, what):
    c = mk_case(rng, op, m, n, 'quick', 0, kind=rng.choice(['background', 'dense', 'sparse', 'corner']), variants=False)
    c['callstate'] = what
    return c


def mk_faint(rng, op, m, n):
    """a faint frame (total 1e-9 .. 1e-20) on which np.abs folds negative lobes up, so that the renormalisation has
    work to do: two point sources under an oblique smear, or jitter well below one sample"""
    c = {'op': op, 'img': [[0] * n for _ in range(m)], 'kind': 'faint'}
    c['img'][rng.randrange(m)][rng.randrange(n)] = rng.randint(1, 9)
    c['img'][rng.randrange(m)][rng.randrange(n)] += rng.randint(1, 9)
    ps, os_ = rng.choice(UNITS)
    e = rng.choice(['3', '5/2', '7/2']) if op == 'smear' else rng.choice(['1/4', '1/3', '1/2'])
    c['ext'], c['ps'], c['os'] = str(Fraction(e) * Fraction(ps) / Fraction(os_)), ps, os_
    if op == 'smear':
        c['angle'] = rng.choice(['30', '17', '-60', '222', '57/2'])
    c['scale2'] = rng.choice([-30, -36, -43, -50, -60, -66])
    c['shifts'] = [[rng.randrange(m), rng.randrange(n)]]
    return c


def mk_zero(rng, op, m, n):
    """the all-zero frame is a non-negative image: every blur returns the all-zero frame (fix a520356)"""
    c = mk_case(rng, op, m, n, 'quick', 0, kind='background', variants=False)
    c['img'] = [[0] * n for _ in range(m)]
    c['kind'] = 'zero'
    return c


def mk_angle_none(rng, m, n):
    c = mk_case(rng, 'smear', m, n, 'quick', 0, kind=rng.choice(['background', 'dense', 'sparse']), variants=False)
    c['angle'] = None
    c['npseed'] = rng.randrange(1000)
    c['shifts'] = []
    return c


def mk_big(rng, op, shape):
    """a frame of about 2**20 samples: flat background and a few point sources (one next to a corner), compact kernel;
    decided by the oracle alone, against the transform pair written as explicit DFT matrices"""
    m, n = shape
    src = [[rng.randrange(m), rng.randrange(n), str(rng.choice([300, 1200, 5000]))] for _ in range(2)]
    src.append([rng.choice([0, 1, m - 1]), rng.choice([0, n - 2, n - 1]), '2500'])
    c = {'op': op, 'proc': {'shape': [m, n], 'bg': rng.choice(['1/4', '2', '10']), 'src': src}, 'kind': 'big',
         'nomodel': True, 'shifts': [[rng.randint(1, m - 1), rng.randint(1, n - 1)]]}
    if op == 'pixel':
        c['os'] = rng.choice(['1', '2', '3'])
    else:
        ps, os_ = rng.choice(UNITS)
        e = rng.choice(['1/2', '5/4', '5/2', '4'])
        c['ext'], c['ps'], c['os'] = str(Fraction(e) * Fraction(ps) / Fraction(os_)), ps, os_
        if op == 'smear':
            c['angle'] = rng.choice(['30', '0', '-60', '135'])
    return c


def rnd_call(rng, op):
    k = {'op': op}
    if op == 'pixel':
        k['os'] = rng.choice(['1', '2', '3', '3/2'])
    else:
        ps, os_ = rng.choice(UNITS)
        k['ext'] = str(Fraction(rng.choice(['1/2', '1', '3/2', '2', '3'])) * Fraction(ps) / Fraction(os_))
        k['ps'], k['os'] = ps, os_
        if op == 'smear':
            k['angle'] = rng.choice(ANGLES)
    return k


def mk_history(rng, m, n):
    """2-4 calls on frames of one shape in one interpreter state, one argument varied at a time; every call is
    compared with the same call made first in a fresh state (and with the reference convolution)"""
    t = rng.randrange(6)
    if t == 0:      # smear, then jitter on the same shape, the same smear again, another angle
        s1 = rnd_call(rng, 'smear')
        s2 = dict(s1, angle=rng.choice([a for a in ANGLES if a != s1['angle']]))
        calls = [s1, rnd_call(rng, 'jitter'), dict(s1), s2]
    elif t == 1:    # jitter with two extents, then the first again
        j1 = rnd_call(rng, 'jitter')
        j2 = dict(j1, ext=str(Fraction(j1['ext']) * 2 + Fraction(j1['ps']) / 3))
        calls = [j1, j2, dict(j1)]
    elif t == 2:    # pixel with two oversampling factors
        p1 = rnd_call(rng, 'pixel')
        p2 = dict(p1, os=rng.choice([o for o in ['1', '2', '3', '5/2'] if o != p1['os']]))
        calls = [p1, p2, dict(p1)]
    elif t == 3:    # same extent in samples, different pixel scale / oversampling
        j1 = rnd_call(rng, rng.choice(['jitter', 'smear']))
        e = Fraction(j1['ext']) / Fraction(j1['ps']) * Fraction(j1['os'])
        ps, os_ = rng.choice(UNITS)
        j2 = dict(j1, ext=str(e * Fraction(ps) / Fraction(os_)), ps=ps, os=os_)
        j3 = dict(j1, os=str(Fraction(j1['os']) * 2))
        calls = [j1, j2, j3, dict(j1)]
    elif t == 4:    # smear distance varied, angle fixed
        s1 = rnd_call(rng, 'smear')
        s2 = dict(s1, ext=str(Fraction(s1['ext']) * 3 / 2 + Fraction(s1['ps']) / 4))
        calls = [s1, s2, dict(s1)]
    else:
        calls = [rnd_call(rng, rng.choice(['pixel', 'jitter', 'smear'])) for _ in range(rng.randint(2, 4))]
    c = {'op': 'history', 'img': rnd_img(rng, m, n, rng.choice(['background', 'dense', 'sparse'])), 'kind': 'history',
         'calls': calls}
    if rng.random() < 0.3:
        dt = rng.choice(DTYPES)
        if dt == 'bool':
            c['img'] = [[1 if v else 0 for v in row] for row in c['img']]
        c['dtype'] = dt
    return c


HIST_SHAPES = [(3, 5), (5, 7), (6, 9), (4, 4), (8, 3), (2, 11), (13, 4), (7, 12), (15, 21), (1, 9)]


def generate(rng, tier):
    ops = ['pixel', 'jitter', 'smear']
    out = []
    if tier == 'quick':
        shapes = [s for s in SHAPES_ALL if cost(*s) <= 20000]
        ncase, allshifts = 150, 12
        fixed = [(2, 2), (2, 3), (3, 2), (2, 12), (12, 2), (3, 5), (5, 3), (4, 6), (6, 4), (3, 12), (12, 4), (7, 7), (8, 8), (5, 10)]
        for (m, n) in fixed:
            for op in ops:
                out.append(mk_case(rng, op, m, n, tier, allshifts))
        out.append(mk_case(rng, 'jitter', 12, 12, tier, allshifts))
        # slow FFT lengths (13, 17, 19, 23, ...) on at least one axis, bright source in a corner
        for op in ops:
            for (m, n) in rng.sample(PRIME_MODEL, 4):
                out.append(mk_case(rng, op, m, n, tier, 0, kind='corner', variants=False))
            for (m, n) in rng.sample(PRIME_ORACLE, 5):
                out.append(dict(mk_case(rng, op, m, n, tier, 0, kind='corner', variants=False), nomodel=True))
        for _ in range(12):
            out.append(mk_history(rng, *rng.choice(HIST_SHAPES)))
        small = [(3, 5), (5, 4), (4, 7), (6, 3), (2, 9), (5, 5), (1, 1), (1, 4)]
        for what in CONTAINERS + LAYOUTS + ARGFORMS + rng.sample(SCALES2, 3):
            for op in rng.sample(ops, 2):
                out.append(mk_variant(rng, op, *rng.choice(small), what))
        for op in ops:
            out.append(mk_variant(rng, op, *rng.choice(small), 'masked'))
            for _ in range(2):
                out.append(mk_near(rng, op, *rng.choice(small[:6])))
        out.append(mk_big(rng, 'jitter', rng.choice(BIG_SHAPES[:2])))
        for op in ops:
            out.append(mk_zero(rng, op, *rng.choice(small)))
            out.append(mk_zero(rng, op, *rng.choice(PRIME_MODEL[:4])))
        for _ in range(3):
            out.append(mk_angle_none(rng, *rng.choice(small[:6])))
        for op in ops:
            for _ in range(2 if op != 'pixel' else 1):
                out.append(mk_smallint(rng, op, *rng.choice(small[:6])))
        for what in CALLSTATES:
            for op in rng.sample(ops, 2):
                out.append(mk_callstate(rng, op, *rng.choice(small), what))
        for op in ('smear', 'smear', 'jitter', 'jitter'):
            out.append(mk_faint(rng, op, *rng.choice(small[:6])))
    else:
        shapes = [s for s in SHAPES_ALL if cost(*s) <= 60000]
        ncase, allshifts = 1200, 25
        # every shape 2..12 x 2..12 once per blur
        for (m, n) in SHAPES_ALL:
            for op in ops:
                out.append(mk_case(rng, op, m, n, tier, allshifts))
        for op in ops:
            for (m, n) in PRIME_MODEL:
                out.append(mk_case(rng, op, m, n, tier, allshifts, kind='corner', variants=False))
            for (m, n) in PRIME_ORACLE:
                for _ in range(2):
                    out.append(dict(mk_case(rng, op, m, n, tier, 0, kind='corner', variants=False), nomodel=True))
        for _ in range(80):
            out.append(mk_history(rng, *rng.choice(HIST_SHAPES)))
        small = [(3, 5), (5, 4), (4, 7), (6, 3), (2, 9), (5, 5), (1, 1), (1, 4), (7, 8), (13, 2)]
        for what in CONTAINERS + LAYOUTS + ARGFORMS + SCALES2:
            for op in ops:
                for _ in range(3):
                    out.append(mk_variant(rng, op, *rng.choice(small), what))
        for op in ops:
            for _ in range(15):
                out.append(mk_near(rng, op, *rng.choice(small)))
        for shape in BIG_SHAPES:
            out.append(mk_big(rng, 'jitter', shape))
        for op in ops:
            for sh in small + PRIME_MODEL[:4]:
                out.append(mk_zero(rng, op, *sh))
        for _ in range(20):
            out.append(mk_angle_none(rng, *rng.choice(small)))
        for op in ops:
            for _ in range(12):
                out.append(mk_smallint(rng, op, *rng.choice(small)))
        for what in CALLSTATES:
            for op in ops:
                for _ in range(3):
                    out.append(mk_callstate(rng, op, *rng.choice(small), what))
        for op in ('smear', 'jitter'):
            for _ in range(15):
                out.append(mk_faint(rng, op, *rng.choice(small[:6] + [(7, 8), (13, 2)])))
        out.append(mk_big(rng, 'jitter', (2049, 2051)))      # > 2**22 samples, no round block size divides it
        for shape in BIG_SHAPES[:3]:
            out.append(mk_big(rng, 'pixel', shape))
            out.append(mk_big(rng, 'smear', shape))
    while len(out) < ncase:
        m, n = rng.choice(shapes)
        out.append(mk_case(rng, rng.choice(ops), m, n, tier, allshifts))
    rng.shuffle(out)         # spread the expensive shapes over the model shards
    for c in out:
        yield c


def classify(c):
    m, n = shape_of(c)
    asp = 'square' if m == n else ('tall' if m > n else 'wide')
    if c['op'] == 'history':
        return 'history/' + '-'.join(k['op'] for k in c['calls'])
    ext = c['os'] if c['op'] == 'pixel' else c['ext']
    tag = f"{c['op']}/{asp}/{c.get('kind', 'corpus')}/{'zero-extent' if Fraction(ext) == 0 else 'blur'}"
    if c['op'] == 'smear' and c['angle'] is None:
        tag += '/angle-none'
    if c.get('nomodel'):
        tag += '/oracle-only'
    if c.get('dtype'):
        tag += '/' + c['dtype']
    if c.get('intargs'):
        tag += '/int-args'
    for k in ('argform', 'container', 'layout', 'callstate'):
        if c.get(k):
            tag += '/' + c[k]
    if c.get('scale2'):
        tag += '/scaled'
    return tag


def nontrivial(c):
    if 'proc' in c:
        return True
    flat = [v for r in c['img'] for v in r]
    if c['op'] == 'history':
        return len(set(flat)) > 1
    ext = c['os'] if c['op'] == 'pixel' else c['ext']
    return Fraction(ext) != 0 and len(set(flat)) > 1


# ------------------------------------------------------------------ parameters as the implementation sees them
def params(c):
    """floats handed to lentil, and their exact rational values handed to the model"""
    def num(s):
        f = Fraction(s)
        v = int(f) if (c.get('intargs') and f.denominator == 1) else float(f)    # same value, int or float
        if c.get('argform') == 'np0d':
            return np.array(v)                   # 0-d array
        if c.get('argform') == 'npscalar':
            return np.float64(v)
        af = c.get('argform') or ''
        if '-' in af and f.denominator == 1:
            dt, form = af.split('-')
            if np.iinfo(dt).min <= int(f) <= np.iinfo(dt).max:
                return np.dtype(dt).type(int(f)) if form == 'scalar' else np.array(int(f), dtype=dt)
        return v
    p = {'os': num(c['os'])}
    if c['op'] != 'pixel':
        p['ext'] = num(c['ext'])
        p['ps'] = num(c['ps'])
    if c['op'] == 'smear' and c['angle'] is None:
        p['angle'] = None                        # random direction (global numpy stream)
    elif c['op'] == 'smear':
        p['angle'] = float(Fraction(c['angle'])) if '-' in (c.get('argform') or '') else num(c['angle'])
        a = np.radians(float(p['angle']))
        p['sn'] = float(np.sin(a))
        p['cs'] = float(np.cos(a))
    return p


def freq_range(n):
    return range(-(n // 2) - 1, n // 2 + 2)


def table(c):
    """(argument, value) pairs for the transcendental function of the blur, at every argument the model can ask for
    (a superset: all frequency numerators of both axes, in both roles)"""
    m, n = shape_of(c)
    p = params(c)
    os_ = exact(p['os'])
    keys = set()
    if c['op'] == 'pixel':
        for a in freq_range(m):
            keys.add(Fraction(a, m) * os_)
        for b in freq_range(n):
            keys.add(Fraction(b, n) * os_)
        fn = lambda q: float(np.sinc(float(q)))
    elif c['op'] == 'jitter':
        s = exact(p['ext']) / exact(p['ps']) * os_
        for a in freq_range(m):
            for b in freq_range(n):
                keys.add(s * s * (Fraction(b, n) ** 2 + Fraction(a, m) ** 2))
        fn = lambda q: float(np.exp(-2 * np.pi ** 2 * float(q)))
    else:
        sn, cs = exact(p['sn']), exact(p['cs'])
        dp = exact(p['ext']) / exact(p['ps'])
        for a in freq_range(m):
            for b in freq_range(n):
                keys.add((sn * Fraction(a, m) + cs * Fraction(b, n)) * dp * os_)
        fn = lambda q: float(np.sinc(float(q)))
    return [(k, grid(fn(k))) for k in sorted(keys)]


# ------------------------------------------------------------------ model side
def enc_img(img):
    out = [len(img), len(img[0])]
    for row in img:
        for v in row:
            out += C.enc_c((Fraction(v), Fraction(0)))
    return out


def enc_table(t):
    out = [len(t)]
    for k, v in t:
        out += C.enc_q(k) + C.enc_q(v)
    return out


def encode(c):
    if c.get('nomodel') or c['op'] == 'history' or (c['op'] == 'smear' and c['angle'] is None):
        return None             # decided by the oracle alone (shapes too expensive for the group ring; call histories)
    m, n = shape_of(c)
    L = lcm(m, n)
    p = params(c)
    t = enc_table(table(c))
    if c['op'] == 'pixel':
        return [1, L] + enc_img(c['img']) + C.enc_q(exact(p['os'])) + t
    if c['op'] == 'jitter':
        return [2, L] + enc_img(c['img']) + C.enc_q(exact(p['ext'])) + C.enc_q(exact(p['ps'])) + C.enc_q(exact(p['os'])) + t
    return ([3, L] + enc_img(c['img']) + C.enc_q(exact(p['ext'])) + C.enc_q(exact(p['sn'])) + C.enc_q(exact(p['cs']))
            + C.enc_q(exact(p['ps'])) + C.enc_q(exact(p['os'])) + t)


def enc_qarr(a):
    a = np.asarray(a, dtype=float)
    out = [a.shape[0], a.shape[1]]
    for v in a.ravel():
        out += C.enc_q(exact(v))
    return out


_BIN = []


def model_renorm(absd, img):
    """second model stage: out * sum(img) / sum(out) on the rationals, as executed (out itself when sum(out) = 0)"""
    if not _BIN:
        _BIN.append(C.build_model(MODEL))
    import subprocess
    inp = ' '.join(str(int(x)) for x in [5] + enc_qarr(absd) + enc_qarr(img)) + '\n'
    pr = subprocess.run([_BIN[0]], input=inp, stdout=subprocess.PIPE, stderr=subprocess.PIPE, text=True, timeout=600)
    if pr.returncode != 0:
        raise RuntimeError('model binary failed in the renormalisation stage: ' + pr.stderr[-300:])
    res = [int(t, 2) for t in pr.stdout.split()]
    rd = C.Reader(res, 1)
    if rd.z() != 0:
        raise ValueError('renorm stage rejected its input')
    return [[float(v) for v in row] for row in rd.arr(rd.q)]


def decode(c, ints):
    m, n = shape_of(c)
    L = lcm(m, n)
    if len(ints) != 3 + 4 * L * m * n:
        raise ValueError('model returned a poisoned value (an argument was missing from the oracle table)')
    if ints[0] != 0:
        return {'err': C.ERRNAMES.get(ints[1], '?')}
    # group-ring elements -> complex numbers: sum_k c_k exp(-2 pi i k / L)
    nums, dens = ints[3::2], ints[4::2]
    num = np.array([a / b for a, b in zip(nums, dens)], dtype=float).reshape(m, n, L, 2)
    w = np.exp(-2j * np.pi * np.arange(L) / L)
    pre = (num[..., 0] + 1j * num[..., 1]) @ w
    absd = np.abs(pre)                      # np.abs: applied here, between the two model stages
    if c['op'] == 'pixel':
        return {'out': absd.tolist()}
    return {'out': model_renorm(absd, get_img(c))}


# ------------------------------------------------------------------ implementation side
def call_plain(lentil, c, img, p):
    if c.get('callstate') == 'positional':
        if c['op'] == 'pixel':
            return lentil.detector.pixel(img, oversample=p['os'])        # (the other calls spell it positionally)
        if c['op'] == 'jitter':
            return lentil.jitter(img, p['ext'], p['ps'], p['os'])
        return lentil.smear(img, p['ext'], p['angle'], p['ps'], p['os'])
    if c['op'] == 'pixel':
        return lentil.detector.pixel(img, p['os'])
    if c['op'] == 'jitter':
        return lentil.jitter(img, p['ext'], pixelscale=p['ps'], oversample=p['os'])
    return lentil.smear(img, p['ext'], angle=p['angle'], pixelscale=p['ps'], oversample=p['os'])


class CallerStateChanged(Exception):
    pass


def call(lentil, c, img, p):
    """the call, made under the caller state the case asks for; the library must leave that state as it found it"""
    import warnings
    st = c.get('callstate')
    if st in ('errstate-raise', 'errstate-ignore'):
        mode = st.split('-')[1]
        with np.errstate(over=mode, invalid=mode, divide=mode):
            before = np.geterr()
            out = call_plain(lentil, c, img, p)
            if np.geterr() != before:
                raise CallerStateChanged()
        return out
    if st == 'warnings-error':
        with warnings.catch_warnings():
            warnings.simplefilter('error')
            nfilters = len(warnings.filters)
            out = call_plain(lentil, c, img, p)
            if len(warnings.filters) != nfilters:
                raise CallerStateChanged()
        return out
    return call_plain(lentil, c, img, p)


def fresh_lentil():
    """lentil imported anew: every module-level cache / memoised grid of the package starts empty, so the result of a
    case never depends on the calls made for earlier cases (replays are self-contained)"""
    import sys
    for k in list(sys.modules):
        if k == 'lentil' or k.startswith('lentil.'):
            del sys.modules[k]
    return C.import_lentil()


class Frame(np.ndarray):
    """an ndarray subclass that carries metadata"""
    def __new__(cls, a, meta=None):
        obj = np.asarray(a).view(cls)
        obj.meta = meta
        return obj

    def __array_finalize__(self, obj):
        self.meta = getattr(obj, 'meta', None)


class Arr(list):
    """a large result: behaves as its array for numpy, is summarised when a replay is written"""
    def __init__(self, a):
        a = np.asarray(a)
        list.__init__(self, [f'<array {a.shape}>', float(np.min(a)), float(np.max(a)), float(np.sum(a))])
        self.a = a

    def __array__(self, dtype=None, copy=None):
        return self.a if dtype is None else self.a.astype(dtype)


def mask_of(a):
    """the flags of the 'masked' container: a fixed pattern plus the brightest sample (so that a masked sample is
    non-zero); never everything"""
    m, n = a.shape
    i, j = np.indices((m, n))
    mk = ((3 * i + 5 * j) % 4 == 0)
    mk[np.unravel_index(int(np.argmax(a)), a.shape)] = True
    if mk.all():
        mk[-1, -1] = False
    return mk


def mk_img(c, arr=None):
    """the image in the form the case asks for: float64 (default) or another dtype, scaled by a power of two, in a
    memory layout, inside a container (ndarray subclass) or as a nested list"""
    a = get_img(c) if arr is None else arr
    if c.get('scale2'):
        a = a * 2.0 ** c['scale2']
    dt = c.get('dtype', 'float64')
    if dt == 'list':
        return [[float(v) for v in row] for row in a.tolist()]
    a = a.astype({'float64': np.float64, 'float32': np.float32, 'int64': np.int64, 'uint8': np.uint8,
                  'bool': np.bool_}[dt])
    m, n = a.shape
    lay = c.get('layout')
    if lay == 'F':
        a = np.asfortranarray(a)
    elif lay == 'strided':
        buf = np.zeros((2 * m, 3 * n), dtype=a.dtype)
        buf[::2, ::3] = a
        a = buf[::2, ::3]
    elif lay == 'negstride':
        a = a[::-1, ::-1].copy()[::-1, ::-1]
    elif lay == 'offset':
        buf = np.zeros((m + 2, n + 3), dtype=a.dtype)
        buf[1:-1, 2:-1] = a
        a = buf[1:-1, 2:-1]
    elif lay == 'readonly':
        a = a.copy()
        a.setflags(write=False)
    con = c.get('container')
    if con == 'masked':
        a = np.ma.MaskedArray(a, mask=mask_of(np.asarray(a, dtype=float)))
    elif con == 'masked_nomask':
        a = np.ma.MaskedArray(a)
    elif con == 'matrix':
        a = np.matrix(a)
    elif con == 'subclass':
        a = Frame(a, meta={'exposure': 3})
    elif con == 'memmap':
        import tempfile
        f = tempfile.TemporaryFile()
        mm = np.memmap(f, dtype=a.dtype, mode='w+', shape=a.shape)
        mm[...] = a
        a = mm
    return a


def snapshot(x):
    """the caller's memory behind an argument: the samples (the whole underlying buffer for views) and the flags"""
    if isinstance(x, list):
        return None
    if isinstance(x, np.ma.MaskedArray):
        return [np.array(x.data, copy=True), np.array(np.ma.getmaskarray(x), copy=True)]
    base = x
    while isinstance(getattr(base, 'base', None), np.ndarray):
        base = base.base
    return [np.array(np.asarray(base), copy=True)]


def untouched(x, snap):
    if snap is None:
        return True
    now = snapshot(x)
    return all(a.shape == b.shape and a.tobytes() == b.tobytes() for a, b in zip(snap, now))


def as_result(out, c=None):
    o = np.asarray(out)
    kind = o.dtype.kind
    if c is not None and c.get('scale2') and kind in 'fc':
        o = o / 2.0 ** c['scale2']             # exact: the result for the unscaled image
    return {'out': Arr(np.array(o, copy=True)) if o.size > 100000 else o.tolist(), 'dtype_kind': kind}


def run_history(c):
    calls = [dict(k, intargs=c.get('intargs', False)) for k in c['calls']]
    lentil = fresh_lentil()
    img = mk_img(c)                      # ONE object handed to every call of the history
    seq = []
    held = []
    for k in calls:
        try:
            raw = call(lentil, k, img, params(k))
            seq.append(as_result(raw, c))
            held.append((raw, np.array(np.asarray(raw), copy=True)))
        except Exception as e:
            seq.append({'err': type(e).__name__})
            held.append(None)
    # every returned array is still held by the caller: it must be what it was when it was returned
    for r, h in zip(seq, held):
        if h is not None:
            r['kept'] = bool(np.array_equal(np.asarray(h[0]), h[1], equal_nan=True))
    alone = []
    for k in calls:                      # the same call made first in a fresh state
        lentil = fresh_lentil()
        try:
            alone.append(as_result(call(lentil, k, mk_img(c), params(k)), c))
        except Exception as e:
            alone.append({'err': type(e).__name__})
    return {'seq': seq, 'alone': alone}


def run_impl(c):
    if c['op'] == 'history':
        return run_history(c)
    lentil = fresh_lentil()
    img = get_img(c)
    p = params(c)
    res = {}
    if c['op'] == 'smear' and c['angle'] is None:
        np.random.seed(c.get('npseed', 1))       # the direction is drawn from numpy's global stream

    def one(image, pp):
        try:
            return as_result(call(lentil, c, image, pp), c)['out']
        except Exception as e:
            return {'err': type(e).__name__}
    try:
        arg = mk_img(c)
        snap = snapshot(arg)
        raw = call(lentil, c, arg, p)
        res.update(as_result(raw, c))
        res['input_untouched'] = untouched(arg, snap)
        keep = np.array(np.asarray(raw), copy=True)
    except Exception as e:
        return {'err': type(e).__name__}
    # circular translations of the input
    res['rolled'] = [one(mk_img(c, np.roll(img, tuple(s), axis=(0, 1))), p) for s in c.get('shifts', [])]
    # the first result is still held by the caller: later calls must not have changed it ...
    res['result_kept'] = bool(np.array_equal(np.asarray(raw), keep, equal_nan=True))
    # ... nor does blurring the result itself (b = blur(blur(a))) ...
    if 'proc' not in c:
        try:
            call(lentil, c, raw, p)
            res['result_kept_chained'] = bool(np.array_equal(np.asarray(raw), keep, equal_nan=True))
        except Exception as e:
            res['result_kept_chained'] = {'err': type(e).__name__}
    # ... and what the caller then does to its own result must not leak into later calls
    try:
        if isinstance(raw, np.ndarray) and raw.flags.writeable:
            raw[...] = -7.0
    except Exception:
        pass
    # the same call again after the others: a fixed convolution does not depend on the calls made before
    res['again'] = one(mk_img(c), p)
    # zero extent
    p0 = dict(p)
    if c['op'] == 'pixel':
        p0['os'] = 0.0
    else:
        p0['ext'] = 0.0
    res['zero'] = one(mk_img(c), p0)
    # the same extent expressed in samples
    if c['op'] != 'pixel':
        ps_ = dict(p)
        ps_['ext'] = float(Fraction(c['ext']) / Fraction(c['ps']) * Fraction(c['os']))
        ps_['ps'] = 1
        ps_['os'] = 1
        res['samples'] = one(mk_img(c), ps_)
    else:
        o = Fraction(c['os'])
        if o.denominator == 1 and o >= 1 and 'proc' not in c and not c.get('scale2') and np.any(img):   # (rescale of an all-zero frame is C17's 0/0)
            try:
                a = lentil.detector.pixelate(mk_img(c), int(o))
                b = lentil.rescale(lentil.detector.pixel(mk_img(c), int(o)), 1 / int(o), order=3, mode='nearest', unitary=True)
                res['pixelate'] = [np.asarray(a).tolist(), np.asarray(b).tolist()]
            except Exception as e:
                res['pixelate'] = {'err': type(e).__name__}
    return res


def arr_close(a, b, tol=TOL, extra=0.0):
    a = np.asarray(a, dtype=float)
    b = np.asarray(b, dtype=float)
    if a.shape != b.shape:
        return f'shapes differ: {a.shape} vs {b.shape}'
    if not np.all(np.isfinite(a)):
        return 'non-finite values'
    d = np.max(np.abs(a - b)) if a.size else 0.0
    if d > tol * (1 + np.max(np.abs(b))) + extra:
        i = np.unravel_index(np.argmax(np.abs(a - b)), a.shape)
        return f'max difference {d:.3g} at index {tuple(int(x) for x in i)}: {a[i]} vs {b[i]}'
    return None


def compare(c, impl, model):
    if ('err' in impl) != ('err' in model):
        return f'implementation {impl.get("err", "returned a value")}, model {model.get("err", "returned a value")}'
    if 'err' in impl:
        return None
    msg = arr_close(impl['out'], model['out'])
    return f'{c["op"]}: {msg}' if msg else None


# ------------------------------------------------------------------ direct oracle (no model, no np.fft)
def dft_matrix(n, sign):
    k = np.arange(n)
    return np.exp(sign * 2j * np.pi * ((np.outer(k, k) % n) / n))


def freqs(n):
    """signed frequencies of the n-point grid, cycles per sample: k/n for k <= (n-1)//2, (k-n)/n above"""
    return np.array([(k if 2 * k < n else k - n) / n for k in range(n)])


def transfer(c, m, n):
    """the documented transfer function on the (m, n) frequency grid: rows = y frequencies, columns = x frequencies"""
    fy = freqs(m)[:, None] * np.ones((1, n))
    fx = np.ones((m, 1)) * freqs(n)[None, :]
    if c['op'] == 'pixel':
        o = fl(c['os'])
        return np.sinc(fy * o) * np.sinc(fx * o)
    e = float(Fraction(c['ext']) / Fraction(c['ps']) * Fraction(c['os']))      # extent in samples
    if c['op'] == 'jitter':
        return np.exp(-2 * np.pi ** 2 * e ** 2 * (fx ** 2 + fy ** 2))
    a = math.radians(fl(c['angle']))
    return np.sinc((math.cos(a) * fx + math.sin(a) * fy) * e)


def circ_conv(img, h):
    m, n = img.shape
    out = np.zeros((m, n), dtype=complex)
    for x in range(m):
        for y in range(n):
            if img[x, y] != 0:
                out += img[x, y] * np.roll(h, (x, y), axis=(0, 1))
    return out


def check_out(c, impl):
    """the clauses that concern one call: shape, real non-negative values, total (jitter / smear), equality with the
    circular convolution with the documented transfer function where that convolution is non-negative"""
    img = get_img(c)
    m, n = img.shape
    if 'err' in impl:
        return f'{c["op"]} raised {impl["err"]} on a {m}x{n} image'
    out = np.asarray(impl['out'])
    if out.shape != (m, n):
        return f'shape not preserved: input {(m, n)}, output {out.shape}'
    if impl.get('dtype_kind') != 'f':
        return f'output is not a real array (dtype kind {impl.get("dtype_kind")})'
    out = out.astype(float)
    if not np.all(np.isfinite(out)):
        return 'output contains non-finite values'
    if np.min(out) < 0:
        return f'negative output value {np.min(out)}'
    scale = 1 + float(np.max(np.abs(img)))
    if c['op'] != 'pixel':
        if abs(float(np.sum(out)) - float(np.sum(img))) > TOL * m * n * scale:
            return f'total not kept: sum(img) = {np.sum(img)}, sum(out) = {np.sum(out)}'
    if c['op'] == 'smear' and c.get('angle', 0) is None:
        return None                              # random direction: only the clauses that hold for every angle
    T = transfer(c, m, n)
    if abs(T[0, 0] - 1) > 1e-12:
        return 'oracle transfer function has no unit gain (harness bug)'
    Wm, Wn = dft_matrix(m, +1), dft_matrix(n, +1)
    h = (Wm @ T.astype(complex) @ Wn) / (m * n)                 # inverse DFT of T, by matrices
    F = dft_matrix(m, -1) @ img.astype(complex) @ dft_matrix(n, -1)
    if m * n <= 2048:
        cc = circ_conv(img, h)               # brute-force circular convolution
    else:
        cc = (Wm @ (F * T) @ Wn) / (m * n)   # large frames: the same sum, grouped by frequency
    nyq = 0.0
    if m % 2 == 0:
        nyq += float(np.sum(np.abs(F[m // 2, :] * T[m // 2, :])))
    if n % 2 == 0:
        nyq += float(np.sum(np.abs(F[:, n // 2] * T[:, n // 2])))
    nyq /= (m * n)
    if np.min(cc.real) >= 0:
        tot = float(np.sum(img))
        bound = nyq * (1 + m * n * float(np.max(np.abs(cc))) / tot) if (c['op'] != 'pixel' and tot > 0) else nyq
        msg = arr_close(out, cc.real, extra=bound)
        if msg:
            return ('output differs from the (non-negative) circular convolution with the documented transfer function '
                    f'by more than the unpaired Nyquist contribution {bound:.3g}: {msg}')
        if abs(float(np.sum(out)) - tot) > TOL * m * n * scale + m * n * bound:
            return f'total not kept although the convolution is non-negative: {tot} -> {np.sum(out)}'
    return None


def describe(k):
    return ', '.join(f'{a}={k[a]}' for a in ('op', 'ext', 'angle', 'ps', 'os') if a in k)


def oracle_history(c, impl):
    for i, (k, r, r0) in enumerate(zip(c['calls'], impl['seq'], impl['alone'])):
        sub = dict(k, img=c['img'])
        msg = check_out(sub, r)
        if msg:
            return f'call {i + 1} of the history ({describe(k)}): {msg}'
        if r.get('kept') is False:
            return (f'the array returned by call {i + 1} of the history ({describe(k)}) was changed by the later calls '
                    f'while the caller still held it')
        if 'err' in r0:
            return f'call {i + 1} made alone ({describe(k)}) raised {r0["err"]}'
        msg = arr_close(r['out'], r0['out'])
        if msg:
            return (f'call {i + 1} of the history ({describe(k)}) differs from the same call made first in a fresh '
                    f'interpreter state: {msg}')
    return None


def oracle(c, impl):
    if c['op'] == 'history':
        return oracle_history(c, impl)
    img = get_img(c)
    m, n = img.shape
    msg = check_out(c, impl)
    if msg:
        return msg
    if impl.get('input_untouched') is False:
        return 'the image passed by the caller was modified by the call'
    if impl.get('result_kept') is False:
        return 'the array returned by the call was changed by later calls on frames of the same shape (it is not the caller\'s own)'
    rk = impl.get('result_kept_chained')
    if isinstance(rk, dict):
        return f'raised {rk["err"]} when the result was blurred again'
    if rk is False:
        return 'blurring the returned array again changed it (b = blur(blur(a)) overwrote blur(a))'
    if c['op'] == 'smear' and c['angle'] is None:
        z = impl.get('zero')
        if isinstance(z, dict):
            return f'raised {z["err"]} at zero extent'
        msg = arr_close(z, img)
        return f'zero extent is not the identity: {msg}' if msg else None
    out = np.asarray(impl['out'], dtype=float)
    # commutation with circular translation
    for s, r in zip(c.get('shifts', []), impl.get('rolled', [])):
        if isinstance(r, dict):
            return f'raised {r["err"]} on the image translated by {s}'
        msg = arr_close(r, np.roll(out, tuple(s), axis=(0, 1)))
        if msg:
            return f'does not commute with the circular translation {s}: {msg}'
    # the same call repeated after the translated ones
    ag = impl.get('again')
    if ag is not None:
        if isinstance(ag, dict):
            return f'raised {ag["err"]} when the call was repeated'
        msg = arr_close(ag, out)
        if msg:
            return f'the same call repeated after other calls on the same shape gives another result: {msg}'
    # zero extent is the identity
    z = impl.get('zero')
    if isinstance(z, dict):
        return f'raised {z["err"]} at zero extent'
    msg = arr_close(z, img)
    if msg:
        return f'zero extent is not the identity: {msg}'
    if c['op'] != 'pixel':
        sm = impl.get('samples')
        if isinstance(sm, dict):
            return f'raised {sm["err"]} with the extent given in samples'
        msg = arr_close(sm, out)
        if msg:
            return (f'extent {c["ext"]} at pixel scale {c["ps"]}, oversampling {c["os"]} differs from the same extent '
                    f'in samples: {msg}')
    # pixelate = pixel then rescale
    pz = impl.get('pixelate')
    if pz is not None:
        if isinstance(pz, dict):
            return f'pixelate raised {pz["err"]}'
        msg = arr_close(pz[0], pz[1])
        if msg:
            return f'pixelate is not pixel followed by rescale(1/oversample): {msg}'
    return None



# ------------------------------------------------------------------ WP-T3: translation layer (source -> Gallina)
# An ADDITIONAL tie (DESIGN 10.3): harness/gen_src.py (suite 'C19') translates the lengths handed to np.fft.fftfreq (which axis each frequency vector is built from) in detector.pixel, convolvable.jitter and convolvable.smear
# from the CURRENT source text into coq/theories/Gen/BlurSrc.v; Proofs/BlurSrcP.v proves every translated term equal to the model for
# all integers; Properties/C19Src.v states it.  Policy: a function the translator refuses is only reported; a
# translated function whose equivalence lemma no longer compiles is compared with the model mirror on sampled points,
# an exhaustive small box and random points - a found disagreement is a VIOLATION with that witness (replayable: op
# 'src'), none found is reported as unproved.  The build of C19Src happens here, never in COQ_TARGETS.
def extra(tier, rng):
    from .. import gen_src as G
    return G.run_layer('C19', ID, tier, rng, C)


def _wrap_src_replay():
    from .. import gen_src as G
    return G.wrap_replay(run_impl, oracle, C)


run_impl, oracle = _wrap_src_replay()
