"""C10 - calls are pure: no hidden mutation of inputs and no dependence on call history.

The tie is a HISTORY correspondence: random sequences of public lentil calls on shared arrays/objects.
Implementation side (run_impl): every caller-visible array is byte-snapshotted (and frozen where the
generator says so); after each call the harness records which buffers/objects changed, which buffers the
result is made of (aliasing), whether the global numpy generator moved, and whether the result equals
(1) the same call repeated on arguments rebuilt from their public state, (2) the same call made first in
a fresh process, (3) for seeded calls, the same call under a different global generator state.
Model side: the same history is run through the extracted Coq model (Model/Purity.v), which returns per
step the buffers/objects it says may be written and the buffer ids of the result.
oracle(): the snapshot / generator / repeatability predicates themselves (no model).
compare(): observed writes must be predicted, observed aliasing must be predicted.
"""
import os
import pickle
import struct
import subprocess
import sys
from fractions import Fraction

import numpy as np

from .. import common as C

ID = 'C10'
MODEL = 'c10'
RUNFUN = 'run'
COQ_TARGETS = ['theories/Properties/C10.vo', 'theories/Extract/RunC10.vo']
DESIGN_REF = 'DESIGN.md section 6, C10'
TECHNIQUE = ('Coq proof about an explicit heap/object/cache/generator model of the public operations (frame, cache '
             'invariant by induction over histories, hidden-state independence, tilt confluence) + history '
             'correspondence: the extracted model and lentil run the same random call histories on shared, frozen, '
             'byte-snapshotted arrays; results re-computed on rebuilt arguments, in fresh processes and under '
             'other generator states')
LEVEL_TEXT = ('Theorems in coq/theories/Properties/C10.v, for every heap, every operation and every history of the model: '
              'writes are fresh or documented in-place (arrays and objects), frozen arrays never change, every reachable '
              'cache maps each key to coords(key) in private buffers that no operation writes, hence dft2 results are '
              'functions of their arguments in every history and equal the fresh-state result; operations without a '
              'cache phase are unaffected by cache and generator; seeded operations neither advance nor read the '
              'generator; planes with equal (amplitude, mask, opd, per-segment tilt sum) multiply/propagate identically.')
LEVEL_NOTE = ('The frame and generator theorems are only as good as the aliasing facts written into Model/Purity.v '
              '(which argument is aliased, copied, written in place; which hidden state is read): exactly those facts '
              'are what the history correspondence observes on every run (a write or an alias the model does not '
              'predict is a violation with the history as replay). Values are opaque kernels in the model; value-level '
              'history independence of the code is decided by the oracle (repeat / fresh process), not by the proof. '
              'fit_tilt(inplace=True) rebinds plane.opd to a new array (documented change of the plane); it does not write '
              'the OPD array the caller handed to the constructor - a write-through would be an undocumented write.')
TRUSTED = ['Coq 8.16.1 kernel (coqc; coqchk in the thorough tier)',
           'extraction with ExtrOcamlBasic only; ocaml/driver.ml',
           'harness/props/c10.py: history generator, snapshotting, buffer identity (np.shares_memory), rebuild of '
           'arguments from public attributes, fork server for fresh-process calls',
           'the aliasing facts of Model/Purity.v (observed through the tie)',
           'numpy: setflags(write=False) makes every in-place write raise; tobytes() snapshots']
ASSUMPTIONS = ['in-place writes through plane.mask keep the mask binary and its bounding box (Plane derives _slice from the mask '
               'at construction and has no mask setter: a caller who moves the support in place gets stale slices - noted, '
               'not raised)',
               'histories use the generated operation vocabulary (see RULE); arrays have more than one element; OPD arrays '
               'are float; out=/scratch buffers are complex and of the right shape',
               'the immediate repeat of a call runs in a fork of the case process (it sees all hidden state built up so '
               'far and does not perturb it); the fresh-state call runs in a fork of a pristine interpreter',
               'planes/wavefronts/spectra are rebuilt for the repeat and fresh-process checks from their public '
               'attributes (amplitude, opd, mask, pixelscale, focal_length, tilt list; wavefront fields; wave/value/units)',
               'result comparison tolerance 1e-9 relative (BLAS/FFT are deterministic here; the tolerance only absorbs '
               'the two tilt-fit orders of the confluence cases)']
RULE = ('every case runs in its own process forked from a pristine interpreter (replays are self-contained); '
        'histories of 10..30 (quick) / 30..100 (thorough) steps over {array creation (frozen or not; float64/float32/int64/'
        'uint16/bool/complex), caller pokes and in-place refills, writes through plane.amplitude/.opd/.mask, Wavefront(tilt=), '
        'multiply by Tilt / DispersiveTilt planes with re-use of the input wavefront, Plane.resample, zernike_basis/fit/remove/'
        'compose/coordinates with default and supplied coordinates, helper.mesh, rectangle/circle/hexagon on repeated shapes, '
        'Plane/Pupil/Image construction, attribute updates, fit_tilt(inplace=T/F), copy, rescale, Wavefront, multiply, '
        'propagate_dft, propagate_fft(scratch), Wavefront.insert/field/intensity, dft2/idft2 with repeated shapes and '
        'out=, adc, collect_charge(+bayer), pixel, pixelate, charge_diffusion, jitter, smear, util.rescale, rebin, '
        'shot/read noise, dark current, power_spectrum with seeds, smear(angle=None), cosmic_rays, Spectrum '
        'construction/arithmetic/sample/to/trim/resample}; plus directed cases: cache poisoning, plane confluence, plane '
        'updates (amplitude/opd/mask by setter and in place, fits, copies, resamples between multiplies at a repeated '
        'wavelength), tilt re-use, memo-prone functions (2-9 calls with one argument varied, buffers refilled in place), '
        'workspace re-use (one propagate_fft scratch over wavelengths/oversampling, one dft2 out= over shifts/alphas; the '
        'fresh-process call gets a workspace with other previous contents), no-op parameter values (rescale(1), resample to '
        'the own pixelscale, rebin/rescale/pad/window by 1 or 0, neutral spectrum arithmetic) with an edit probe on every '
        'plane documented as new, ndarray subclasses as inputs (MaskedArray, matrix, metadata subclass, memmap: caller memory '
        'untouched and result equal to that for the plain ndarray), Tilt/DispersiveTilt planes (incl. numerically solved '
        'order-2 models) kept in variables and re-used over wavelengths, reads of multi-field wavefronts; '
        'non-trivial = the history contains an in-place call or a repeated dft2 shape or a frozen argument')

TOL = 1e-9
DX = 1e-3
DU = 5e-5
FOCAL = 1.0
WLS = [5e-7, 6e-7]

# ------------------------------------------------------------------ deterministic array contents
def pat(shape, seed):
    idx = np.indices(shape)
    acc = np.zeros(shape, dtype=np.int64) + seed * 5
    for k, ix in enumerate(idx):
        acc = acc + ix * (7 + 6 * k)
    if len(shape) >= 2:
        acc = acc + idx[-1] * idx[-2]
    return (acc % 11) / 10.0


def disc(n):
    r, c = np.indices((n, n))
    ctr = n // 2
    return (((r - ctr) ** 2 + (c - ctr) ** 2) <= (n / 2 - 0.6) ** 2).astype(float)


def make_array(kind, n, seed):
    if kind == 'amp':
        return disc(n) * (0.5 + pat((n, n), seed))
    if kind == 'opd':
        r, c = np.indices((n, n))
        return 1e-8 * (pat((n, n), seed) + 0.3 * (r - n // 2) * ((seed % 3) - 1) + 0.2 * (c - n // 2))
    if kind == 'mask':
        return disc(n) * (1.0 + (seed % 2))          # 0/1 or 0/2: a non-binary mask shows in-place binarisation
    if kind == 'maski':
        return (disc(n) * (1 + (seed % 2))).astype(np.int64)
    if kind == 'mask3':
        d = disc(n)
        m = np.zeros((2, n, n))
        m[0, :, : n // 2] = d[:, : n // 2] * (1.0 + (seed % 2))
        m[1, :, n // 2:] = d[:, n // 2:]
        return m
    if kind == 'img':
        a = np.floor(pat((n, n), seed) * 400.0 + 3.0)
        return a.astype([np.float64, np.float64, np.float32, np.int64, np.float64, np.uint16][seed % 6])   # each supported dtype
    if kind == 'cube':
        return np.floor(pat((3, n, n), seed) * 50.0 + 1.0)
    if kind == 'cplx':
        return pat((n, n), seed) + 1j * pat((n, n), seed + 3)
    if kind == 'gain2':
        return 0.5 + pat((n, n), seed)
    if kind == 'gain1':
        return np.array([1e-4 * (1 + seed % 3), 0.5 + 0.1 * (seed % 4)])
    if kind == 'qe':
        return np.array([0.2, 0.5, 0.9]) * (0.5 + 0.1 * (seed % 5))
    if kind == 'wv3':
        return np.array([500.0, 600.0, 700.0]) + (seed % 4) * 10.0
    if kind == 'specw':
        return 400.0 + 50.0 * np.arange(7) + (seed % 3)
    if kind == 'specv':
        v = pat((7,), seed) + 0.1
        if seed % 3 == 0:
            v[0] = 0.0
            v[-1] = 0.0
        return v
    if kind == 'buf_f':
        return np.zeros((n, n)) + (seed % 3)
    if kind == 'buf_c':
        return np.zeros((n, n), dtype=complex) + (seed % 3)
    if kind == 'scratch':
        return np.zeros((24, 24), dtype=complex)
    if kind == 'specw2':     # wavelengths whose nm -> um -> nm round trip is inexact
        return np.array([410.0, 470.0, 570.0, 690.0, 700.0, 830.0, 910.0]) + (seed % 2) * 0.3
    if kind == 'wv3b':
        return np.array([410.0, 570.0, 700.0])
    if kind == 'bmask':      # boolean sub-aperture buffer, off-centre disc whose position depends on the seed
        r, c = np.indices((n, n))
        r0, c0 = n // 2 + (seed % 3) - 1, n // 2 + ((seed // 3) % 3) - 1
        return ((r - r0) ** 2 + (c - c0) ** 2) <= (n / 2 - 1.6) ** 2
    if kind == 'rho':
        r, c = np.indices((n, n))
        return np.hypot(r - n / 2 + 0.5 * (seed % 2), c - n / 2 - 1.0) / (n / 2)
    if kind == 'theta':
        r, c = np.indices((n, n))
        return np.arctan2(-(r - n / 2 + 0.5 * (seed % 2)), c - n / 2 - 1.0) + 0.3
    raise ValueError(kind)


# ------------------------------------------------------------------ ndarray subclasses as legal array_like inputs
class MetaArray(np.ndarray):
    """an ndarray subclass that carries metadata along (exposure time, units, ...)"""
    def __new__(cls, a, info='meta'):
        o = np.asarray(a).view(cls)
        o.info = info
        return o

    def __array_finalize__(self, obj):
        self.info = getattr(obj, 'info', None)


_MM_FILES = []


def wrap_sub(a, sub):
    """present the (already frozen or writable) plain array a as an instance of an ndarray subclass on the SAME memory"""
    if not sub:
        return a
    if sub == 'masked':
        return np.ma.MaskedArray(a, copy=False)
    if sub == 'matrix':
        return np.matrix(a, copy=False)
    if sub == 'meta':
        return MetaArray(a)
    if sub == 'memmap':
        import tempfile
        fd, path = tempfile.mkstemp(prefix='lv-c10-mm-', dir='/var/tmp')
        os.close(fd)
        _MM_FILES.append(path)
        m = np.memmap(path, dtype=a.dtype, mode='w+', shape=a.shape)
        m[...] = a
        m.flush()
        if not a.flags.writeable:
            del m
            m = np.memmap(path, dtype=a.dtype, mode='r', shape=a.shape)
        return m
    raise ValueError(sub)


def sub_of(a):
    if isinstance(a, np.ma.MaskedArray):
        return 'masked'
    if isinstance(a, np.memmap):
        return 'memmap'
    if isinstance(a, np.matrix):
        return 'matrix'
    if isinstance(a, MetaArray):
        return 'meta'
    return None


def plain(a):
    """the plain ndarray on the memory of a (MaskedArray: its data)"""
    return np.asarray(a.data if isinstance(a, np.ma.MaskedArray) else a)


def cleanup_mm():
    while _MM_FILES:
        try:
            os.remove(_MM_FILES.pop())
        except OSError:
            pass


SUBS = ['masked', 'matrix', 'meta', 'memmap']
SUB_KINDS = ('img', 'amp', 'opd', 'cplx')

# ------------------------------------------------------------------ history generation
REFILL = ('amp', 'opd', 'mask', 'bmask', 'img', 'cplx', 'rho', 'theta')


class Gen:
    def __init__(self, rng, n):
        self.rng = rng
        self.n = n
        self.steps = []
        self.regs = []
        self.seed = 0

    def emit(self, step, ty):
        self.steps.append(step)
        self.regs.append(ty)
        return len(self.regs) - 1

    def find(self, pred):
        return [i for i, t in enumerate(self.regs) if pred(t)]

    def arr(self, kind, n=None, frozen=None, fresh=False, writable=False):
        n = self.n if n is None else n
        rng = self.rng
        cands = self.find(lambda t: t['t'] == 'A' and t['kind'] == kind and t['n'] == n
                          and (not writable or not t['frozen']) and (frozen is None or t['frozen'] == frozen))
        if cands and not fresh and rng.random() < 0.75:
            return rng.choice(cands)
        if frozen is None:
            frozen = (not writable) and rng.random() < 0.6
        self.seed += 1
        st = {'f': 'arr', 'kind': kind, 'n': n, 'seed': self.seed + rng.randint(0, 50), 'frozen': bool(frozen)}
        if kind in SUB_KINDS and rng.random() < 0.2:
            st['sub'] = rng.choice(SUBS)
        return self.emit(st, {'t': 'A', 'kind': kind, 'n': n, 'frozen': bool(frozen)})

    def plane(self, cls=None, need_fit=False):
        rng = self.rng
        cands = self.find(lambda t: t['t'] == 'P' and (cls is None or t['cls'] == cls) and not t.get('rescaled'))
        if cands and rng.random() < 0.7:
            return rng.choice(cands)
        return self.new_plane(cls)

    def new_plane(self, cls=None):
        rng = self.rng
        cls = cls or rng.choice(['Pupil', 'Pupil', 'Pupil', 'Plane', 'Image'])
        seg = cls == 'Pupil' and rng.random() < 0.25
        amp = self.arr('amp') if rng.random() < 0.8 else None
        opd = self.arr('opd', frozen=False if rng.random() < 0.5 else None) if rng.random() < 0.85 else None
        if seg:
            mask = self.arr('mask3')
        elif rng.random() < 0.6 or amp is None:
            mask = self.arr(rng.choice(['mask', 'mask', 'maski']))
        else:
            mask = None
        if rng.random() < 0.05 and amp is not None:
            opd = amp            # the same array for two attributes
        mfloat = mask is None or self.regs[mask]['kind'] != 'maski'
        return self.emit({'f': 'plane', 'cls': cls, 'amp': amp, 'opd': opd, 'mask': mask, 'nseg': 2 if seg else 1},
                         {'t': 'P', 'cls': cls, 'nseg': 2 if seg else 1, 'opd': opd, 'amp': amp, 'mfloat': mfloat,
                          'tilt': False, 'arrmask': mask is not None or amp is not None})

    def wave(self, pred):
        cands = self.find(lambda t: t['t'] == 'W' and pred(t))
        return self.rng.choice(cands) if cands else None

    def pupil_wave(self, no_tilt=False):
        w = self.wave(lambda t: t['ptype'] == 'pupil' and not (no_tilt and t['tilt']))
        if w is not None and self.rng.random() < 0.7:
            return w
        w0 = self.new_wave(tilt=False if no_tilt else None)
        cands = self.find(lambda t: t['t'] == 'P' and t['cls'] == 'Pupil' and t['arrmask'] and not t.get('rescaled')
                          and not (no_tilt and t['tilt']))
        p = self.rng.choice(cands) if cands and self.rng.random() < 0.8 else None
        if p is None:
            p = self.new_plane('Pupil')
            while not self.regs[p]['arrmask']:
                p = self.new_plane('Pupil')
        return self.emit({'f': 'mul', 'p': p, 'w': w0},
                         {'t': 'W', 'ptype': 'pupil', 'tilt': self.regs[p]['tilt'] or self.regs[w0]['tilt']})

    def fit_changes(self, p):
        t = self.regs[p]
        return t['cls'] != 'Image' and t['arrmask'] and t['opd'] is not None

    def poke(self, r):
        """the caller writes into its own array: two samples, or a refill with other contents of the same kind"""
        t = self.regs[r]
        if t['kind'] in REFILL and self.rng.random() < 0.5:
            self.seed += 1
            self.emit({'f': 'poke', 'r': r, 'mode': 'refill', 'kind': t['kind'], 'kn': t['n'],
                       'seed': self.seed + self.rng.randint(0, 50)}, {'t': 'N'})
        else:
            self.emit({'f': 'poke', 'r': r}, {'t': 'N'})

    def new_wave(self, tilt=None):
        rng = self.rng
        if tilt is None:
            tilt = rng.random() < 0.15
        st = {'f': 'wave', 'wl': rng.randint(0, 1)}
        if tilt:
            st['tilt'] = [rng.choice([1, -2, 3]), rng.choice([0, 2, -1])]
        return self.emit(st, {'t': 'W', 'ptype': 'none', 'tilt': bool(tilt)})

    def tilt_plane(self, kinds=('Tilt', 'Disp', 'Disp2d', 'Disp2d', 'Disp2t')):
        """a Tilt / DispersiveTilt plane kept in a caller variable and re-used (order-2 models are solved numerically)"""
        rng = self.rng
        cands = self.find(lambda t: t['t'] == 'TP' and t['kind'] in kinds)
        if cands and rng.random() < 0.7:
            return rng.choice(cands)
        kind = rng.choice(list(kinds))
        return self.emit({'f': 'tilt_plane', 'kind': kind, 'x': rng.choice([1, 2, -3, 4]), 'y': rng.choice([0, 1, -2])},
                         {'t': 'TP', 'kind': kind})

    def mul_tilt(self, w, tp=None):
        rng = self.rng
        wt = self.regs[w]
        st = {'f': 'mul_tilt', 'w': w, 'kind': 'Disp' if rng.random() < 0.25 else 'Tilt',
              'x': rng.choice([1, 2, -3, 4]), 'y': rng.choice([0, 1, -2])}
        if tp is None and rng.random() < 0.6:
            tp = self.tilt_plane(('Tilt', 'Tilt', 'Disp', 'Disp2d', 'Disp2t'))
        if tp is not None:
            st['tp'] = tp
        return self.emit(st, {'t': 'W', 'ptype': wt['ptype'], 'tilt': True})

    def tilt_shift(self, tp=None):
        tp = self.tilt_plane(('Tilt', 'Disp', 'Disp2d', 'Disp2d', 'Disp2t', 'Disp2t')) if tp is None else tp
        return self.emit({'f': 'fn', 'name': 'tilt_shift', 'args': [tp], 'wl': self.rng.randint(0, 1)}, {'t': 'N'})

    def poke_attr(self, p, attr=None):
        """the caller writes through plane.amplitude / plane.opd / plane.mask in place"""
        rng = self.rng
        t = self.regs[p]
        ok = []
        if t['amp'] is not None and (t['amp'] < 0 or not self.regs[t['amp']]['frozen']):
            ok.append(0)
        if t['opd'] is not None and (t['opd'] < 0 or not self.regs[t['opd']]['frozen']):
            ok.append(1)
        if t['arrmask'] and t['nseg'] == 1 and not t.get('rescaled'):
            ok.append(2)
        if attr is None:
            if not ok:
                return None
            attr = rng.choice(ok)
        elif attr not in ok:
            return None
        self.seed += 1
        return self.emit({'f': 'poke_attr', 'p': p, 'attr': attr, 'seed': self.seed}, {'t': 'N'})

    def resample(self, p):
        ty = dict(self.regs[p])
        ty['opd'] = -1 if ty['opd'] is not None else None
        ty['amp'] = -1 if ty['amp'] is not None else None
        ty['mfloat'] = False
        ty['rescaled'] = True
        fac = self.rng.choice(['2', '1/2', '1/2', '1'])
        if fac == '1':
            ty['rescaled'] = False
        return self.emit({'f': 'resample', 'p': p, 'factor': fac}, ty)

    def memo_fn(self):
        """functions whose natural optimisation is a memo: zernike bases/fits, meshes and shapes"""
        rng = self.rng
        n = self.n
        res = {'t': 'A', 'kind': 'res', 'n': 0, 'frozen': False}
        nm = rng.choice(['zernike_basis', 'zernike_basis', 'zernike_fit', 'zernike_fit', 'zernike_remove', 'zernike_compose',
                         'zernike_coordinates', 'mesh', 'rectangle', 'circle', 'circle', 'hexagon'])
        modes = rng.choice([[1, 2, 3, 4], [2, 3, 4, 5, 6], [4, 2, 7, 3]])
        if nm == 'zernike_basis':
            self.emit({'f': 'fn', 'name': nm, 'args': [self.arr(rng.choice(['bmask', 'bmask', 'mask']))], 'modes': modes}, res)
        elif nm in ('zernike_fit', 'zernike_remove'):
            args = [self.arr('opd'), self.arr(rng.choice(['bmask', 'mask']))]
            if rng.random() < 0.5:
                args += [self.arr('rho'), self.arr('theta')]
            self.emit({'f': 'fn', 'name': nm, 'args': args, 'modes': modes, 'normalize': rng.random() < 0.7}, res)
        elif nm == 'zernike_compose':
            args = [self.arr(rng.choice(['bmask', 'mask']))]
            if rng.random() < 0.5:
                args += [self.arr('rho'), self.arr('theta')]
            self.emit({'f': 'fn', 'name': nm, 'args': args, 'coeffs': [0.0, 1e-8, -2e-8, 5e-9]}, res)
        elif nm == 'zernike_coordinates':
            self.emit({'f': 'fn', 'name': nm, 'args': [self.arr(rng.choice(['bmask', 'mask']))]}, {'t': 'N'})
        else:
            shape = rng.choice([[n, n], [n, n], [n, n + 2]])
            shift = rng.choice([[0, 0], [0, 0], [1, -2], [2, 1]])
            st = {'f': 'fn', 'name': nm, 'args': [], 'shape': shape, 'shift': shift}
            if nm == 'mesh':
                st['angle'] = rng.choice([0, 0, 30])
            elif nm == 'rectangle':
                st.update(w=rng.choice([3, 4]), h=rng.choice([2, 5]), angle=rng.choice([0, 0, 30]))
            else:
                st['r'] = rng.choice([2, 2.5, 3])
            self.emit(st, {'t': 'N'} if nm == 'mesh' else res)

    def new_ops(self):
        rng = self.rng
        x = rng.random()
        if x < 0.25:
            w = self.wave(lambda t: True)
            if w is None or rng.random() < 0.3:
                w = self.pupil_wave() if rng.random() < 0.6 else self.new_wave()
            self.mul_tilt(w)
        elif x < 0.45:
            cands = self.find(lambda t: t['t'] == 'P' and not t.get('rescaled'))
            if cands:
                self.poke_attr(rng.choice(cands))
        elif x < 0.55:
            cands = self.find(lambda t: t['t'] == 'P' and t['mfloat'] and t['arrmask'] and t['cls'] != 'Image')
            if cands:
                self.resample(rng.choice(cands))
        elif x < 0.6:
            self.new_wave(tilt=True)
        elif x < 0.68:
            self.tilt_shift()
        else:
            self.memo_fn()

    def step(self):
        rng = self.rng
        n = self.n
        if rng.random() < 0.14:
            return self.new_ops()
        x = rng.random()
        if x < 0.05:
            self.arr(rng.choice(['amp', 'opd', 'mask', 'img', 'cplx']), fresh=True)
        elif x < 0.09:
            cands = self.find(lambda t: t['t'] == 'A' and not t['frozen'])
            if cands:
                self.poke(rng.choice(cands))
        elif x < 0.14:
            self.new_plane()
        elif x < 0.20:
            p = self.plane()
            if rng.random() < 0.6:
                a = self.arr('opd', frozen=False if rng.random() < 0.5 else None)
                self.emit({'f': 'set_opd', 'p': p, 'a': a}, {'t': 'N'})
                self.regs[p]['opd'] = a
            else:
                a = self.arr('amp')
                self.emit({'f': 'set_amp', 'p': p, 'a': a}, {'t': 'N'})
                self.regs[p]['amp'] = a
                self.regs[p]['arrmask'] = self.regs[p]['arrmask']   # shape comes from the mask, unchanged
        elif x < 0.32:
            p = self.plane()
            inplace = rng.random() < 0.5
            ty = dict(self.regs[p])
            changes = self.fit_changes(p)
            opd = self.regs[p]['opd']
            if inplace:
                if changes:
                    self.regs[p]['tilt'] = True
                    self.regs[p]['opd'] = -1      # plane.opd is rebound to a fresh (writable) array
                self.emit({'f': 'fit_tilt', 'p': p, 'inplace': True}, {'t': 'alias', 'of': p})
            else:
                if ty['cls'] == 'Image':
                    self.emit({'f': 'fit_tilt', 'p': p, 'inplace': False}, {'t': 'alias', 'of': p})
                else:
                    ty['opd'] = -1 if ty['opd'] is not None else None
                    ty['amp'] = -1 if ty['amp'] is not None else None
                    if changes:
                        ty['tilt'] = True
                    self.emit({'f': 'fit_tilt', 'p': p, 'inplace': False}, ty)
        elif x < 0.35:
            p = self.plane()
            ty = dict(self.regs[p])
            ty['opd'] = -1 if ty['opd'] is not None else None
            ty['amp'] = -1 if ty['amp'] is not None else None
            self.emit({'f': 'copy', 'p': p}, ty)
        elif x < 0.39:
            cands = self.find(lambda t: t['t'] == 'P' and t['mfloat'] and t['arrmask'])
            if cands:
                p = rng.choice(cands)
                ty = dict(self.regs[p])
                ty['opd'] = -1 if ty['opd'] is not None else None
                ty['amp'] = -1 if ty['amp'] is not None else None
                ty['mfloat'] = False
                ty['rescaled'] = True
                sc = rng.choice(['2', '1/2', '1', '1.0'])
                if Fraction(sc) == 1:
                    ty['rescaled'] = False        # same sampling: the new plane can be used like the original
                self.emit({'f': 'rescale', 'p': p, 'scale': sc}, ty)
        elif x < 0.46:
            # multiply
            pcands = self.find(lambda t: t['t'] == 'P' and not t.get('rescaled'))
            if not pcands:
                self.new_plane()
                return
            p = rng.choice(pcands)
            pt = self.regs[p]
            need = {'Pupil': ('none', 'pupil'), 'Plane': ('none',), 'Image': ('none', 'image')}[pt['cls']]
            w = self.wave(lambda t: t['ptype'] in need)
            if w is None or rng.random() < 0.3:
                w = self.new_wave()
            wt = self.regs[w]
            ptype = {'Pupil': 'pupil', 'Image': 'image', 'Plane': wt['ptype']}[pt['cls']]
            st = {'f': 'mul', 'p': p, 'w': w}
            if rng.random() < 0.3:
                st['order'] = 'pw'
            self.emit(st, {'t': 'W', 'ptype': ptype, 'tilt': wt['tilt'] or pt['tilt']})
        elif x < 0.53:
            w = self.pupil_wave()
            osamp = rng.choice([1, 2])
            self.emit({'f': 'prop_dft', 'w': w, 'shape': n // osamp, 'os': osamp}, {'t': 'W', 'ptype': 'image', 'tilt': False})
        elif x < 0.58:
            w = self.pupil_wave(no_tilt=rng.random() < 0.85)
            scr = self.arr('scratch', writable=rng.random() < 0.8) if rng.random() < 0.6 else None
            bad = self.regs[w]['tilt'] or (scr is not None and self.regs[scr]['frozen'])
            self.emit({'f': 'prop_fft', 'w': w, 'os': rng.choice([1, 2]), 'scratch': scr},
                      {'t': 'N'} if bad else {'t': 'W', 'ptype': 'image', 'tilt': False})
        elif x < 0.63:
            w = self.wave(lambda t: t['ptype'] != 'none')
            if w is not None:
                out = self.arr('buf_f', n=rng.choice([n, n + 3]), writable=rng.random() < 0.85)
                self.emit({'f': 'insert', 'w': w, 'out': out, 'weight': rng.choice([1, 2, 0.5])},
                          {'t': 'N'} if self.regs[out]['frozen'] else {'t': 'alias', 'of': out})
        elif x < 0.67:
            w = self.wave(lambda t: t['ptype'] != 'none')
            if w is not None:
                self.emit({'f': 'wfield', 'w': w, 'intensity': rng.random() < 0.5}, {'t': 'A', 'kind': 'res', 'n': 0, 'frozen': False})
        elif x < 0.80:
            self.dft2_step()
        elif x < 0.93:
            self.fn_step()
        else:
            self.spec_step()

    def dft2_step(self):
        rng = self.rng
        n = self.n
        a = self.arr(rng.choice(['cplx', 'img', 'amp']))
        M = rng.choice([None, n, n, n + 1])
        inverse = rng.random() < 0.25
        out = None
        if rng.random() < 0.35:
            out = self.arr('buf_c', n=(M or n), writable=rng.random() < 0.85)
        sh = [rng.choice([0, 0, 1, -2, 0.5]), rng.choice([0, 0, 3, -1, 0.25])]
        off = [0, 0] if inverse else [rng.choice([0, 0, 1, -2]), rng.choice([0, 0, 2])]
        bad = out is not None and self.regs[out]['frozen']
        self.emit({'f': 'dft2', 'a': a, 'alpha': rng.choice(['1/%d' % n, '1/%d' % (2 * n), '3/16']), 'shape': M,
                   'shift': sh, 'offset': off, 'unitary': rng.random() < 0.6, 'out': out, 'inverse': inverse},
                  {'t': 'N'} if bad else ({'t': 'alias', 'of': out} if out is not None else {'t': 'A', 'kind': 'res', 'n': 0, 'frozen': False}))

    def fn_step(self):
        rng = self.rng
        name = rng.choice(['adc', 'adc', 'collect_charge', 'collect_charge', 'collect_charge_bayer', 'pixel', 'pixelate',
                           'charge_diffusion', 'jitter', 'smear', 'util_rescale', 'rebin', 'shot_noise', 'shot_noise',
                           'read_noise', 'read_noise', 'dark_current', 'power_spectrum', 'smear_random', 'cosmic_rays',
                           'normalize_power', 'pad', 'window', 'rule07', 'bayer_channels', 'scratch_shape', 'plane_read',
                           'plane_read'])
        res = {'t': 'A', 'kind': 'res', 'n': 0, 'frozen': False}
        if name == 'adc':
            g = rng.choice(['scalar', 'gain1', 'gain2'])
            args = [self.arr('img')] + ([] if g == 'scalar' else [self.arr(g)])
            self.emit({'f': 'fn', 'name': 'adc', 'args': args, 'gain': g, 'sat': rng.choice([None, 150, 300]),
                       'dtype': rng.choice([None, 'uint16'])}, res)
        elif name == 'collect_charge':
            q = rng.choice(['scalar', 'qe', 'spec'])
            args = [self.arr('cube'), self.arr('wv3')]
            if q == 'qe':
                args.append(self.arr('qe'))
            elif q == 'spec':
                args.append(self.spectrum())
            self.emit({'f': 'fn', 'name': 'collect_charge', 'args': args, 'qe': q}, res)
        elif name == 'collect_charge_bayer':
            self.emit({'f': 'fn', 'name': 'collect_charge_bayer', 'args': [self.arr('cube'), self.arr('wv3'), self.arr('qe')]}, res)
        elif name in ('util_rescale', 'rebin'):
            self.emit({'f': 'fn', 'name': name, 'args': [self.arr('img')], 'k': rng.choice([2, 2, 1])}, res)   # factor 1: no-op value
        elif name in ('pad', 'window'):
            self.emit({'f': 'fn', 'name': name, 'args': [self.arr(rng.choice(['img', 'cplx']))], 'k': rng.choice([0, 0, 2])}, res)
        elif name in ('pixel', 'pixelate', 'charge_diffusion', 'jitter', 'smear', 'normalize_power'):
            self.emit({'f': 'fn', 'name': name, 'args': [self.arr('img')]}, res)
        elif name == 'shot_noise':
            self.emit({'f': 'fn', 'name': 'shot_noise', 'args': [self.arr('img')], 'method': rng.choice(['poisson', 'gaussian']),
                       'seed': rng.randint(0, 5)}, res)
        elif name == 'read_noise':
            self.emit({'f': 'fn', 'name': 'read_noise', 'args': [self.arr('img')], 'seed': rng.randint(0, 5)}, res)
        elif name == 'dark_current':
            self.emit({'f': 'fn', 'name': 'dark_current', 'args': [], 'seed': rng.randint(0, 5)}, res)
        elif name == 'rule07':
            self.emit({'f': 'fn', 'name': 'rule07', 'args': [], 'seed': rng.randint(0, 5)}, res)
        elif name == 'bayer_channels':
            self.emit({'f': 'fn', 'name': 'bayer_channels', 'args': [self.arr('cube'), self.arr('wv3'), self.arr('qe')]}, {'t': 'N'})
        elif name == 'scratch_shape':
            self.emit({'f': 'fn', 'name': 'scratch_shape', 'args': [], 'wl': rng.randint(0, 1), 'os': rng.choice([1, 2])}, {'t': 'N'})
        elif name == 'plane_read':
            cands = self.find(lambda t: t['t'] == 'P' and t['cls'] != 'Image' and t['arrmask'])
            if cands:
                self.emit({'f': 'fn', 'name': 'plane_read', 'args': [rng.choice(cands)],
                           'attr': rng.choice(['ptt_vector', 'ptt_vector', 'diameter', 'shape', 'size', 'pixelscale', 'ptype'])},
                          {'t': 'N'})
        elif name == 'power_spectrum':
            self.emit({'f': 'fn', 'name': 'power_spectrum', 'args': [self.arr('mask')], 'seed': rng.randint(0, 5)}, res)
        elif name == 'smear_random':
            self.emit({'f': 'randfn', 'name': 'smear_random', 'args': [self.arr('img')]}, res)
        elif name == 'cosmic_rays':
            self.emit({'f': 'randfn', 'name': 'cosmic_rays', 'args': []}, res)

    def spectrum(self):
        cands = self.find(lambda t: t['t'] == 'S' and t['unit'] == 'nm')
        if cands and self.rng.random() < 0.7:
            return self.rng.choice(cands)
        flux = self.rng.random() < 0.3
        return self.emit({'f': 'spec', 'wave': self.arr('specw'), 'value': self.arr('specv'), 'flux': flux},
                         {'t': 'S', 'unit': 'nm', 'flux': flux})

    def spec_step(self):
        rng = self.rng
        s = self.spectrum()
        st = self.regs[s]
        x = rng.random()
        if x < 0.2:
            opn = rng.choice(['mul', 'add', 'sub', 'div'])
            xv = 0.05 if opn == 'sub' else rng.choice([2.0, 0.5, 3])
            if rng.random() < 0.25:
                xv = {'mul': 1, 'div': 1.0, 'add': 0, 'sub': 0.0}[opn]      # neutral element: still a new spectrum
            self.emit({'f': 'spec_scalar', 's': s, 'opname': opn, 'x': xv},
                      {'t': 'S', 'unit': st['unit'], 'flux': st['flux']})
        elif x < 0.4:
            s2 = self.spectrum()
            if self.regs[s2]['flux'] == st['flux']:
                self.emit({'f': 'spec_bin', 's1': s, 's2': s2, 'opname': rng.choice(['mul', 'add'])},
                          {'t': 'S', 'unit': st['unit'], 'flux': st['flux']})
        elif x < 0.65:
            self.emit({'f': 'fn', 'name': 'sample', 'args': [s, self.arr('wv3')], 'unit': rng.choice(['nm', 'um', 'um'])},
                      {'t': 'A', 'kind': 'res', 'n': 0, 'frozen': False})
        elif x < 0.8:
            unit = rng.choice(['um', 'nm', 'angstrom'])
            self.emit({'f': 'spec_to', 's': s, 'unit': unit, 'flux': st['flux']}, {'t': 'N'})
            st['unit'] = unit
        elif x < 0.9:
            self.emit({'f': 'spec_trim', 's': s}, {'t': 'N'})
        else:
            self.emit({'f': 'spec_resample', 's': s, 'wave': self.arr('wv3')}, {'t': 'N'})
            st['unit'] = 'nm'


def gen_history(rng, lo, hi):
    g = Gen(rng, rng.choice([6, 8]))
    target = rng.randint(lo, hi)
    guard = 0
    while len(g.steps) < target and guard < 10 * hi:
        guard += 1
        g.step()
    return {'op': 'hist', 'n': g.n, 'steps': g.steps}


def generate(rng, tier):
    cases = list(generate_cases(rng, tier))
    for k, c in enumerate(cases):
        if c['op'] == 'hist':
            c['errstate'] = k % 4       # the caller's numpy error policy / warnings filters this history runs under
    start_prefetch(cases, max(2, min(6, C.NCPU // 2)))
    return cases


def generate_cases(rng, tier):
    nh = 60 if tier == 'quick' else 400
    lo, hi = (10, 30) if tier == 'quick' else (30, 100)
    for k in range(nh):
        c = gen_history(rng, lo, hi)
        c['fresh'] = 'all' if (tier == 'quick' or k % 2 == 0) else 'none'
        yield c
    # a few calls per run are also repeated in a genuinely new interpreter (python -c ...), not only in a fork
    for k in range(4 if tier == 'quick' else 24):
        c = gen_history(rng, 10, 24)
        idx = [i for i, st in enumerate(c['steps']) if st['f'] not in ('arr', 'randfn')]
        c['fresh'] = 'none'
        c['newinterp'] = sorted(rng.sample(idx, min(3, len(idx))))
        yield c
    nd = 24 if tier == 'quick' else 150
    for k in range(nd):
        yield gen_poison(rng)
    for k in range(nd):
        yield gen_confluence(rng)
    nu = 16 if tier == 'quick' else 100
    for k in range(nu):
        yield gen_plane_updates(rng)
    for k in range(nu):
        yield gen_tilt_reuse(rng)
    for k in range(40 if tier == 'quick' else 200):
        yield gen_memo(rng, ['zbasis', 'zfit', 'resample', 'sample', 'shapes'][k % 5])
    for k in range(12 if tier == 'quick' else 80):
        yield gen_workspace(rng)
    for k in range(12 if tier == 'quick' else 60):
        yield gen_subclass(rng, SUBS[k % 4])
    for k in range(8 if tier == 'quick' else 40):
        yield gen_wave_reads(rng)


def gen_poison(rng):
    """directed: dft2 with repeated shapes, non-zero shifts/offsets, inputs mutated between calls"""
    g = Gen(rng, rng.choice([5, 6, 8]))
    n = g.n
    a = g.arr('cplx', frozen=False, fresh=True)
    b = g.arr('img', fresh=True)
    for _ in range(rng.randint(4, 9)):
        src = rng.choice([a, b])
        M = rng.choice([n, n, n + 1])
        out = g.arr('buf_c', n=M, writable=True) if rng.random() < 0.3 else None
        g.emit({'f': 'dft2', 'a': src, 'alpha': '1/%d' % (2 * n), 'shape': M,
                'shift': [rng.choice([0, 1, -2, 0.5]), rng.choice([0, 3, -1])],
                'offset': [rng.choice([0, 1, -2]), rng.choice([0, 2])], 'unitary': rng.random() < 0.5, 'out': out,
                'inverse': False},
               {'t': 'alias', 'of': out} if out is not None else {'t': 'A', 'kind': 'res', 'n': 0, 'frozen': False})
        if rng.random() < 0.4:
            g.emit({'f': 'poke', 'r': a}, {'t': 'N'})
    return {'op': 'hist', 'n': n, 'steps': g.steps, 'fresh': 'all', 'directed': 'poison'}


def gen_plane_updates(rng):
    """directed: one plane used (multiplied, propagated) at repeated wavelengths while its amplitude, OPD and mask are
    updated between uses - by setter assignment and by in-place writes - in every order, with tilt fits, copies and
    resamples in between; every use is compared with the same call on a plane rebuilt from the current public state"""
    g = Gen(rng, rng.choice([6, 8]))
    seg = rng.random() < 0.25
    amp = g.arr('amp', frozen=rng.random() < 0.4, fresh=True)
    opd = g.arr('opd', frozen=rng.random() < 0.3, fresh=True)
    mask = g.arr('mask3' if seg else 'mask', fresh=True) if (seg or rng.random() < 0.6) else None
    p = g.emit({'f': 'plane', 'cls': 'Pupil', 'amp': amp, 'opd': opd, 'mask': mask, 'nseg': 2 if seg else 1},
               {'t': 'P', 'cls': 'Pupil', 'nseg': 2 if seg else 1, 'opd': opd, 'amp': amp, 'mfloat': True, 'tilt': False,
                'arrmask': True})
    waves = [g.emit({'f': 'wave', 'wl': k}, {'t': 'W', 'ptype': 'none', 'tilt': False}) for k in (0, 1)]

    def use(pl):
        w = g.emit({'f': 'mul', 'p': pl, 'w': rng.choice(waves[:1] * 3 + waves[1:])},
                   {'t': 'W', 'ptype': 'pupil', 'tilt': g.regs[pl]['tilt']})
        if rng.random() < 0.4:
            osamp = rng.choice([1, 2])
            g.emit({'f': 'prop_dft', 'w': w, 'shape': g.n // osamp, 'os': osamp}, {'t': 'W', 'ptype': 'image', 'tilt': False})
        elif rng.random() < 0.3:
            g.emit({'f': 'wfield', 'w': w, 'intensity': False}, {'t': 'A', 'kind': 'res', 'n': 0, 'frozen': False})

    use(p)
    for _ in range(rng.randint(4, 9)):
        x = rng.random()
        t = g.regs[p]
        if x < 0.2:
            a = g.arr('amp', fresh=rng.random() < 0.7)
            g.emit({'f': 'set_amp', 'p': p, 'a': a}, {'t': 'N'})
            t['amp'] = a
        elif x < 0.35:
            a = g.arr('opd', frozen=False if rng.random() < 0.6 else None, fresh=rng.random() < 0.7)
            g.emit({'f': 'set_opd', 'p': p, 'a': a}, {'t': 'N'})
            t['opd'] = a
        elif x < 0.6:
            g.poke_attr(p)
        elif x < 0.7:
            r = t['amp'] if rng.random() < 0.5 else t['opd']
            if r is not None and r >= 0 and not g.regs[r]['frozen']:
                g.poke(r)
        elif x < 0.8:
            g.emit({'f': 'fit_tilt', 'p': p, 'inplace': True}, {'t': 'alias', 'of': p})
            t['tilt'] = True
            t['opd'] = -1
        elif x < 0.9:
            ty = dict(t)
            ty['opd'] = -1
            ty['amp'] = -1
            if rng.random() < 0.5:
                q = g.emit({'f': 'copy', 'p': p}, ty)
            else:
                ty['tilt'] = True
                q = g.emit({'f': 'fit_tilt', 'p': p, 'inplace': False}, ty)
            use(q)
            if rng.random() < 0.5:
                g.poke_attr(q)
                use(q)
        else:
            g.resample(p)
        use(p)
    return {'op': 'hist', 'n': g.n, 'steps': g.steps, 'fresh': 'all', 'directed': 'plane-updates'}


def gen_tilt_reuse(rng):
    """directed: a wavefront that already carries tilt (Wavefront(tilt=) and/or a tilt-fitted pupil) is multiplied by several
    Tilt / DispersiveTilt planes and re-used (re-propagated, multiplied again) afterwards"""
    g = Gen(rng, rng.choice([6, 8]))
    w = g.new_wave(tilt=rng.random() < 0.5)
    amp = g.arr('amp', fresh=True)
    opd = g.arr('opd', frozen=False, fresh=True)
    seg = rng.random() < 0.3
    mask = g.arr('mask3', fresh=True) if seg else None
    p = g.emit({'f': 'plane', 'cls': 'Pupil', 'amp': amp, 'opd': opd, 'mask': mask, 'nseg': 2 if seg else 1},
               {'t': 'P', 'cls': 'Pupil', 'nseg': 2 if seg else 1, 'opd': opd, 'amp': amp, 'mfloat': True, 'tilt': False,
                'arrmask': True})
    if rng.random() < 0.7:
        g.emit({'f': 'fit_tilt', 'p': p, 'inplace': True}, {'t': 'alias', 'of': p})
        g.regs[p]['tilt'] = True
        g.regs[p]['opd'] = -1
    tps = [g.tilt_plane(('Tilt', 'Disp')) for _ in range(rng.randint(1, 2))]
    d2 = g.tilt_plane(('Disp2d', 'Disp2t'))
    tps.append(d2)
    for wl in rng.choice([[1, 0, 1, 0], [0, 1, 0], [1, 1, 0]]):     # wavelength sweep on ONE numerically solved plane
        g.emit({'f': 'fn', 'name': 'tilt_shift', 'args': [d2], 'wl': wl}, {'t': 'N'})
    ws = [w]
    if rng.random() < 0.3:
        ws.append(g.mul_tilt(w, rng.choice(tps)))
    wp = g.emit({'f': 'mul', 'p': p, 'w': rng.choice(ws)}, {'t': 'W', 'ptype': 'pupil', 'tilt': g.regs[p]['tilt'] or g.regs[w]['tilt']})
    ws.append(wp)
    for _ in range(rng.randint(3, 7)):
        x = rng.random()
        src = wp if rng.random() < 0.7 else rng.choice(ws)
        if x < 0.55:
            ws.append(g.mul_tilt(src, rng.choice(tps + [None])))
        elif x < 0.62:
            g.tilt_shift(rng.choice(tps + [d2]))
        elif x < 0.85:
            cand = [v for v in ws if g.regs[v]['ptype'] == 'pupil']
            v = rng.choice(cand)
            osamp = rng.choice([1, 2])
            g.emit({'f': 'prop_dft', 'w': v, 'shape': g.n // osamp, 'os': osamp}, {'t': 'W', 'ptype': 'image', 'tilt': False})
        else:
            ws.append(g.emit({'f': 'mul', 'p': p, 'w': w}, {'t': 'W', 'ptype': 'pupil', 'tilt': True}))
    return {'op': 'hist', 'n': g.n, 'steps': g.steps, 'fresh': 'all', 'directed': 'tilt-reuse'}


def gen_memo(rng, kind=None):
    """directed: 2-6 calls of memo-prone functions in one process with one argument varied at a time and caller buffers
    refilled in place between the calls (zernike basis/fit/remove with default and supplied coordinates, Plane.resample
    after in-place edits, Spectrum.sample in a foreign unit then native, meshes and shapes on a repeated array shape)"""
    g = Gen(rng, rng.choice([6, 8]))
    n = g.n
    res = {'t': 'A', 'kind': 'res', 'n': 0, 'frozen': False}
    kind = kind or rng.choice(['zbasis', 'zfit', 'resample', 'sample', 'shapes'])
    if kind == 'zbasis':
        m = g.arr('bmask', frozen=False, fresh=True)
        modes = rng.choice([[1, 2, 3, 4], [2, 3, 4, 5, 6]])
        for _ in range(rng.randint(2, 4)):
            g.emit({'f': 'fn', 'name': rng.choice(['zernike_basis', 'zernike_basis', 'zernike_coordinates']), 'args': [m], 'modes': modes},
                   res if False else {'t': 'N'})
            g.seed += 1
            g.emit({'f': 'poke', 'r': m, 'mode': 'refill', 'kind': 'bmask', 'kn': n, 'seed': g.seed + rng.randint(0, 8)}, {'t': 'N'})
        g.emit({'f': 'fn', 'name': 'zernike_basis', 'args': [m], 'modes': modes}, res)
    elif kind == 'zfit':
        m = g.arr(rng.choice(['bmask', 'mask']), fresh=True)
        o = g.arr('opd', frozen=False, fresh=True)
        rho, th = g.arr('rho', fresh=True), g.arr('theta', fresh=True)
        modes = rng.choice([[1, 2, 3, 4], [4, 2, 7, 3]])
        norm = rng.random() < 0.7
        for _ in range(rng.randint(3, 6)):
            nm = rng.choice(['zernike_fit', 'zernike_fit', 'zernike_remove'])
            args = [o, m] + ([rho, th] if rng.random() < 0.5 else [])
            g.emit({'f': 'fn', 'name': nm, 'args': args, 'modes': modes, 'normalize': norm}, res)
            if rng.random() < 0.3:
                g.poke(o)
    elif kind == 'resample':
        amp = g.arr('amp', frozen=False, fresh=True)
        opd = g.arr('opd', frozen=False, fresh=True)
        p = g.emit({'f': 'plane', 'cls': rng.choice(['Pupil', 'Plane']), 'amp': amp, 'opd': opd, 'mask': None, 'nseg': 1},
                   {'t': 'P', 'cls': 'Pupil', 'nseg': 1, 'opd': opd, 'amp': amp, 'mfloat': True, 'tilt': False, 'arrmask': True})
        for _ in range(rng.randint(2, 4)):
            g.emit({'f': 'resample', 'p': p, 'factor': '1/2'}, {'t': 'P', 'cls': 'Pupil', 'nseg': 1, 'opd': -1, 'amp': -1,
                                                                 'mfloat': False, 'tilt': False, 'arrmask': True, 'rescaled': True})
            x = rng.random()
            if x < 0.4:
                g.poke_attr(p, rng.choice([0, 1]))
            elif x < 0.6:
                g.poke(rng.choice([amp, opd]))
            elif x < 0.8:
                g.emit({'f': 'fit_tilt', 'p': p, 'inplace': True}, {'t': 'alias', 'of': p})
                g.regs[p]['opd'] = -1
            else:
                q = g.emit({'f': 'copy', 'p': p}, {'t': 'P', 'cls': 'Pupil', 'nseg': 1, 'opd': -1, 'amp': -1, 'mfloat': True,
                                                   'tilt': False, 'arrmask': True})
                g.poke_attr(q, 1)
                g.emit({'f': 'resample', 'p': q, 'factor': '1/2'}, {'t': 'N'})
        g.emit({'f': 'resample', 'p': p, 'factor': '1/2'}, {'t': 'N'})
    elif kind == 'sample':
        w = g.emit({'f': 'arr', 'kind': 'specw2', 'n': n, 'seed': rng.randint(0, 9), 'frozen': rng.random() < 0.5},
                   {'t': 'A', 'kind': 'specw2', 'n': n, 'frozen': False})
        v = g.arr('specv', fresh=True)
        s = g.emit({'f': 'spec', 'wave': w, 'value': v, 'flux': False}, {'t': 'S', 'unit': 'nm', 'flux': False})
        x = g.emit({'f': 'arr', 'kind': 'wv3b', 'n': n, 'seed': 0, 'frozen': True}, {'t': 'A', 'kind': 'wv3b', 'n': n, 'frozen': True})
        cube = g.arr('cube', fresh=True)
        for _ in range(rng.randint(2, 5)):
            if rng.random() < 0.6:
                g.emit({'f': 'fn', 'name': 'sample', 'args': [s, x], 'unit': rng.choice(['um', 'nm', 'angstrom', 'nm'])}, res)
            else:
                g.emit({'f': 'fn', 'name': 'collect_charge', 'args': [cube, x, s], 'qe': 'spec', 'unit': rng.choice(['um', 'nm'])}, res)
        g.emit({'f': 'fn', 'name': 'sample', 'args': [s, x], 'unit': 'nm'}, res)
    else:
        shape = rng.choice([[n, n], [n, n + 2]])
        for _ in range(rng.randint(4, 9)):
            nm = rng.choice(['mesh', 'rectangle', 'rectangle', 'circle', 'circle', 'hexagon'])
            shift = rng.choice([[0, 0], [0, 0], [1, -2], [2, 1]])
            st = {'f': 'fn', 'name': nm, 'args': [], 'shape': shape, 'shift': shift}
            if nm == 'mesh':
                st['angle'] = rng.choice([0, 0, 30])
            elif nm == 'rectangle':
                st.update(w=rng.choice([3, 4]), h=rng.choice([2, 5]), angle=rng.choice([0, 0, 0, 30]))
            else:
                st['r'] = rng.choice([2, 2.5, 3])
            g.emit(st, {'t': 'N'} if nm == 'mesh' else res)
    return {'op': 'hist', 'n': n, 'steps': g.steps, 'fresh': 'all', 'directed': 'memo-' + kind}


def gen_workspace(rng):
    """directed: ONE caller-owned workspace re-used across calls that differ in one argument: a propagate_fft scratch over
    wavelengths / oversampling (different pad shapes), a dft2 out= buffer over shifts / alphas / transforms, an accumulation
    array over weights; every call is compared with the same call made in a fresh process on a workspace with other contents"""
    g = Gen(rng, rng.choice([6, 8]))
    n = g.n
    amp = g.arr('amp', fresh=True)
    seg = rng.random() < 0.3
    mask = g.arr('mask3', fresh=True) if seg else None
    p = g.emit({'f': 'plane', 'cls': 'Pupil', 'amp': amp, 'opd': None, 'mask': mask, 'nseg': 2 if seg else 1},
               {'t': 'P', 'cls': 'Pupil', 'nseg': 2 if seg else 1, 'opd': None, 'amp': amp, 'mfloat': True, 'tilt': False,
                'arrmask': True})
    ws = []
    for k in (0, 1):
        w0 = g.emit({'f': 'wave', 'wl': k}, {'t': 'W', 'ptype': 'none', 'tilt': False})
        ws.append(g.emit({'f': 'mul', 'p': p, 'w': w0}, {'t': 'W', 'ptype': 'pupil', 'tilt': False}))
    scr = g.arr('scratch', writable=True, fresh=True)
    out = g.arr('buf_c', n=n, writable=True, fresh=True)
    acc = g.arr('buf_f', n=n, writable=True, fresh=True)
    src = g.arr('cplx', fresh=True)
    first = rng.randint(0, 1)
    osamp = rng.choice([1, 2])
    for k in range(rng.randint(3, 7)):
        x = rng.random()
        if x < 0.55:
            vary = rng.choice(['wl', 'wl', 'os', 'none'])
            wl = (first + k) % 2 if vary == 'wl' else first
            if vary == 'os':
                osamp = 3 - osamp
            im = g.emit({'f': 'prop_fft', 'w': ws[wl], 'os': osamp, 'scratch': scr}, {'t': 'W', 'ptype': 'image', 'tilt': False})
            if rng.random() < 0.3:
                g.emit({'f': 'insert', 'w': im, 'out': acc, 'weight': rng.choice([1, 2, 0.5])}, {'t': 'alias', 'of': acc})
        elif x < 0.9:
            g.emit({'f': 'dft2', 'a': src, 'alpha': rng.choice(['1/%d' % n, '1/%d' % (2 * n)]), 'shape': n,
                    'shift': [rng.choice([0, 1, 0.5]), rng.choice([0, -1])], 'offset': [0, 0], 'unitary': rng.random() < 0.5,
                    'out': out, 'inverse': rng.random() < 0.3}, {'t': 'alias', 'of': out})
        else:
            g.poke(src) if not g.regs[src]['frozen'] else None
    return {'op': 'hist', 'n': n, 'steps': g.steps, 'fresh': 'all', 'directed': 'workspace'}


def gen_subclass(rng, sub):
    """directed: frames / pupil arrays handed over as ndarray subclasses (MaskedArray, matrix, metadata subclass, memmap):
    caller memory untouched, results equal to those for the plain ndarray, repeatable"""
    g = Gen(rng, rng.choice([6, 8]))
    res = {'t': 'A', 'kind': 'res', 'n': 0, 'frozen': False}

    def sub_arr(kind, frozen):
        g.seed += 1
        return g.emit({'f': 'arr', 'kind': kind, 'n': g.n, 'seed': g.seed + rng.randint(0, 40), 'frozen': frozen, 'sub': sub},
                      {'t': 'A', 'kind': kind, 'n': g.n, 'frozen': frozen})

    img = sub_arr('img', rng.random() < 0.4)
    names = ['adc', 'adc', 'pixel', 'jitter', 'smear', 'read_noise', 'shot_noise', 'pad', 'rebin', 'util_rescale',
             'normalize_power', 'charge_diffusion', 'pixelate']
    for nm in rng.sample(names, rng.randint(4, 7)):
        st = {'f': 'fn', 'name': nm, 'args': [img]}
        if nm == 'adc':
            st.update(gain='scalar', sat=rng.choice([150, 300, 100]), dtype=rng.choice([None, 'uint16']))
        elif nm in ('read_noise', 'shot_noise'):
            st.update(seed=rng.randint(0, 3), method='poisson')
        elif nm in ('pad', 'rebin', 'util_rescale'):
            st['k'] = 2
        g.emit(st, res)
    f = sub_arr('cplx', rng.random() < 0.4)
    for _ in range(2):
        g.emit({'f': 'dft2', 'a': rng.choice([f, img]), 'alpha': '1/%d' % (2 * g.n), 'shape': g.n, 'shift': [rng.choice([0, 1]), 0],
                'offset': [0, rng.choice([0, 2])], 'unitary': True, 'out': None, 'inverse': rng.random() < 0.3}, res)
    amp = sub_arr('amp', rng.random() < 0.5)
    opd = sub_arr('opd', False)
    p = g.emit({'f': 'plane', 'cls': 'Pupil', 'amp': amp, 'opd': opd, 'mask': None, 'nseg': 1},
               {'t': 'P', 'cls': 'Pupil', 'nseg': 1, 'opd': opd, 'amp': amp, 'mfloat': True, 'tilt': False, 'arrmask': True})
    w0 = g.emit({'f': 'wave', 'wl': 0}, {'t': 'W', 'ptype': 'none', 'tilt': False})
    w1 = g.emit({'f': 'mul', 'p': p, 'w': w0}, {'t': 'W', 'ptype': 'pupil', 'tilt': False})
    g.emit({'f': 'fit_tilt', 'p': p, 'inplace': rng.random() < 0.5}, {'t': 'N'})
    g.emit({'f': 'prop_dft', 'w': w1, 'shape': g.n // 2, 'os': 2}, {'t': 'W', 'ptype': 'image', 'tilt': False})
    return {'op': 'hist', 'n': g.n, 'steps': g.steps, 'fresh': 'all', 'directed': 'subclass-' + sub}


def gen_wave_reads(rng):
    """directed: a wavefront holding several overlapping fields (propagated multi-segment pupil, with per-segment tilt) is
    READ - intensity, field, insert into an accumulator - and then used again: reads must leave it as it was"""
    g = Gen(rng, rng.choice([6, 8]))
    n = g.n
    amp = g.arr('amp', fresh=True)
    opd = g.arr('opd', frozen=False, fresh=True)
    mask = g.arr('mask3', fresh=True)
    p = g.emit({'f': 'plane', 'cls': 'Pupil', 'amp': amp, 'opd': opd, 'mask': mask, 'nseg': 2},
               {'t': 'P', 'cls': 'Pupil', 'nseg': 2, 'opd': opd, 'amp': amp, 'mfloat': True, 'tilt': False, 'arrmask': True})
    if rng.random() < 0.7:
        g.emit({'f': 'fit_tilt', 'p': p, 'inplace': True}, {'t': 'alias', 'of': p})
        g.regs[p]['tilt'] = True
        g.regs[p]['opd'] = -1
    w0 = g.emit({'f': 'wave', 'wl': rng.randint(0, 1)}, {'t': 'W', 'ptype': 'none', 'tilt': False})
    wp = g.emit({'f': 'mul', 'p': p, 'w': w0}, {'t': 'W', 'ptype': 'pupil', 'tilt': g.regs[p]['tilt']})
    osamp = rng.choice([1, 2])
    wi = g.emit({'f': 'prop_dft', 'w': wp, 'shape': n // osamp, 'os': osamp}, {'t': 'W', 'ptype': 'image', 'tilt': False})
    acc = g.arr('buf_f', n=n, writable=True, fresh=True)
    for _ in range(rng.randint(3, 6)):
        x = rng.random()
        w = rng.choice([wi, wi, wp])
        if x < 0.35:
            g.emit({'f': 'wfield', 'w': w, 'intensity': True}, {'t': 'A', 'kind': 'res', 'n': 0, 'frozen': False})
        elif x < 0.5:
            g.emit({'f': 'wfield', 'w': w, 'intensity': False}, {'t': 'A', 'kind': 'res', 'n': 0, 'frozen': False})
        elif x < 0.8:
            g.emit({'f': 'insert', 'w': w, 'out': acc, 'weight': rng.choice([1, 0.5])}, {'t': 'alias', 'of': acc})
        else:
            g.emit({'f': 'prop_dft', 'w': wp, 'shape': n // osamp, 'os': osamp}, {'t': 'W', 'ptype': 'image', 'tilt': False})
    ip = g.emit({'f': 'plane', 'cls': 'Image', 'amp': None, 'opd': None, 'mask': None, 'nseg': 1},
                {'t': 'P', 'cls': 'Image', 'nseg': 1, 'opd': None, 'amp': None, 'mfloat': True, 'tilt': False, 'arrmask': False})
    g.emit({'f': 'mul', 'p': ip, 'w': wi}, {'t': 'W', 'ptype': 'image', 'tilt': False})
    return {'op': 'hist', 'n': n, 'steps': g.steps, 'fresh': 'all', 'directed': 'wave-reads'}


def gen_confluence(rng):
    return {'op': 'confl', 'n': rng.choice([6, 8]), 'seed': rng.randint(0, 40), 'seg': rng.random() < 0.4,
            'ta': [rng.choice([0, 1, -2, 3]), rng.choice([0, 2, -1])], 'tb': [rng.choice([1, -1, 2]), rng.choice([0, 1, -3])],
            'routes': rng.sample(['A', 'B', 'C', 'D'], 2), 'wl': rng.randint(0, 1), 'os': rng.choice([1, 2])}


def classify(c):
    return c.get('directed') or ('hist+newinterp' if c.get('newinterp') else c['op'])


def nontrivial(c):
    if c['op'] == 'confl':
        return c['ta'] != [0, 0] or c['tb'] != [0, 0]
    seen = set()
    for s in c['steps']:
        if s['f'] in ('poke', 'insert', 'set_opd', 'set_amp', 'spec_to', 'spec_trim', 'spec_resample'):
            return True
        if s['f'] == 'fit_tilt' and s['inplace']:
            return True
        if s['f'] == 'arr' and s['frozen']:
            return True
        if s['f'] == 'dft2':
            k = (s['a'], s['shape'])
            if k in seen:
                return True
            seen.add(k)
        if s['f'] in ('dft2', 'prop_fft') and (s.get('out') is not None or s.get('scratch') is not None):
            return True
    return False


# ------------------------------------------------------------------ model side
FN_CODES = {'adc': 101, 'collect_charge': 102, 'collect_charge_bayer': 103, 'pixel': 104, 'pixelate': 105,
            'charge_diffusion': 106, 'jitter': 107, 'smear': 108, 'util_rescale': 109, 'rebin': 110, 'shot_noise': 111,
            'read_noise': 112, 'dark_current': 113, 'power_spectrum': 114, 'sample': 115, 'normalize_power': 116,
            'zernike_basis': 117, 'zernike_fit': 118, 'zernike_remove': 119, 'zernike_compose': 120, 'zernike_coordinates': 121,
            'tilt_shift': 128, 'rule07': 129, 'bayer_channels': 130, 'scratch_shape': 131, 'plane_read': 132, 'mesh': 122, 'rectangle': 123, 'circle': 124, 'hexagon': 125, 'pad': 126, 'window': 127,
            'smear_random': 201, 'cosmic_rays': 202}


def eopt(x):
    return [0] if x is None else [1, x]


def arr_size(s, n):
    return int(np.prod(make_array(s['kind'], s['n'], 0).shape))


def encode(c):
    if c['op'] != 'hist':
        return None
    out = [1, len(c['steps'])]
    n = c['n']
    for s in c['steps']:
        f = s['f']
        if f == 'arr':
            out += [1, arr_size(s, n), 1 if s['frozen'] else 0]
        elif f == 'poke':
            out += [2, s['r']]
        elif f == 'plane':
            out += [3, {'Plane': 0, 'Pupil': 1, 'Image': 2}[s['cls']]] + eopt(s['amp']) + eopt(s['opd']) + eopt(s['mask']) + [s['nseg']]
        elif f == 'set_opd':
            out += [4, s['p'], s['a']]
        elif f == 'set_amp':
            out += [5, s['p'], s['a']]
        elif f == 'fit_tilt':
            out += [6, s['p'], 1 if s['inplace'] else 0]
        elif f == 'copy':
            out += [7, s['p']]
        elif f == 'rescale':
            out += [8, s['p']]
        elif f == 'wave':
            out += [9] + ([1, 1, 1] if s.get('tilt') else [0])
        elif f == 'poke_attr':
            out += [24, s['p'], s['attr']]
        elif f == 'mul_tilt':
            out += [25, s['w'], 1, 2]
        elif f == 'tilt_plane':
            out += [3, 0, 0, 0, 0, 1]        # Plane.__init__ with scalar amplitude, opd and mask
        elif f == 'resample':
            out += [8, s['p']]
        elif f == 'mul':
            out += [10, s['p'], s['w']]
        elif f == 'prop_dft':
            m = s['shape'] * s['os']
            out += [11, s['w'], 1, 4] + [n, n, m, m] * 4
        elif f == 'prop_fft':
            out += [12, s['w']] + eopt(s['scratch'])
        elif f == 'insert':
            out += [13, s['w'], s['out']]
        elif f == 'wfield':
            out += [14, s['w'], 1 if s['intensity'] else 0]
        elif f == 'dft2':
            M = s['shape'] or n
            out += [15, s['a'], n, n, M, M] + eopt(s['out']) + [1 if s['inverse'] else 0, 0]
        elif f == 'fn':
            out += [16, FN_CODES[s['name']], len(s['args'])] + list(s['args']) + [0]
        elif f == 'randfn':
            out += [17, FN_CODES[s['name']], len(s['args'])] + list(s['args'])
        elif f == 'spec':
            out += [18, s['wave'], s['value']]
        elif f == 'spec_scalar':
            out += [19, s['s']]
        elif f == 'spec_bin':
            out += [20, s['s1'], s['s2']]
        elif f == 'spec_to':
            out += [21, s['s'], 1 if s.get('flux') else 0]
        elif f == 'spec_trim':
            out += [22, s['s']]
        elif f == 'spec_resample':
            out += [23, s['s'], s['wave']]
        else:
            raise ValueError(f)
    return out


def decode(c, ints):
    rd = C.Reader(ints, 1)
    st = rd.z()
    if st != 0:
        return {'err': 'model'}
    n = rd.z()
    steps = []
    for _ in range(n):
        status = rd.z()
        writes = rd.lst(rd.z)
        owrites = rd.lst(rd.z)
        rngchg = rd.z()
        tag = rd.z()
        rid = rd.z()
        slots = rd.lst(rd.z)
        upd = rd.lst(lambda: (rd.z(), rd.lst(rd.z)))
        steps.append({'status': status, 'writes': writes, 'owrites': owrites, 'rng': rngchg, 'tag': tag, 'rid': rid,
                      'slots': slots, 'upd': upd})
    assert rd.done()
    return {'steps': steps}


# ------------------------------------------------------------------ implementation side: public state <-> plain data
def L():
    return C.import_lentil()


def tilt_xy(t):
    """plain description of an entry of a tilt list (lentil.Tilt or lentil.DispersiveTilt)"""
    lentil = L()
    if isinstance(t, lentil.DispersiveTilt):
        return ('D', tuple(float(v) for v in np.asarray(t.trace).ravel()), tuple(float(v) for v in np.asarray(t.dispersion).ravel()))
    if isinstance(t, lentil.Tilt):
        return ('T', float(t.x), float(t.y))
    return ('?', type(t).__name__)


def mk_tilt(d):
    lentil = L()
    if d[0] == 'D':
        return lentil.DispersiveTilt(trace=list(d[1]), dispersion=list(d[2]))
    return lentil.Tilt(x=d[2], y=d[1])      # Tilt(x, y) stores self.x = y, self.y = x


def describe(x):
    lentil = L()
    if isinstance(x, np.ndarray):
        return ('A', np.array(plain(x), copy=True), bool(plain(x).flags.writeable), sub_of(x))
    if isinstance(x, (lentil.Tilt, lentil.DispersiveTilt)):
        return ('TP', tilt_xy(x))
    if isinstance(x, lentil.Plane):
        d = {'cls': type(x).__name__, 'amp': np.array(x.amplitude, copy=True), 'opd': np.array(x.opd, copy=True),
             'mask': np.array(x.mask, copy=True), 'ps': x.pixelscale, 'diameter': x._diameter,
             'fl': getattr(x, 'focal_length', None), 'tilt': [tilt_xy(t) for t in x.tilt],
             '_opd_w': bool(x.opd.flags.writeable),
             '_opd_is_amp': bool(x.opd.shape == x.amplitude.shape and np.shares_memory(x.opd, x.amplitude))}
        return ('P', d)
    if isinstance(x, lentil.Wavefront):
        d = {'wl': x.wavelength, 'ps': None if x.pixelscale is None else tuple(float(v) for v in x.pixelscale),
             'fl': x.focal_length, 'shape': tuple(int(v) for v in x.shape), 'ptype': str(x.ptype), 'diameter': x.diameter,
             'fields': [(np.array(f.data, copy=True), None if f.offset is None else [int(v) for v in f.offset],
                         f.pixelscale, [tilt_xy(t) for t in f.tilt]) for f in x.data]}
        return ('W', d)
    if isinstance(x, lentil.radiometry.Spectrum):
        return ('S', np.array(x.wave, copy=True), np.array(x.value, copy=True), x.waveunit, x.valueunit)
    if isinstance(x, tuple):
        return ('T', [describe(v) for v in x])
    return ('V', x)


def rebuild(d):
    lentil = L()
    k = d[0]
    if k == 'A':
        a = np.array(d[1], copy=True)
        a.setflags(write=d[2])
        return wrap_sub(a, d[3] if len(d) > 3 else None)
    if k == 'TP':
        return mk_tilt(d[1])
    if k == 'P':
        p = d[1]
        cls = getattr(lentil, p['cls'])
        kw = dict(amplitude=np.array(p['amp'], copy=True), opd=np.array(p['opd'], copy=True), mask=np.array(p['mask'], copy=True),
                  pixelscale=None if p['ps'] is None else tuple(p['ps']))
        if p['_opd_is_amp']:
            kw['opd'] = kw['amplitude']      # the caller gave one array for both attributes: keep the sharing
        if p['cls'] == 'Pupil':
            kw['focal_length'] = p['fl']
        if p['cls'] != 'Image':
            kw['diameter'] = p['diameter']
        q = cls(**kw)
        q.opd.setflags(write=p['_opd_w'])
        q.tilt = [mk_tilt(t) for t in p['tilt']]
        return q
    if k == 'W':
        w = d[1]
        q = lentil.Wavefront.empty(wavelength=w['wl'], pixelscale=w['ps'], diameter=w['diameter'], focal_length=w['fl'],
                                   shape=w['shape'], ptype=w['ptype'])
        q.data = [lentil.field.Field(data=np.array(fd, copy=True), pixelscale=ps, offset=off,
                                     tilt=[mk_tilt(t) for t in tl])
                  for (fd, off, ps, tl) in w['fields']]
        return q
    if k == 'S':
        return lentil.radiometry.Spectrum(np.array(d[1], copy=True), np.array(d[2], copy=True), waveunit=d[3], valueunit=d[4])
    if k == 'T':
        return tuple(rebuild(v) for v in d[1])
    return d[1]


def same(a, b, tol=TOL):
    """deep comparison of two describe() values"""
    if type(a) != type(b):
        return False
    if isinstance(a, np.ndarray):
        if a.shape != b.shape or a.dtype != b.dtype:
            return False
        if a.size == 0:
            return True
        if a.dtype.kind in 'fc':
            fa = np.isfinite(a)
            if not np.array_equal(fa, np.isfinite(b)):
                return False
            if not fa.all():
                if not np.array_equal(a[~fa].astype(str), b[~fa].astype(str)):
                    return False
                a, b = a[fa], b[fa]
                if a.size == 0:
                    return True
            scale = max(float(np.max(np.abs(a))), float(np.max(np.abs(b))), 1e-300)
            return bool(np.max(np.abs(a - b)) <= tol * scale)
        return bool(np.array_equal(a, b))
    if isinstance(a, (list, tuple)):
        return len(a) == len(b) and all(same(x, y, tol) for x, y in zip(a, b))
    if isinstance(a, dict):
        return a.keys() == b.keys() and all(same(a[k], b[k], tol) for k in a if not k.startswith('_'))
    if isinstance(a, float):
        if a != a or b != b:
            return a != a and b != b
        return abs(a - b) <= tol * max(abs(a), abs(b), 1e-300) or a == b
    return a == b


# ------------------------------------------------------------------ the calls
def call_step(s, args, n):
    """perform step s on the live arguments `args` (dict name -> object). Returns (result, inplace-target objects)"""
    lentil = L()
    f = s['f']
    if f == 'poke':
        a = args['r']
        if s.get('mode') == 'refill':     # the caller refills its buffer in place with other contents of the same kind
            a[...] = make_array(s['kind'], s['kn'], s['seed'])
        else:
            d = 1 if a.dtype.kind in 'biu' or float(np.max(np.abs(a))) > 1e-3 else 1e-8
            a.flat[0] = a.flat[0] + d
            a.flat[-1] = a.flat[-1] * 2 + d
        return None, [a]
    if f == 'poke_attr':
        pl = args['p']
        a = [pl.amplitude, pl.opd, pl.mask][s['attr']]
        if s['attr'] == 2:
            # keep the mask binary and its bounding box: switch off one interior sample of the support
            idx = np.argwhere(a != 0)
            lo, hi = idx.min(axis=0), idx.max(axis=0)
            inner = [tuple(i) for i in idx if all(lo[k] < i[k] < hi[k] for k in range(-2, 0))]
            a[inner[s['seed'] % len(inner)]] = 0
        else:
            a[...] = a * 0.5 + (1e-9 if s['attr'] == 1 else 0.25) * (1 + s['seed'] % 3)
        return None, [a]
    if f == 'tilt_plane':
        k = s['kind']
        if k == 'Tilt':
            return lentil.Tilt(x=s['x'] * 1e-6, y=s['y'] * 1e-6), []
        if k == 'Disp':
            return lentil.DispersiveTilt(trace=[0.5, 0.0], dispersion=[2.5e-3 * s['x'], WLS[1]]), []
        if k == 'Disp2d':      # 2nd order dispersion: solved numerically; the reference wavelength is one of WLS
            return lentil.DispersiveTilt(trace=[0.5, 0.0], dispersion=[12.5, 2.5e-3, WLS[1]]), []
        return lentil.DispersiveTilt(trace=[30.0, 0.5, 0.0], dispersion=[2.5e-3, WLS[1]]), []
    if f == 'mul_tilt' and 'tp' in args:
        return args['w'] * args['tp'], []
    if f == 'mul_tilt':
        if s['kind'] == 'Disp':
            tp = lentil.DispersiveTilt(trace=[0.5, 0.0], dispersion=[0.05 * s['x'], 6e-7])
        else:
            tp = lentil.Tilt(x=s['x'] * 1e-6, y=s['y'] * 1e-6)
        return args['w'] * tp, []
    if f == 'resample':
        return args['p'].resample(DX * float(Fraction(s['factor']))), []
    if f == 'plane':
        cls = getattr(lentil, s['cls'])
        kw = {}
        if 'amp' in args:
            kw['amplitude'] = args['amp']
        if 'opd' in args:
            kw['opd'] = args['opd']
        if 'mask' in args:
            kw['mask'] = args['mask']
        if s['cls'] == 'Pupil':
            kw.update(pixelscale=DX, focal_length=FOCAL)
        elif s['cls'] == 'Plane':
            kw.update(pixelscale=DX)
        return cls(**kw), []
    if f == 'set_opd':
        args['p'].opd = args['a']
        return None, [args['p']]
    if f == 'set_amp':
        args['p'].amplitude = args['a']
        return None, [args['p']]
    if f == 'fit_tilt':
        r = args['p'].fit_tilt(inplace=s['inplace'])
        return r, [args['p']] if s['inplace'] else []
    if f == 'copy':
        return args['p'].copy(), []
    if f == 'rescale':
        return args['p'].rescale(float(Fraction(s['scale']))), []
    if f == 'wave':
        if s.get('tilt'):
            return lentil.Wavefront(WLS[s['wl']], tilt=[s['tilt'][0] * 1e-6, s['tilt'][1] * 1e-6]), []
        return lentil.Wavefront(WLS[s['wl']]), []
    if f == 'mul':
        if s.get('order') == 'pw':
            return args['p'] * args['w'], []        # Wavefront.__rmul__
        return args['w'] * args['p'], []
    if f == 'prop_dft':
        return lentil.propagate_dft(args['w'], pixelscale=DU, shape=(s['shape'], s['shape']), oversample=s['os']), []
    if f == 'prop_fft':
        scr = args.get('scratch')
        return lentil.propagate_fft(args['w'], pixelscale=DU, oversample=s['os'], scratch=scr), ([scr] if scr is not None else [])
    if f == 'insert':
        return args['w'].insert(args['out'], weight=s['weight']), [args['out']]
    if f == 'wfield':
        return (args['w'].intensity if s['intensity'] else args['w'].field), []
    if f == 'dft2':
        out = args.get('out')
        kw = dict(alpha=float(Fraction(s['alpha'])), shape=s['shape'], shift=tuple(s['shift']), unitary=s['unitary'], out=out)
        if s['inverse']:
            r = lentil.fourier.idft2(args['a'], **kw)
        else:
            r = lentil.fourier.dft2(args['a'], offset=tuple(s['offset']), **kw)
        return r, ([out] if out is not None else [])
    if f in ('fn', 'randfn'):
        a = [args['a%d' % i] for i in range(len(s['args']))]
        nm = s['name']
        D = lentil.detector
        if nm == 'adc':
            gain = 0.7 if s['gain'] == 'scalar' else a[1]
            return D.adc(a[0], gain, saturation_capacity=s['sat'], dtype=s['dtype']), []
        if nm == 'collect_charge':
            qe = 0.8 if s['qe'] == 'scalar' else a[2]
            return D.collect_charge(a[0], a[1], qe, waveunit=s.get('unit', 'nm')), []
        if nm == 'collect_charge_bayer':
            return D.collect_charge_bayer(a[0], a[1], a[2], 0.5, a[2], 'RGGB', oversample=1), []
        if nm == 'pixel':
            return D.pixel(a[0], oversample=2), []
        if nm == 'pixelate':
            return D.pixelate(a[0], 2), []
        if nm == 'charge_diffusion':
            return D.charge_diffusion(a[0], 0.7), []
        if nm == 'jitter':
            return lentil.jitter(a[0], 1.5), []
        if nm == 'smear':
            return lentil.smear(a[0], 2.0, angle=30), []
        if nm == 'util_rescale':
            return lentil.rescale(a[0], s.get('k', 2)), []
        if nm == 'rebin':
            return lentil.rebin(a[0], s.get('k', 2)), []
        if nm == 'pad':
            return lentil.pad(a[0], (a[0].shape[0] + s['k'], a[0].shape[1] + s['k'])), []
        if nm == 'window':
            return lentil.util.window(a[0], shape=(a[0].shape[0] - s['k'], a[0].shape[1] - s['k'])), []
        if nm == 'normalize_power':
            return lentil.normalize_power(a[0]), []
        if nm == 'shot_noise':
            return D.shot_noise(a[0], method=s['method'], seed=s['seed']), []
        if nm == 'read_noise':
            return D.read_noise(a[0], 5, seed=s['seed']), []
        if nm == 'dark_current':
            return D.dark_current(200, shape=(n, n), fpn_factor=0.3, seed=s['seed']), []
        if nm == 'rule07':
            return D.rule07_dark_current(150.0, 5e-6, 18e-6, shape=(n, n), fpn_factor=0.3, seed=s['seed']), []
        if nm == 'bayer_channels':
            return D.collect_charge_bayer(a[0], a[1], a[2], 0.5, a[2], 'RGGB', oversample=1, flatten=False), []
        if nm == 'scratch_shape':
            return lentil.propagate.scratch_shape(WLS[s['wl']], DX, DU, FOCAL, s['os']), []
        if nm == 'plane_read':
            v = getattr(a[0], s['attr'])
            return (str(v) if s['attr'] == 'ptype' else v), []
        if nm == 'power_spectrum':
            return lentil.power_spectrum(a[0], pixelscale=DX, rms=1e-8, half_power_freq=5, exp=3, seed=s['seed']), []
        if nm == 'sample':
            return a[0].sample(a[1], waveunit=s['unit']), []
        if nm == 'tilt_shift':
            return a[0].shift(wavelength=WLS[s['wl']], xs=0., ys=0., z=FOCAL), []
        if nm == 'zernike_basis':
            return lentil.zernike_basis(a[0], s['modes']), []
        if nm == 'zernike_fit':
            kw = {} if len(a) < 4 else dict(rho=a[2], theta=a[3])
            return lentil.zernike_fit(a[0], a[1], s['modes'], normalize=s.get('normalize', True), **kw), []
        if nm == 'zernike_remove':
            kw = {} if len(a) < 4 else dict(rho=a[2], theta=a[3])
            return lentil.zernike_remove(a[0], a[1], s['modes'], **kw), []
        if nm == 'zernike_compose':
            kw = {} if len(a) < 3 else dict(rho=a[1], theta=a[2])
            return lentil.zernike_compose(a[0], s['coeffs'], **kw), []
        if nm == 'zernike_coordinates':
            return lentil.zernike_coordinates(a[0]), []
        if nm == 'mesh':
            return lentil.helper.mesh(tuple(s['shape']), shift=tuple(s['shift']), angle=s['angle']), []
        if nm == 'rectangle':
            return lentil.rectangle(tuple(s['shape']), s['w'], s['h'], shift=tuple(s['shift']), angle=s['angle']), []
        if nm == 'circle':
            return lentil.circle(tuple(s['shape']), s['r'], shift=tuple(s['shift'])), []
        if nm == 'hexagon':
            return lentil.hexagon(tuple(s['shape']), s['r'], shift=tuple(s['shift'])), []
        if nm == 'smear_random':
            return lentil.smear(a[0], 2.0), []
        if nm == 'cosmic_rays':
            return D.cosmic_rays((n, n), (5e-6, 5e-6, 3e-6), 2000.0), []
        raise ValueError(nm)
    if f == 'spec':
        return lentil.radiometry.Spectrum(args['wave'], args['value'], waveunit='nm', valueunit='photlam' if s['flux'] else None), []
    if f == 'spec_scalar':
        sp = args['s']
        return {'mul': sp.multiply, 'add': sp.add, 'sub': sp.subtract, 'div': sp.divide}[s['opname']](s['x']), []
    if f == 'spec_bin':
        sp = args['s1']
        return {'mul': sp.multiply, 'add': sp.add, 'sub': sp.subtract}[s['opname']](args['s2']), []
    if f == 'spec_to':
        args['s'].to(s['unit'])
        return None, [args['s']]
    if f == 'spec_trim':
        args['s'].trim()
        return None, [args['s']]
    if f == 'spec_resample':
        args['s'].resample(args['wave'])
        return None, [args['s']]
    raise ValueError(f)


ARGKEYS = {'tilt_plane': [], 'poke_attr': ['p'], 'mul_tilt': ['w', 'tp'], 'resample': ['p'], 'poke': ['r'], 'plane': ['amp', 'opd', 'mask'], 'set_opd': ['p', 'a'], 'set_amp': ['p', 'a'], 'fit_tilt': ['p'],
           'copy': ['p'], 'rescale': ['p'], 'wave': [], 'mul': ['p', 'w'], 'prop_dft': ['w'], 'prop_fft': ['w', 'scratch'],
           'insert': ['w', 'out'], 'wfield': ['w'], 'dft2': ['a', 'out'], 'spec': ['wave', 'value'], 'spec_scalar': ['s'],
           'spec_bin': ['s1', 's2'], 'spec_to': ['s'], 'spec_trim': ['s'], 'spec_resample': ['s', 'wave']}


def step_args(s, regs):
    """name -> register index for the object arguments of a step"""
    if s['f'] in ('fn', 'randfn'):
        return {'a%d' % i: r for i, r in enumerate(s['args'])}
    return {k: s[k] for k in ARGKEYS[s['f']] if s.get(k) is not None}


SEEDED = ('shot_noise', 'read_noise', 'dark_current', 'power_spectrum', 'rule07')


WORKSPACE = {'prop_fft': 'scratch', 'dft2': 'out'}     # buffers whose previous contents must not matter


def run_call(s, argdesc, n, global_seed=None, scramble=False):
    """rebuild the arguments from their public description, make the call, return the canonical outcome.
    scramble: fill the workspace argument (propagate_fft scratch, dft2/idft2 out=) with other contents first - the
    documentation says it is overwritten, so the result may not depend on what an earlier call left in it"""
    if global_seed is not None:
        np.random.seed(global_seed)
    args = {k: rebuild(d) for k, d in argdesc.items()}
    ws = WORKSPACE.get(s['f'])
    if scramble and ws in args and args[ws].flags.writeable:
        w = args[ws]
        w[...] = (pat(w.shape, 3) + 0.25) * (1 + 2j if w.dtype.kind == 'c' else 1)
    try:
        try:
            res, targets = call_step(s, args, n)
        except Exception as e:
            return ('err', type(e).__name__, 'read-only' in str(e))
        return ('ok', describe(res), [describe(t) for t in targets])
    finally:
        cleanup_mm()


# ------------------------------------------------------------------ fresh-process server (fork per request from a pristine interpreter)
ZSRC = r'''
import sys
from harness.props import c10
c10.L()
c10.serve(sys.stdin.buffer, sys.stdout.buffer)
'''


def serve(inp, outp):
    """request loop of a PRISTINE interpreter (lentil imported, nothing called): every request is handled in a fork,
    so each call / each whole case starts from the pristine state"""
    import traceback
    while True:
        hdr = inp.read(4)
        if len(hdr) < 4:
            break
        (ln,) = struct.unpack('<I', hdr)
        payload = inp.read(ln)
        r, w = os.pipe()
        pid = os.fork()
        if pid == 0:
            try:
                os.close(r)
                try:
                    req = pickle.loads(payload)
                    if req[0] == 'call':
                        res = run_call(*req[1:], scramble=True)
                    else:
                        start_local_server()
                        STATS.clear()
                        res = run_case(req[1])
                        res['_stats'] = dict(STATS)
                    data = pickle.dumps(res)
                except BaseException:
                    data = pickle.dumps(('harness-error', traceback.format_exc()[-1500:]))
                with os.fdopen(w, 'wb') as fh:
                    fh.write(data)
            finally:
                os._exit(0)
        os.close(w)
        with os.fdopen(r, 'rb') as fh:
            data = fh.read()
        os.waitpid(pid, 0)
        outp.write(struct.pack('<I', len(data)))
        outp.write(data)
        outp.flush()


class LocalServer:
    def __init__(self, stdin, stdout, pid):
        self.stdin, self.stdout, self.pid = stdin, stdout, pid

    def poll(self):
        return None

    def kill(self):
        try:
            os.kill(self.pid, 9)
        except OSError:
            pass


def start_local_server():
    """inside a still pristine case process: fork a pristine helper that will serve the fresh-process calls of this case"""
    global _zy
    a_r, a_w = os.pipe()
    b_r, b_w = os.pipe()
    pid = os.fork()
    if pid == 0:
        try:
            os.close(a_w)
            os.close(b_r)
            serve(os.fdopen(a_r, 'rb'), os.fdopen(b_w, 'wb'))
        finally:
            os._exit(0)
    os.close(a_r)
    os.close(b_w)
    _zy = LocalServer(os.fdopen(a_w, 'wb'), os.fdopen(b_r, 'rb'), pid)


_zy = None


def spawn_zygote():
    env = dict(os.environ)
    env['PYTHONPATH'] = C.REPO + ':' + C.ROOT
    env.update(OMP_NUM_THREADS='1', OPENBLAS_NUM_THREADS='1', MKL_NUM_THREADS='1', PYTHONHASHSEED='0', VERIF_REPO=C.REPO)
    return subprocess.Popen([sys.executable, '-W', 'ignore', '-c', ZSRC], stdin=subprocess.PIPE, stdout=subprocess.PIPE,
                            env=env, cwd=C.ROOT)


def talk(z, req):
    payload = pickle.dumps(req)
    z.stdin.write(struct.pack('<I', len(payload)))
    z.stdin.write(payload)
    z.stdin.flush()
    hdr = z.stdout.read(4)
    (ln,) = struct.unpack('<I', hdr)
    return pickle.loads(z.stdout.read(ln))


_prefetched = {}      # id(case) -> Future


def start_prefetch(cases, workers):
    """run the generated cases ahead of the runner, a few at a time, each in its own pristine process"""
    import threading
    from concurrent.futures import ThreadPoolExecutor
    local = threading.local()

    def work(c):
        for attempt in (0, 1):
            try:
                if getattr(local, 'z', None) is None or local.z.poll() is not None:
                    local.z = spawn_zygote()
                return talk(local.z, ('case', c))
            except Exception:
                try:
                    local.z.kill()
                except Exception:
                    pass
                local.z = None
        return None

    ex = ThreadPoolExecutor(max_workers=workers)
    for c in cases:
        _prefetched[id(c)] = (c, ex.submit(work, c))
    ex.shutdown(wait=False)


def zygote():
    global _zy
    if _zy is None or _zy.poll() is not None:
        env = dict(os.environ)
        env['PYTHONPATH'] = C.REPO + ':' + C.ROOT
        env.update(OMP_NUM_THREADS='1', OPENBLAS_NUM_THREADS='1', MKL_NUM_THREADS='1', PYTHONHASHSEED='0',
                   VERIF_REPO=C.REPO)
        _zy = subprocess.Popen([sys.executable, '-W', 'ignore', '-c', ZSRC], stdin=subprocess.PIPE, stdout=subprocess.PIPE,
                               env=env, cwd=C.ROOT)
    return _zy


def server_request(req):
    global _zy
    payload = pickle.dumps(req)
    for attempt in (0, 1):
        try:
            z = zygote()
            z.stdin.write(struct.pack('<I', len(payload)))
            z.stdin.write(payload)
            z.stdin.flush()
            hdr = z.stdout.read(4)
            (ln,) = struct.unpack('<I', hdr)
            return pickle.loads(z.stdout.read(ln))
        except Exception:
            try:
                _zy.kill()
            except Exception:
                pass
            _zy = None
    return None


def fresh_call(s, argdesc, n, gseed):
    res = server_request(('call', s, argdesc, n, gseed))
    return res if res is not None else new_interpreter_call(s, argdesc, n, gseed)


def s_cls(p):
    return type(p).__name__


def forked(fn):
    """run fn() in a fork of this process and return its (picklable) value"""
    sys.stdout.flush()
    sys.stderr.flush()
    r, w = os.pipe()
    pid = os.fork()
    if pid == 0:
        try:
            os.close(r)
            try:
                data = pickle.dumps(fn())
            except BaseException as e:
                data = pickle.dumps(('harness-error', repr(e)))
            with os.fdopen(w, 'wb') as fh:
                fh.write(data)
        finally:
            os._exit(0)
    os.close(w)
    with os.fdopen(r, 'rb') as fh:
        data = fh.read()
    os.waitpid(pid, 0)
    return pickle.loads(data)


NEW_PLANE = ('copy', 'rescale', 'resample', 'fit_tilt')      # documented to hand back a new plane


def edit_probe(res, src):
    """(in a fork) edit the plane a call returned in every documented way - attribute assignment, in-place tilt fit,
    writes into its arrays, its tilt list - and say whether the INPUT plane is still what it was"""
    lentil = L()
    before = describe(src)
    for a in (res.opd, res.amplitude):
        if a.flags.writeable and a.size > 1 and a.dtype.kind == 'f':
            a[...] = a * 0.5 + 1e-9
    res.tilt.append(lentil.Tilt(x=1e-6, y=-2e-6))
    try:
        res.fit_tilt(inplace=True)
    except Exception:
        pass
    res.opd = np.asarray(res.opd) * 2 + 1e-9
    res.amplitude = np.asarray(res.amplitude) * 0.5
    return same(before, describe(src))


def forked_call(s, argdesc, n, gseed=None):
    """repeat a call in a fork of THIS process: the child sees every piece of hidden state the history has built up so
    far (caches, memos, the global generator), and the history itself is not perturbed by the repetition"""
    sys.stdout.flush()
    sys.stderr.flush()
    r, w = os.pipe()
    pid = os.fork()
    if pid == 0:
        try:
            os.close(r)
            try:
                data = pickle.dumps(run_call(s, argdesc, n, gseed))
            except BaseException as e:
                data = pickle.dumps(('harness-error', repr(e)))
            with os.fdopen(w, 'wb') as fh:
                fh.write(data)
        finally:
            os._exit(0)
    os.close(w)
    with os.fdopen(r, 'rb') as fh:
        data = fh.read()
    os.waitpid(pid, 0)
    return pickle.loads(data)


NEWSRC = r'''
import sys, pickle
from harness.props import c10
s, argdesc, n, gseed = pickle.loads(sys.stdin.buffer.read())
sys.stdout.buffer.write(pickle.dumps(c10.run_call(s, argdesc, n, gseed)))
'''


def new_interpreter_call(s, argdesc, n, gseed):
    env = dict(os.environ)
    env['PYTHONPATH'] = C.REPO + ':' + C.ROOT
    env.update(OMP_NUM_THREADS='1', OPENBLAS_NUM_THREADS='1', MKL_NUM_THREADS='1', PYTHONHASHSEED='0', VERIF_REPO=C.REPO)
    p = subprocess.run([sys.executable, '-W', 'ignore', '-c', NEWSRC], input=pickle.dumps((s, argdesc, n, gseed)),
                       stdout=subprocess.PIPE, stderr=subprocess.PIPE, env=env, cwd=C.ROOT, timeout=120)
    if p.returncode != 0:
        return ('harness-error', p.stderr.decode()[-500:])
    return pickle.loads(p.stdout)


# ------------------------------------------------------------------ tracking of buffers and objects
def snap(a):
    a = plain(a)
    return (a.tobytes(), a.dtype.str, a.shape, bool(a.flags.writeable))


def view_id(a):
    return (a.__array_interface__['data'][0], a.shape, a.strides, a.dtype.str)


class Tracker:
    def __init__(self):
        self.bufs = []        # list of [array, snapshot]
        self.objs = []        # list of [object, fingerprint]

    def buf_of(self, a):
        """impl buffer id of an array: the id of a tracked buffer it shares memory with, else a new one"""
        for i, (b, _) in enumerate(self.bufs):
            if b is a or (np.may_share_memory(a, b) and np.shares_memory(a, b)):
                return i, False
        self.bufs.append([a, snap(a)])
        return len(self.bufs) - 1, True

    def obj_of(self, o):
        for i, (x, _) in enumerate(self.objs):
            if x is o:
                return i, False
        self.objs.append([o, None])
        self.objs[-1][1] = self.fingerprint(o)
        return len(self.objs) - 1, True

    def slots(self, o):
        lentil = L()
        if isinstance(o, np.ndarray):
            return [o]
        if isinstance(o, lentil.Plane):
            return [o.amplitude, o.opd, o.mask]
        if isinstance(o, lentil.Wavefront):
            return [f.data for f in o.data]
        if isinstance(o, lentil.radiometry.Spectrum):
            return [o.wave, o.value]
        return []

    def fingerprint(self, o):
        """structure of an object: which views it holds and its non-array attributes (array contents are
        covered by the buffer snapshots)"""
        lentil = L()
        if isinstance(o, lentil.Plane):
            scalars = tuple((k, repr(v)) for k, v in sorted(vars(o).items())
                            if isinstance(v, (int, float, complex, str, bool, type(None), tuple, np.generic)))
            small = tuple((k, v.tobytes()) for k, v in sorted(vars(o).items())
                          if isinstance(v, np.ndarray) and k in ('trace', 'dispersion'))
            return ('P', type(o).__name__, tuple(view_id(a) for a in self.slots(o)), tuple(tilt_xy(t) for t in o.tilt),
                    repr(o.pixelscale), str(o.ptype), repr(getattr(o, 'focal_length', None)), repr(o._diameter), repr(o._slice),
                    tuple(sorted(vars(o))), scalars, small)
        if isinstance(o, lentil.Wavefront):
            return ('W', repr(o.wavelength), repr(None if o.pixelscale is None else tuple(o.pixelscale)), repr(o.focal_length),
                    repr(tuple(o.shape)), str(o.ptype), repr(o.diameter),
                    tuple((view_id(f.data), repr(None if f.offset is None else list(f.offset)), repr(f.pixelscale),
                           tuple(tilt_xy(t) for t in f.tilt),
                           tuple(tuple((k, repr(v)) for k, v in sorted(vars(t).items())
                                       if isinstance(v, (int, float, str, bool, type(None), np.generic))) for t in f.tilt))
                          for f in o.data), tuple(sorted(vars(o))))
        if isinstance(o, lentil.radiometry.Spectrum):
            return ('S', view_id(o.wave), view_id(o.value), o.waveunit, o.valueunit, tuple(sorted(vars(o))))
        return None

    def scan(self):
        """register every buffer reachable from tracked objects; return changed buffers and objects"""
        for o, _ in list(self.objs):
            for a in self.slots(o):
                self.buf_of(a)
        changed = []
        for i, (b, sn) in enumerate(self.bufs):
            now = snap(b)
            if now != sn:
                changed.append(i)
                self.bufs[i][1] = now
        ochanged = []
        for i, (o, fp) in enumerate(self.objs):
            now = self.fingerprint(o)
            if now != fp:
                ochanged.append(i)
                self.objs[i][1] = now
        return changed, ochanged


def rng_state():
    st = np.random.get_state()
    return (st[0], st[1].tobytes(), st[2], st[3], st[4])


def _errcall(kind, flag):       # a harmless floating-point error callback installed by the "caller"
    return None


ERRSTATES = [None,                                                                   # numpy defaults
             dict(divide='ignore', invalid='ignore', over='ignore', under='ignore'),
             dict(divide='call', invalid='call', over='ignore', under='ignore'),
             dict(divide='ignore', invalid='warn', over='warn', under='ignore')]


def set_caller_process_state(k):
    """the caller's own numpy floating-point error policy and warnings filters (process state, like the generator)"""
    import warnings
    cfg = ERRSTATES[k % len(ERRSTATES)]
    if cfg is not None:
        np.seterr(**cfg)
        if 'call' in cfg.values():
            np.seterrcall(_errcall)
    warnings.filterwarnings('ignore', message='lv-c10 caller filter %d' % k)


def process_state():
    import warnings
    return (tuple(sorted(np.geterr().items())), repr(np.geterrcall()),
            tuple((f[0], getattr(f[1], 'pattern', f[1]), f[2].__name__, getattr(f[3], 'pattern', f[3]), f[4]) for f in warnings.filters),
            repr(np.get_printoptions()))


STATS = {}


def bump(k, n=1):
    STATS[k] = STATS.get(k, 0) + n


REGKEYS = ('p', 'w', 'a', 'out', 'scratch', 'amp', 'opd', 'mask', 'r', 's', 's1', 's2', 'wave', 'value')


def slice_of(c, t):
    """the steps step t depends on (through registers), for a readable replay"""
    st = c['steps']
    acc = set()

    def go(k):
        if k in acc:
            return
        acc.add(k)
        s = st[k]
        for key in REGKEYS:
            v = s.get(key)
            if isinstance(v, int) and not isinstance(v, bool) and 0 <= v < k:
                go(v)
        for v in s.get('args', []):
            go(v)
        # in-place steps on the same registers that came before matter too
    go(t)
    return sorted(acc)


def run_hist(c):
    lentil = L()
    n = c['n']
    tr = Tracker()
    regs = []
    out_steps = []
    np.random.seed(12345)
    set_caller_process_state(c.get('errstate', 0))
    fresh_mode = c.get('fresh', 'all')
    for t, s in enumerate(c['steps']):
        rec = {'f': s['f'] if s['f'] not in ('fn', 'randfn') else s['name']}
        if s['f'] == 'arr':
            a = make_array(s['kind'], s['n'], s['seed'])
            if s['frozen']:
                a.setflags(write=False)
            a = wrap_sub(a, s.get('sub'))
            b, _ = tr.buf_of(a)
            regs.append(a)
            rec.update(st='ok', changed=[], ochanged=[], rng=False, res=('A', None, [b]), upd=[])
            out_steps.append(rec)
            continue
        names = step_args(s, regs)
        if any(regs[r] is None for r in names.values()):
            rec.update(st='skip')
            out_steps.append(rec)
            regs.append(None)
            continue
        args = {k: regs[r] for k, r in names.items()}
        argdesc = {k: describe(v) for k, v in args.items()}
        # what the documentation allows this call to modify (decided here, without the model)
        doc_bufs, doc_objs = [], []
        f = s['f']
        if f == 'poke':
            doc_bufs = [tr.buf_of(args['r'])[0]]
        elif f == 'poke_attr':
            doc_bufs = [tr.buf_of([args['p'].amplitude, args['p'].opd, args['p'].mask][s['attr']])[0]]
        elif f == 'fit_tilt' and s['inplace']:
            doc_objs = [tr.obj_of(args['p'])[0]]      # the plane (its opd attribute and tilt list); no caller ARRAY is written
        elif f == 'insert':
            doc_bufs = [tr.buf_of(args['out'])[0]]
        elif f == 'dft2' and 'out' in args:
            doc_bufs = [tr.buf_of(args['out'])[0]]
        elif f == 'prop_fft' and 'scratch' in args:
            doc_bufs = [tr.buf_of(args['scratch'])[0]]
        elif f in ('set_opd', 'set_amp'):
            doc_objs = [tr.obj_of(args['p'])[0]]
        elif f in ('spec_to', 'spec_trim', 'spec_resample'):
            doc_objs = [tr.obj_of(args['s'])[0]]
        seeded = f == 'fn' and s['name'] in SEEDED
        rand = f == 'randfn'
        r0 = rng_state()
        p0 = process_state()
        try:
            res, targets = call_step(s, args, n)
            st = 'ok'
            ro = False
        except Exception as e:
            res, targets = None, []
            ro = 'read-only' in str(e) or (f == 'dft2' and isinstance(e, ValueError) and 'out' in args
                                           and not args['out'].flags.writeable)   # np.dot refuses a read-only out=
            st = 'ro' if ro else 'err:' + type(e).__name__
        r1 = rng_state()
        p1 = process_state()
        rec['pstate'] = [nm for nm, a, b in zip(('numpy error state (np.geterr)', 'numpy error callback', 'warnings filters',
                                                 'numpy print options'), p0, p1) if a != b]
        rec['st'] = st
        rec['rng'] = r0 != r1
        # result identity and aliasing
        if st != 'ok' or res is None:
            rec['res'] = ('N', None, [])
            regs.append(None)
        elif isinstance(res, np.ndarray):
            b, new = tr.buf_of(res)
            rec['res'] = ('A', None, [b])
            regs.append(res)
        elif not isinstance(res, (lentil.Plane, lentil.Wavefront, lentil.radiometry.Spectrum)) and not isinstance(res, tuple):
            rec['res'] = ('N', None, [])        # a plain value (number, string, shape)
            regs.append(None)
        elif isinstance(res, tuple):
            for x in res:            # e.g. mesh, zernike_coordinates: the returned arrays are the caller's from now on
                if isinstance(x, np.ndarray):
                    tr.buf_of(x)
            rec['res'] = ('N', None, [])
            regs.append(None)
        else:
            oi, new = tr.obj_of(res)
            rec['res'] = ('O', oi, [tr.buf_of(a)[0] for a in tr.slots(res)], isinstance(res, lentil.Wavefront))
            if new and isinstance(res, lentil.Wavefront):
                # tilt lists are mutable state of the fields: does the result share a list with another object?
                others = set()
                for o, _ in tr.objs:
                    if o is res:
                        continue
                    if isinstance(o, lentil.Wavefront):
                        others.update(id(fl.tilt) for fl in o.data)
                    elif isinstance(o, lentil.Plane):
                        others.add(id(o.tilt))
                rec['tilt_alias'] = any(id(fl.tilt) in others for fl in res.data)
            regs.append(res)
        changed, ochanged = tr.scan()
        # newly registered buffers/objects are not "changed"
        rec['changed'] = changed
        rec['ochanged'] = ochanged
        rec['upd'] = [(i, [tr.buf_of(a)[0] for a in tr.slots(tr.objs[i][0])]) for i in ochanged]
        rec['undoc'] = [b for b in changed if b not in doc_bufs]
        rec['oundoc'] = [o for o in ochanged if o not in doc_objs]
        rec['ro_undoc'] = ro and not any(not tr.bufs[b][0].flags.writeable for b in doc_bufs)
        rec['seeded'] = seeded
        # repeatability: same call on arguments rebuilt from their public state
        msgs = []
        if st == 'ok':
            mine = ('ok', describe(res), [describe(x) for x in targets])
        else:
            mine = ('err', st.split(':')[-1] if not ro else 'ValueError', ro)
        if not rand:
            rep = forked_call(s, argdesc, n)
            if rep[0] == 'harness-error':
                raise RuntimeError('forked repeat: ' + rep[1])
            if not same_outcome(mine, rep):
                msgs.append('repeating the call on equal arguments gives a different result')
            if any(d[0] == 'A' and len(d) > 3 and d[3] for d in argdesc.values()):
                pd = {k: (d[:3] + (None,) if d[0] == 'A' else d) for k, d in argdesc.items()}
                rep3 = forked_call(s, pd, n)
                bump('subclass_vs_plain_checks')
                if not same_outcome(mine, rep3, targets=False):
                    msgs.append('the result for an ndarray-subclass argument (MaskedArray / matrix / metadata subclass / memmap) '
                                'differs from the result for the plain ndarray with the same data')
            if seeded:
                rep2 = forked_call(s, argdesc, n, 777 + t)
                if not same_outcome(mine, rep2):
                    msgs.append('seeded call gives a different result after re-seeding the global generator')
            if fresh_mode == 'all':
                fr = fresh_call(s, argdesc, n, 4242 + t)
                if fr[0] == 'harness-error':
                    raise RuntimeError('fresh process: ' + fr[1])
                # the fresh call ran on a workspace (scratch / out=) with other previous contents: what the call leaves
                # in the unused part of a scratch array is not pinned, the result is
                if not same_outcome(mine, fr, targets=f != 'prop_fft'):
                    msgs.append('the same call made first in a fresh process'
                                + (' (with other previous contents in the caller\'s workspace buffer)' if f in WORKSPACE and WORKSPACE[f] in args else '')
                                + ' gives a different result')
            if t in c.get('newinterp', ()):
                fr = new_interpreter_call(s, argdesc, n, 99 + t)
                if fr[0] == 'harness-error':
                    raise RuntimeError('new interpreter: ' + fr[1])
                if not same_outcome(mine, fr):
                    msgs.append('the same call made first in a new interpreter gives a different result')
        if (st == 'ok' and f in NEW_PLANE and not (f == 'fit_tilt' and (s['inplace'] or s_cls(args['p']) == 'Image'))
                and isinstance(res, lentil.Plane)):
            ok = forked(lambda: edit_probe(res, args['p']))
            bump('edit_probes')
            if ok is not True:
                msgs.append('the call is documented to return a new plane, but editing the returned plane (attribute assignment, '
                            'in-place tilt fit, writes into its arrays / tilt list) changes the input plane'
                            + (': the input plane itself was returned' if res is args['p'] else ''))
        rec['hist'] = msgs
        bump('calls')
        bump('calls_' + st.split(':')[0])
        if doc_bufs or doc_objs:
            bump('calls_with_documented_target')
        if not rand:
            bump('repeat_checks')
            if fresh_mode == 'all':
                bump('fresh_process_checks')
            if seeded:
                bump('reseeded_checks')
        if t in c.get('newinterp', ()):
            bump('new_interpreter_checks')
        out_steps.append(rec)
    cleanup_mm()
    return {'steps': out_steps}


def same_outcome(a, b, targets=True):
    if a[0] != b[0]:
        return False
    if a[0] == 'err':
        return a[1] == b[1]
    return same(a[1], b[1]) and (not targets or same(a[2], b[2]))


# ------------------------------------------------------------------ confluence of plane histories
def ramp(n, t):
    r, c = np.indices((n, n))
    return 1e-8 * (t[0] * (r - n // 2) + t[1] * (c - n // 2))


def run_confl(c):
    lentil = L()
    n = c['n']
    seed = c['seed']
    amp = make_array('amp', n, seed)
    base = make_array('opd', n, seed + 1)
    mask = make_array('mask3' if c['seg'] else 'mask', n, seed)
    ta, tb = c['ta'], c['tb']
    junk = make_array('opd', n, seed + 7) * 3
    junka = make_array('amp', n, seed + 9)

    def mk(a, o):
        return lentil.Pupil(amplitude=a.copy(), opd=o.copy(), mask=mask.copy(), pixelscale=DX, focal_length=FOCAL)

    def route(name):
        if name == 'A':      # everything at once
            p = mk(amp, base + ramp(n, ta) + ramp(n, tb))
            p.fit_tilt(inplace=True)
        elif name == 'B':    # attributes first wrong, then updated; tilt fitted in two rounds
            p = mk(junka, junk)
            p.amplitude = amp.copy()
            p.opd = base + ramp(n, ta)
            p.fit_tilt(inplace=True)
            p.opd = p.opd + ramp(n, tb)
            p.fit_tilt(inplace=True)
        elif name == 'C':    # out-of-place fits, attribute order swapped
            p = mk(junka, junk)
            p.opd = base + ramp(n, ta) + ramp(n, tb)
            p.amplitude = amp.copy()
            q = p.fit_tilt(inplace=False)
            p = q
        else:                # 'D': two out-of-place rounds through copies
            p = mk(amp, base + ramp(n, tb))
            p = p.copy().fit_tilt()
            p.opd = p.opd + ramp(n, ta)
            p = p.fit_tilt(inplace=False)
        w = lentil.Wavefront(WLS[c['wl']]) * p
        img = lentil.propagate_dft(w, pixelscale=DU, shape=(n, n), oversample=c['os']).intensity
        nseg = p.size
        sums = [[float(sum(t.x for t in p.tilt[k::nseg])), float(sum(t.y for t in p.tilt[k::nseg]))] for k in range(nseg)]
        return {'img': img, 'sums': sums, 'opd': np.array(p.opd), 'amp': np.array(p.amplitude), 'mask': np.array(p.mask)}

    try:
        ra, rb = route(c['routes'][0]), route(c['routes'][1])
    except Exception as e:
        return {'err': type(e).__name__}
    state_equal = (same(ra['amp'], rb['amp']) and same(ra['mask'], rb['mask'])
                   and bool(np.max(np.abs(ra['opd'] * ra['amp'] - rb['opd'] * rb['amp'])) <= 1e-15)
                   and bool(np.max(np.abs(np.array(ra['sums']) - np.array(rb['sums']))) <= 1e-12))
    peak = float(max(ra['img'].max(), rb['img'].max(), 1e-300))
    # propagate_dft places the computed window at np.fix(shift): a tilt sum whose pixel shift is (numerically) an
    # integer can fall on either side for two float-equal sums; that window discontinuity is not what C10 pins
    px = np.array(ra['sums']) * FOCAL / DU * c['os']
    degenerate = bool(np.any(np.abs(px - np.round(px)) < 1e-6))
    return {'state_equal': state_equal, 'degenerate': degenerate, 'img_diff': float(np.max(np.abs(ra['img'] - rb['img'])) / peak),
            'sums': [ra['sums'], rb['sums']]}


def run_case(c):
    if c['op'] == 'confl':
        return run_confl(c)
    return run_hist(c)


def run_impl(c):
    """every case runs in its own process forked from a pristine interpreter: nothing an earlier case left behind
    (caches, memos, generator state) can help or hide a detection, so a replay is self-contained"""
    pre = _prefetched.pop(id(c), None)
    res = pre[1].result() if pre is not None and pre[0] is c else None
    if res is None:
        res = server_request(('case', c))
    if res is None:
        return run_case(c)
    if isinstance(res, tuple) and res and res[0] == 'harness-error':
        raise RuntimeError('case process: ' + res[1])
    for k, v in res.pop('_stats', {}).items():
        bump(k, v)
    return res


# ------------------------------------------------------------------ oracle: the purity predicates themselves
def oracle(c, impl):
    if c['op'] == 'confl':
        if 'err' in impl:
            return f'confluence routes raised {impl["err"]}'
        if not impl['state_equal']:
            return ('two histories of attribute updates and tilt fits that should end in the same plane state do not '
                    f'(per-segment tilt sums {impl["sums"]})')
        if impl['img_diff'] > 1e-6 and not impl['degenerate']:
            return (f'planes with equal (amplitude, mask, opd, per-segment tilt sum) reached by different histories '
                    f'propagate differently: relative intensity difference {impl["img_diff"]:.3g}')
        return None
    for t, r in enumerate(impl['steps']):
        if r['st'] == 'skip' or 'changed' not in r or 'undoc' not in r:
            continue
        what = f'step {t} ({r["f"]}; depends on steps {slice_of(c, t)}): '
        if r['undoc']:
            return what + f'the call modified caller array(s) {r["undoc"]} that are not documented as in-place'
        if r['ro_undoc']:
            return what + 'the call tried to write a read-only caller array that is not documented as in-place'
        if r['oundoc']:
            return what + f'the call changed the attributes of caller object(s) {r["oundoc"]} that are not documented as in-place'
        if r.get('pstate'):
            return what + ('the call changed process-wide state of the caller: ' + ', '.join(r['pstate'])
                           + ' differ(s) before and after the call')
        if r['seeded'] and r['rng']:
            return what + 'a function given a seed advanced the global numpy generator'
        if r['hist']:
            return what + r['hist'][0]
    return None


# ------------------------------------------------------------------ comparison with the model
def compare(c, impl, model):
    if c['op'] != 'hist':
        return None
    if 'err' in model:
        return 'model rejected the history'
    a2m = {}     # impl buffer -> model buffer id
    o2m = {}     # impl object -> model object id
    m2o = {}
    for t, (r, m) in enumerate(zip(impl['steps'], model['steps'])):
        what = f'step {t} ({r["f"]}): '
        if r['st'] == 'skip':
            continue
        st = r['st']
        if m['status'] == 9:
            return what + 'model: bad register (generator/encoder bug)'
        if st == 'ro' and m['status'] != 1:
            return what + 'implementation raised on a read-only array, the model predicts no write to a frozen array'
        if st == 'ok' and m['status'] == 1 and r['f'] == 'insert' and not r['changed']:
            continue     # no field overlapped the (read-only) array: the documented write the model predicts did not happen
        if st == 'ok' and m['status'] != 0:
            return what + f'model predicts error status {m["status"]}, implementation succeeded'
        if st.startswith('err:'):
            if not (m['status'] == 4 and st == 'err:NotImplementedError'):
                return what + f'implementation raised {st[4:]}, model status {m["status"]}'
        # observed writes must be predicted
        for b in r['changed']:
            if b not in a2m:
                return what + f'an array the model does not know (impl buffer {b}) changed'
            if a2m[b] not in m['writes']:
                return what + f'implementation wrote model buffer {a2m[b]}; the model predicts writes {m["writes"]}'
        if r.get('tilt_alias'):
            return what + ('a field of the result shares its tilt LIST object with another wavefront/plane; the model says '
                           'every product gets a new list (tilt = self.tilt + other.tilt)')
        if r['rng'] and not m['rng']:
            return what + 'the global generator moved; the model says this operation does not touch it'
        for o in r['ochanged']:
            if o not in o2m:
                return what + f'an object the model does not know changed'
            if o2m[o] not in m['owrites']:
                return what + f'implementation changed object {o2m[o]}; the model predicts {m["owrites"]}'
        if st != 'ok':
            continue
        # aliasing of the result and of edited objects
        pairs = []
        kind = r['res'][0]
        if kind == 'A':
            if m['tag'] != 1:
                return what + 'result kinds differ (array vs model tag %d)' % m['tag']
            pairs.append((m['slots'], r['res'][2], False))
        elif kind == 'O':
            if m['tag'] != 2:
                return what + 'result kinds differ (object vs model tag %d)' % m['tag']
            oi = r['res'][1]
            mo = m['rid']
            if oi in o2m and o2m[oi] != mo:
                return what + 'implementation returned an existing object, the model a different one'
            if mo in m2o and m2o[mo] != oi:
                return what + 'model says the result is an existing object (e.g. self); the implementation returned another'
            o2m[oi] = mo
            m2o[mo] = oi
            pairs.append((m['slots'], r['res'][2], r['res'][3]))
        for (io, islots) in r['upd']:
            ms = [u for u in m['upd'] if u[0] == o2m.get(io)]
            if ms:
                pairs.append((ms[0][1], islots, False))
        for mslots, islots, loose in pairs:
            if loose:
                # wavefronts: the number of fields is value dependent; the model says every field buffer is fresh
                known = set(a2m)
                for b in islots:
                    if b in known and a2m[b] >= 0:
                        return what + f'a field of the resulting wavefront aliases known buffer (model id {a2m[b]}); the model says fresh'
                    a2m.setdefault(b, -1 - b)
                continue
            if len(mslots) != len(islots):
                return what + f'result has {len(islots)} buffers, model {len(mslots)}'
            for mm, b in zip(mslots, islots):
                if b in a2m:
                    if a2m[b] != mm:
                        return what + (f'a result buffer aliases model buffer {a2m[b]}, but the model says it is '
                                       f'{"fresh" if mm not in a2m.values() else "buffer %d" % mm}')
                else:
                    a2m[b] = mm       # new buffer; if the model says alias and the implementation copied, that is harmless
    return None


def known_match(f, c, impl):
    return False


def extra(tier, rng):
    """no additional checks; reports how many calls were made and how they were cross-examined"""
    return {'report': dict(STATS), 'violations': []}
