"""C08 - the plane-type state machine follows the documented table."""
import itertools
import warnings

import numpy as np

from .. import common as C
from .. import gen_doc, gen_ptype
from ..gen_ptype import WTYPES, BODIES, PTYPES, METHODS, EXC_CODE

ID = 'C08'
MODEL = 'c08'
RUNFUN = 'run'
COQ_TARGETS = ['theories/Properties/C08.vo', 'theories/Extract/RunC08.vo']
DESIGN_REF = 'DESIGN.md section 4.1 and section 6, C08'
TECHNIQUE = ('generated-table tie: the implementation\'s transition function (wavefront ptype x content: fields, tilted fields, no fields) x '
             '(Plane(ptype=p) | every public plane class, fresh and re-used objects | propagate_dft/propagate_fft) is observed exhaustively on the '
             'real classes and emitted as Gallina (Gen/PTypeObserved.v), the three RST tables of the user guide are '
             'parsed into Gen/DocTable.v, both on every check; Coq proves the tables equal (finite case analysis) and, by '
             'induction over programs of any length, that every trace of the observed machine is the documented one; '
             'random programs on real objects check that the implementation is a function of the types only')
LEVEL_TEXT = ('Theorems in coq/theories/Properties/C08.v: all 15 multiplication cells and all propagation rows equal the '
              'documentation; for every start state and every program of any length over every plane type, every public '
              'plane class except Rotate/Flip and both propagation routines the observed trace equals the documented '
              'trace; a refused step of any kind keeps the state; propagation only pupil<->image; every documented class '
              'but Rotate/Flip applies (those two: _refuted, known finding). The tables the theorems are about are '
              'regenerated from /repo on every run.')
LEVEL_NOTE = ('Trusted: Coq kernel, the two generators (harness/gen_ptype.py observes, harness/gen_doc.py parses RST), '
              'extraction, the harness. That real behaviour depends on the two types (and the tilt bit) only is checked '
              'by differential execution on random programs, not proved. Known finding C08-rotate-flip.')
TRUSTED = ['Coq 8.16.1 kernel (coqc; coqchk in the thorough tier)',
           'harness/gen_ptype.py: exhaustive observation of the real classes (finite domain enumerated completely)',
           'harness/gen_doc.py: fail-closed parser of the three RST tables',
           'extraction with ExtrOcamlBasic only; ocaml/driver.ml',
           'harness/props/c08.py: program runner on real objects, byte snapshots, step-by-step documentation oracle',
           'the sampling regime of the real objects (pixel scale 1, finite focal length, small centred arrays) under '
           'which nothing but the types decides whether a step is accepted']
ASSUMPTIONS = ['sampling regimes: the wavefronts of one history share a pixel scale S in {1, 2, (1,2)} and a wavelength in '
               '{1, 0.5}; focal lengths 8*max(S)^2/wl (x2), propagations ask for S*oversample (integer FFT grids); planes '
               'carry no pixel scale, S, or - flagged mism - another value; multiplication-only histories also run on '
               '"loose" wavefronts (default focal length, optical wavelength, 6x5 data, pixel scale possibly undefined)',
               'a permitted product of differently sampled operands (lentil: ValueError) is C07\'s clause, not a '
               'plane-type rule: the documented machine repeats the implementation there, the oracle accepts the '
               'refusal or the documented type; a FORBIDDEN cell must be TypeError whatever the sampling',
               'propagate_fft refusing a wavefront with fitted tilt (NotImplementedError) is implementation-defined: '
               'the documentation tables do not mention it; model parameter observed_fft_refuses_tilt, the oracle '
               'accepts either behaviour',
               'tilts are small (<= 1/32 output sample per tilt plane): a wavefront loses all its fields only where the '
               'program says so (a plane whose aperture is disjoint from all the light, or Wavefront.empty); the content '
               'of a wavefront (plain / tilted / no fields) is model state, its evolution is implementation-defined',
               'no fit_tilt on planes (tilt enters only through Tilt/DispersiveTilt/Grism planes and Wavefront(tilt=))']
RULE = ('corpus first; every single step exhaustively (9 states = 3 types x {fields, tilted fields, no fields} x '
        '(5 plane types + every public class, each with an overlapping and a disjoint aperture, + 2 routines)); every '
        'plane kind re-used (the same object, and a copy() of it) on wavefronts of two different types in both orders; '
        'every object (planes, wavefronts, products) also through copy(), copy.copy, deepcopy and a pickle round trip, '
        'planes also built with the amp= keyword alias; random programs of length <= 12 (quick) / <= 40 (thorough) over all plane types, all public plane classes and '
        'both routines, with planes drawn from a pool of long-lived objects re-used across steps, across wavefront '
        'types and across fresh wavefronts, random constructions of every object (scalar/array/segmented planes, '
        'several shapes, tilts, disjoint apertures, propagation shapes and oversampling); thorough: also every 2-step '
        'program; <= 5 % of cases touch Rotate/Flip; non-trivial = at least two steps; distinct by case hash')

BROKEN = ('Rotate', 'Flip')
_cache = {}


# ------------------------------------------------------------------ generated tables
def _observe_in_subprocess():
    """the exhaustive observation builds thousands of objects with every keyword; it runs in a process of its own so
    that state a library might share between objects (class-level defaults, module caches) cannot reach the
    process that runs the histories - each history then starts from what it builds itself"""
    import os
    import pickle
    import subprocess
    import sys
    import tempfile
    fd, path = tempfile.mkstemp(prefix='lv-c08-obs-', suffix='.pkl')
    os.close(fd)
    try:
        p = subprocess.run([sys.executable, '-W', 'ignore', '-m', 'harness.gen_ptype', '--pickle', path],
                           cwd=C.ROOT, stdout=subprocess.PIPE, stderr=subprocess.PIPE, text=True, timeout=900)
        if p.returncode != 0:
            lines = [l for l in p.stderr.strip().splitlines() if l.strip()]
            raise gen_ptype.GeneratorError(lines[-1] if lines else f'generator exited with {p.returncode}')
        res = pickle.load(open(path, 'rb'))
        _cache['overrides'] = [tuple(x) for x in res['overrides']]
        if res['error']:
            raise gen_ptype.GeneratorError(res['error'])
        return res['obs']
    finally:
        try:
            os.remove(path)
        except OSError:
            pass


def pregen(tier):
    obs = _observe_in_subprocess()
    doc = gen_doc.generate(obs['classes'])
    _cache['obs'] = obs
    _cache['doc'] = doc


def _classes():
    if 'classes' not in _cache:
        _cache['classes'] = gen_ptype.class_names(C.import_lentil())
    return _cache['classes']


def _doc():
    """the documentation tables, parsed from the RST files (never from the Coq model)"""
    if 'doc' not in _cache:
        _cache['doc'] = gen_doc.parse_all(_classes())
    return _cache['doc']


# ------------------------------------------------------------------ cases
# A case is one self-contained history:
#   start, body            state of the first wavefront ('plain' | 'tilted' | 'empty')
#   pool                   long-lived plane objects [kind, name, variant, clip(, override)], built once, in order
#   ops                    ['mulp', ptype, variant, clip]   w = w * Plane(ptype=..)      (a new object)
#                          ['mulc', class, variant, clip]   w = w * Class(..)            (a new object)
#                          ['mulc', class, variant, clip, p]  w = w * Class(.., ptype=p)  (documented override)
#                          ['pool', i, copy]                w = w * pool[i]   (copy: w * pool[i].copy())
#                          ['prop', 'dft'|'fft', variant]   w = propagate_xxx(w, ..)
#                          ['fresh', type, body, variant]   w = a new wavefront; the pool lives on
#                          ['setp', name, form]             w.ptype = name (form 1: the string, 0: the ptype object;
#                                                           'bogus' = a name that is no plane type); tilt,
#                                                           transform and bogus must be refused with TypeError
#                                                           and leave the wavefront as it was (oracle only)
#                          ['back', k]                      w = the wavefront that was the operand k steps ago
#                                                           (one wavefront object fanned out to several planes /
#                                                           propagations; such cases are judged by the oracle
#                                                           only: what a successful step may do to its operand
#                                                           is not pinned by C08, so the model is not asked)
#   sv                     construction variant of the first wavefront
#   scale, wl, loose       sampling regime of all wavefronts of the history (gen_ptype.py): pixel scale 1 | 2 |
#                          [1, 2] (| null when loose), wavelength, loose = default focal length / optical
#                          wavelength / 6x5 data (multiplications only)
#   proutes, wroutes       {"<step index>": route}: the plane used at that step / the wavefront entering that step
#                          first goes through copy() | copy.copy | deepcopy | pickle (round trip)
#   a plane spec may carry a 6th element mism = true: the plane is given a pixel scale different from the
#   wavefronts' (documented: a forbidden cell is TypeError all the same; a permitted one is not a plane-type
#   matter - lentil refuses it with ValueError, the oracle accepts that refusal or the documented type)
def _norm(c, o):
    """-> (kind, name, variant, clip, pool index or None, copy, ptype override or None, mism)"""
    if o[0] == 'pool':
        sp = c['pool'][o[1]]
        return (sp[0], sp[1], sp[2], bool(sp[3]), o[1], bool(o[2]) if len(o) > 2 else False,
                sp[4] if len(sp) > 4 else None, bool(sp[5]) if len(sp) > 5 else False)
    if o[0] in ('mulp', 'mulc'):
        return (o[0], o[1], o[2], bool(o[3]) if len(o) > 3 else False, None, False, o[4] if len(o) > 4 else None,
                bool(o[5]) if len(o) > 5 else False)
    if o[0] == 'back':
        return ('back', o[1], 0, False, None, False, None, False)
    if o[0] == 'setp':
        return ('setp', o[1], o[2] if len(o) > 2 else 0, False, None, False, None, False)
    return (o[0], o[1], o[2] if o[0] == 'prop' else (o[2], o[3] if len(o) > 3 else 0), False, None, False, None, False)


def _reg(c):
    return gen_ptype.canon_reg(c.get('scale', 1), c.get('wl', 1.0), c.get('loose', False))


def _overrides():
    """(class, ptype) pairs the class constructors accept, read off the code by the observation process
    (never probed in this process: building objects here would precede the histories)"""
    if 'overrides' not in _cache:
        try:
            _observe_in_subprocess()
        except Exception:
            pass
    return _cache.get('overrides', [])


def _rand_plane(rng, classes_ok, p_clip=0.08, p_mism=0.12):
    sp = _rand_plane0(rng, classes_ok, p_clip)
    if rng.random() < p_mism:
        sp = (sp + [None])[:5] + [True]
    return sp


def _rand_plane0(rng, classes_ok, p_clip=0.08):
    clip = rng.random() < p_clip
    if rng.random() < 0.42:
        kind, name = 'mulp', rng.choice(PTYPES)
    else:
        kind, name = 'mulc', rng.choice(classes_ok)
        ov = [p for k, p in _overrides() if k == name]
        if ov and rng.random() < 0.4:
            return [kind, name, rng.randrange(gen_ptype.n_variants(kind, name, clip)), clip, rng.choice(ov)]
    return [kind, name, rng.randrange(gen_ptype.n_variants(kind, name, clip)), clip]


def _rand_op(rng, classes_ok, npool=0):
    t = rng.random()
    if npool and t < 0.45:
        return ['pool', rng.randrange(npool), rng.random() < 0.15]
    if t < 0.78:
        return _rand_plane(rng, classes_ok)
    if t < 0.97 or not npool:
        name = rng.choice(METHODS)
        return ['prop', name, rng.randrange(gen_ptype.n_variants('prop', name))]
    return ['fresh', rng.choice(WTYPES), rng.choice(BODIES), rng.randrange(24)]


def generate(rng, tier):
    """never refuses: what cannot be enumerated is reported by pregen (broken tie) and by the cases built so far"""
    try:
        yield from _generate(rng, tier)
    except Exception as e:          # pragma: no cover - only on a tree where objects cannot be constructed
        _cache['generate_error'] = f'{type(e).__name__}: {e}'


def _generate(rng, tier):
    classes = _classes()
    ok = [k for k in classes if k not in BROKEN]
    ovr = _overrides()
    planes = [(kind, n, clip, None) for clip in (False, True) for kind, ns in (('mulp', PTYPES), ('mulc', classes)) for n in ns] \
        + [('mulc', k, clip, p) for clip in (False, True) for k, p in ovr if k != 'Plane']
    all_ops = [('mulp', p, clip, None) for p in PTYPES for clip in (False, True)] + \
              [('mulc', k, clip, None) for k in classes for clip in (False, True)] + \
              [('mulc', k, clip, p) for k, p in ovr if k != 'Plane' for clip in (False, True)] + \
              [('prop', m, False, None) for m in METHODS]
    states = [(w, b) for w in WTYPES for b in BODIES]

    def mk(kind, name, clip, po=None, mism=False):
        v = rng.randrange(gen_ptype.n_variants(kind, name, clip))
        if kind == 'prop':
            return ['prop', name, v]
        return [kind, name, v, clip, po, True] if mism else [kind, name, v, clip] if po is None else [kind, name, v, clip, po]

    regimes = [{'scale': list(sc) if isinstance(sc, tuple) else sc, 'wl': wl} for sc, wl, _ in gen_ptype.STRICT]
    loose = [{'scale': list(sc) if isinstance(sc, tuple) else sc, 'wl': wl, 'loose': True} for sc, wl, _ in gen_ptype.LOOSE]

    def routes(case, i=None):
        """object routes: deterministic rotation (i given) or random for some steps"""
        ops = case['ops']
        pr, wr = {}, {}
        for k, o in enumerate(ops):
            if o[0] in ('fresh', 'back'):
                continue
            if i is not None:
                a, b = gen_ptype.ROUTES_P[(i + k) % 5], gen_ptype.ROUTES_W[(i // 5 + k) % 4]
            else:
                a = rng.choice(gen_ptype.ROUTES_P) if rng.random() < 0.2 else 'fresh'
                b = rng.choice(gen_ptype.ROUTES_W) if rng.random() < 0.15 else 'fresh'
            if a != 'fresh' and o[0] != 'prop':
                pr[str(k)] = a
            if b != 'fresh':
                wr[str(k)] = b
        if pr:
            case['proutes'] = pr
        if wr:
            case['wroutes'] = wr
        return case

    def regime(i, mul_only=False, mism=False):
        if mul_only and i % 3 == 2:
            lo = [r for r in loose if not (mism and r['scale'] is None)]
            return dict(lo[(i // 3) % len(lo)])
        return dict(regimes[i % len(regimes)])

    # 1. every single step, exhaustively
    n = 0
    for (w, b) in states:
        for kind, name, clip, po in all_ops:
            for mism in ((False, True) if kind != 'prop' else (False,)):
                n += 1
                yield routes(dict(regime(n, kind != 'prop' or w == 'none', mism), op='program', start=w, body=b,
                                  sv=n % 24, pool=[], ops=[mk(kind, name, clip, po, mism)]), n)
    # 1b. the ptype setter: every state x every name (legal, illegal, unknown) x both forms, then a legal step
    for (w, b) in states:
        for nm in PTYPES + ['bogus']:
            for form in (0, 1):
                n += 1
                yield dict(regime(n), op='program', start=w, body=b, sv=n % 24, pool=[],
                           ops=[['setp', nm, form], mk('mulp', 'tilt', False)])
    # 2. every plane kind as ONE long-lived object used on wavefronts of two different types (both orders),
    #    directly, through copy(), and once more on the first type
    for kind, name, clip, po in planes:
        if name in BROKEN:
            continue
        for w1 in WTYPES:
            for w2 in WTYPES:
                if w1 == w2:
                    continue
                for cp in (False, True):
                    n += 1
                    yield routes(dict(regime(n, True), op='program', start=w1, body='plain', pool=[mk(kind, name, clip, po)],
                                      ops=[['pool', 0, False], ['fresh', w2, rng.choice(BODIES), rng.randrange(24)],
                                           ['pool', 0, cp], ['fresh', w1, 'plain', 0], ['pool', 0, cp]]), n)
    # 3. every two-step program over the claimed operations (thorough), a sample of them (quick)
    claimed = [o for o in all_ops if o[1] not in BROKEN]
    pairs = [(s, a, b) for s in states for a in claimed for b in claimed]
    pairs = rng.sample(pairs, 300 if tier != 'thorough' else 6000)
    for (w, bd), a, b in pairs:
        n += 1
        yield routes(dict(regime(n), op='program', start=w, body=bd, pool=[],
                          ops=[mk(*a, mism=a[0] != 'prop' and rng.random() < 0.15),
                               mk(*b, mism=b[0] != 'prop' and rng.random() < 0.15)]), n if n % 2 else None)
    # 3b. one wavefront object fanned out to two steps: [a, back to the operand, b]
    fan = [(w, a, b) for w in WTYPES for a in claimed for b in claimed]
    fan = rng.sample(fan, 200 if tier != 'thorough' else 2000)
    for w, a, b in fan:
        n += 1
        yield dict(regime(n), op='program', start=w, body='plain', pool=[], ops=[mk(*a), ['back', 1], mk(*b)])
    # 4. random programs; two thirds of them draw their planes from a pool of long-lived objects
    n, maxlen = (5000, 40) if tier == 'thorough' else (1000, 12)
    for i in range(n):
        ln = rng.randint(2, maxlen) if rng.random() < 0.8 else rng.randint(2, 5)
        pool = [_rand_plane(rng, ok, 0.05) for _ in range(rng.randint(1, 5))] if rng.random() < 0.67 else []
        ops = [_rand_op(rng, ok, len(pool)) for _ in range(ln)]
        if rng.random() < 0.02:      # known-finding inputs stay rare
            k = rng.choice(BROKEN)
            ops.insert(rng.randrange(len(ops) + 1), ['mulc', k, rng.randrange(gen_ptype.n_variants('mulc', k)), False])
        if rng.random() < 0.1:       # assignments to wavefront.ptype, legal and refused
            for _ in range(rng.randint(1, 2)):
                ops.insert(rng.randrange(len(ops) + 1), ['setp', rng.choice(PTYPES + ['bogus']), rng.randrange(2)])
        if rng.random() < 0.12:      # fan one wavefront object out to several steps
            for _ in range(rng.randint(1, 3)):
                ops.insert(rng.randrange(1, len(ops) + 1), ['back', rng.randint(1, 3)])
        t = rng.random()
        yield routes(dict(regime(rng.randrange(6)), op='program', start=rng.choice(WTYPES),
                          body='tilted' if t < 0.2 else 'empty' if t < 0.3 else 'plain', sv=rng.randrange(24),
                          pool=pool, ops=ops))


def classify(c):
    n = len(c['ops'])
    if n == 1:
        return 'single:' + c['ops'][0][0]
    tag = 'setter' if any(o[0] == 'setp' for o in c['ops']) else 'fanout' if any(o[0] == 'back' for o in c['ops']) else 'pool' if c.get('pool') else 'program'
    return tag + ':len' + ('2' if n == 2 else '<=5' if n <= 5 else '<=12' if n <= 12 else '<=40')


def nontrivial(c):
    return len(c['ops']) >= 2


# ------------------------------------------------------------------ model side
def encode(c):
    classes = _classes()
    out = [1, WTYPES.index(c['start']), BODIES.index(c['body']), len(c['ops'])]
    for o in c['ops']:
        kind, name, v, clip, _pi, _cp, po, mism = _norm(c, o)
        if kind in ('back', 'setp'):
            return None
        if kind == 'mulp':
            out += [0, PTYPES.index(name), int(clip) + 2 * int(mism)]
        elif kind == 'mulc':
            if name not in classes:
                return None
            out += [1, classes.index(name), int(clip) + 2 * int(mism) + 4 * (0 if po is None else 1 + PTYPES.index(po))]
        elif kind == 'prop':
            out += [2, METHODS.index(name), 0]
        else:
            out += [3, WTYPES.index(name), BODIES.index(v[0])]
    return out


def decode(c, ints):
    if ints[0] != 0:
        return {'err': ints}
    n = ints[1]
    i = 2
    tr = []
    for _ in range(n):
        if ints[i] == 0:
            tr.append(['y', WTYPES[ints[i + 1]], BODIES[ints[i + 2]]])
            i += 3
        else:
            tr.append(['r', ints[i + 1], WTYPES[ints[i + 2]], BODIES[ints[i + 3]]])
            i += 4
    assert i == len(ints)
    return {'trace': tr}


# ------------------------------------------------------------------ implementation side
def snapshot(o, seen=None, depth=0):
    """canonical byte-level picture of an object graph (arrays by dtype, shape and bytes)"""
    if seen is None:
        seen = set()
    if isinstance(o, np.ndarray):
        return ('nd', str(o.dtype), o.shape, o.tobytes())
    if o is None or isinstance(o, (bool, int, float, complex, str, bytes, np.generic, slice, type(Ellipsis))):
        return ('v', type(o).__name__, repr(o))
    if isinstance(o, (list, tuple)):
        return ('l', type(o).__name__, tuple(snapshot(x, seen, depth + 1) for x in o))
    if isinstance(o, dict):
        return ('d', tuple(sorted((repr(k), snapshot(v, seen, depth + 1)) for k, v in o.items())))
    if id(o) in seen or depth > 8:
        return ('ref', type(o).__name__)
    seen.add(id(o))
    attrs = {}
    if hasattr(o, '__dict__'):
        attrs.update(vars(o))
    for kls in type(o).__mro__:
        for s in getattr(kls, '__slots__', ()):
            if hasattr(o, s):
                attrs[s] = getattr(o, s)
    return ('o', type(o).__name__, tuple(sorted((k, snapshot(v, seen, depth + 1)) for k, v in attrs.items())))


def _state(w):
    """(ptype string, content) without any validation: the comparator and the oracle judge it"""
    try:
        body = 'empty' if len(w.data) == 0 else 'tilted' if any(bool(f.tilt) for f in w.data) else 'plain'
    except Exception:
        body = None
    return [str(w.ptype), body]


def run_impl(c, hook=None):
    lentil = C.import_lentil()
    c = dict(c)
    c.setdefault('pool', [])
    if 'body' not in c:                      # older corpus format
        c['body'] = 'tilted' if c.get('tilted') else 'plain'
    reg = _reg(c)
    trace = []
    try:
        w = gen_ptype.build_wavefront(lentil, c['start'], c['body'], c.get('sv', 0), reg)
    except gen_ptype.GeneratorError as e:
        return {'trace': [], 'construct_error': f'the first wavefront (construction {c.get("sv", 0)}): {e}'}
    hist = []
    pool = []
    for k, sp in enumerate(c['pool']):
        try:
            pool.append(gen_ptype.build_plane(lentil, sp[0], sp[1], sp[2], bool(sp[3]), sp[4] if len(sp) > 4 else None,
                                              reg, bool(sp[5]) if len(sp) > 5 else False))
        except gen_ptype.GeneratorError as e:
            return {'trace': [], 'construct_error': f'pool object {k} {sp} (after pool objects 0..{k - 1} were built): {e}'}
    with warnings.catch_warnings():
        warnings.simplefilter('ignore')
        for o in c['ops']:
            kind, name, v, clip, pi, cp, po, mism = _norm(c, o)
            wr = (c.get('wroutes') or {}).get(str(len(trace)))
            pr = (c.get('proutes') or {}).get(str(len(trace)))
            if wr:
                w = gen_ptype.route(w, wr)
            entry = {'before': _state(w)}
            hist.append(w)
            if kind == 'back':
                w = hist[max(0, len(hist) - 1 - name)]
                entry['yields'] = _state(w)
                trace.append(entry)
                continue
            if kind == 'setp':
                sw = snapshot(w)
                try:
                    w.ptype = name if (v or name == 'bogus') else getattr(lentil, name)
                except Exception as e:
                    entry['raises'] = type(e).__name__
                    entry['kept'] = _state(w)
                    entry['w_unchanged'] = snapshot(w) == sw
                    entry['p_unchanged'] = True
                else:
                    entry['yields'] = _state(w)
                trace.append(entry)
                continue
            if kind == 'fresh':
                try:
                    w = gen_ptype.build_wavefront(lentil, name, v[0], v[1], reg)
                except gen_ptype.GeneratorError as e:
                    return {'trace': trace, 'construct_error': f'step {len(trace)}, a new wavefront: {e}'}
                entry['yields'] = _state(w)
                trace.append(entry)
                continue
            if kind == 'prop':
                pl = None
                fn = (lambda ww, name=name, v=v: gen_ptype.do_propagate(lentil, name, ww, v, reg))
            else:
                if pi is None:
                    try:
                        pl = gen_ptype.build_plane(lentil, kind, name, v, clip, po, reg, mism)
                    except gen_ptype.GeneratorError as e:
                        return {'trace': trace, 'construct_error': f'step {len(trace)} {o}: {e}'}
                else:
                    pl = pool[pi].copy() if cp else pool[pi]
                if pr:
                    pl = gen_ptype.route(pl, pr)
                entry['plane_ptype'] = str(pl.ptype)
                entry['plane_class'] = type(pl).__name__
                fn = (lambda ww, pl=pl: ww * pl)
            sw = snapshot(w)
            sp = snapshot(pl)
            pre = hook.pre(lentil, kind, name, v, w, pl, reg) if hook else None
            try:
                r = fn(w)
            except Exception as e:
                if hook:
                    hook.post(c, len(trace), pre, None, type(e).__name__)
                entry['raises'] = type(e).__name__
                entry['kept'] = _state(w)
                entry['w_unchanged'] = snapshot(w) == sw
                entry['p_unchanged'] = snapshot(pl) == sp
            else:
                if not isinstance(r, lentil.Wavefront):
                    entry['yields'] = ['<' + type(r).__name__ + '>', None]
                    trace.append(entry)
                    break
                if hook:
                    hook.post(c, len(trace), pre, r, None)
                entry['yields'] = _state(r)
                entry['same_object'] = r is w
                w = r
            trace.append(entry)
    return {'trace': trace}


def compare(c, impl, model):
    if 'trace' not in model:
        return f'model returned {model}'
    it, mt = impl['trace'], model['trace']
    if len(it) != len(mt):
        return f'implementation ran {len(it)} steps, model {len(mt)}'
    for i, (e, m) in enumerate(zip(it, mt)):
        if 'yields' in e:
            got = ['y'] + list(e['yields'])
        else:
            got = ['r', EXC_CODE.get(e['raises'], 0)] + list(e['kept'])
        if got != m:
            return f'step {i} {c["ops"][i]}: implementation {got}, observed-table model {m}'
        if 'raises' in e and not (e['w_unchanged'] and e['p_unchanged']):
            return (f'step {i} {c["ops"][i]}: refused step changed an operand (wavefront unchanged: '
                    f'{e["w_unchanged"]}, plane unchanged: {e["p_unchanged"]}) - not a function of the types')
    return None


# ------------------------------------------------------------------ property oracle (documentation only)
def _failures(c, impl):
    """the documented tables applied step by step to the implementation's own trace.
    -> list of (step index, code, message)"""
    doc = _doc()
    out = []
    tr = impl['trace']
    c = dict(c)
    c.setdefault('pool', [])
    if 'body' not in c:
        c['body'] = 'tilted' if c.get('tilted') else 'plain'
    if impl.get('construct_error'):
        out.append((len(tr), 'construct', 'an object of this history could not be built as documented - '
                                          + impl['construct_error']))
    elif len(tr) != len(c['ops']):
        out.append((len(tr) - 1, 'not-a-wavefront', f'step {len(tr) - 1} did not return a Wavefront: {tr[-1].get("yields")}'))
    cur = [c['start'], c['body']]
    for i, e in enumerate(tr):
        kind, name, v, clip, pi, cp, po, mism = _norm(c, c['ops'][i])
        if e['before'] != cur:
            out.append((i, 'state', f'step {i}: wavefront state {e["before"]} is not the state the previous step left ({cur})'))
        if kind == 'setp':
            what = f'step {i} wavefront.ptype = {name!r} on a {e["before"][0]} wavefront ({e["before"][1]})'
            if name in WTYPES:
                if 'raises' in e:
                    out.append((i, 'setter', f'{what}: raised {e["raises"]}, a wavefront may be none, pupil or image'))
                    cur = e['kept']
                else:
                    if e['yields'] != [name, e['before'][1]]:
                        out.append((i, 'setter', f'{what}: the wavefront now reads {e["yields"]}'))
                    cur = e['yields']
            else:
                if 'raises' not in e:
                    out.append((i, 'setter', f'{what}: accepted (wavefront now {e["yields"]}), documented: a wavefront '
                                             f'is none, pupil or image'))
                    cur = e['yields']
                else:
                    if e['raises'] != 'TypeError':
                        out.append((i, 'setter', f'{what}: raised {e["raises"]}, not TypeError'))
                    if e['kept'] != e['before'] or not e['w_unchanged']:
                        out.append((i, 'kept', f'{what}: refused ({e["raises"]}) but the wavefront changed '
                                               f'{e["before"]} -> {e["kept"]}'))
                    cur = e['kept']
            if cur[0] not in WTYPES:
                break
            continue
        if kind == 'back':
            cur = e['yields']               # whatever state that wavefront object is in now
            if cur[0] not in WTYPES:
                out.append((i, 'type', f'step {i}: wavefront has type {cur[0]!r}'))
                break
            continue
        if kind == 'fresh':
            if e['yields'] != [name, v[0]]:
                out.append((i, 'harness', f'step {i}: could not build a fresh ({name}, {v[0]}) wavefront: {e["yields"]}'))
            cur = e['yields']
            continue
        wt = e['before'][0]
        if wt not in WTYPES:
            out.append((i, 'type', f'step {i}: wavefront has type {wt!r}'))
            break
        if kind == 'mulp':
            d = doc['mul'][(wt, name)]
            if e['plane_ptype'] != name:
                out.append((i, 'ptype', f'step {i}: Plane(ptype={name}) carries ptype {e["plane_ptype"]}'))
        elif kind == 'mulc':
            p = po if po is not None else doc['class_ptype'].get(name)
            if po is not None and e['plane_ptype'] != po:
                out.append((i, 'override', f'step {i}: {name}(ptype={po}) carries ptype {e["plane_ptype"]}'))
            elif p is None:
                p = e['plane_ptype']        # class outside the planes.rst table: its own ptype attribute
            elif e['plane_ptype'] != p:
                out.append((i, 'class-ptype', f'step {i}: class {name} has ptype {e["plane_ptype"]}, documented {p}'))
            if p not in PTYPES:
                out.append((i, 'ptype', f'step {i}: class {name} carries unknown ptype {p!r}'))
                break
            d = doc['mul'][(wt, p)]
        else:
            d = doc['prop'][(name, wt)]
        how = '' if pi is None else f' [pool object {pi}{", copy()" if cp else ""}, used before in this history]' \
            if any(_norm(c, o)[4] == pi for o in c['ops'][:i]) else f' [pool object {pi}{", copy()" if cp else ""}]'
        rts = ''.join(f' [{k} via {(c.get(key) or {}).get(str(i))}]' for k, key in (('plane', 'proutes'), ('wavefront', 'wroutes'))
                      if (c.get(key) or {}).get(str(i)))
        what = f'step {i} {kind} {name}{"" if po is None else "(ptype=" + po + ")"}{how}{rts}' \
               f'{" with a different pixel scale" if mism else ""} on a {wt} wavefront ({e["before"][1]})'
        if 'raises' in e:
            if e['kept'] != e['before']:
                out.append((i, 'kept', f'{what}: refused ({e["raises"]}) but the wavefront state changed '
                                       f'{e["before"]} -> {e["kept"]}'))
            if not e['w_unchanged']:
                out.append((i, 'operand', f'{what}: refused ({e["raises"]}) but the wavefront was modified'))
            if not e['p_unchanged']:
                out.append((i, 'operand', f'{what}: refused ({e["raises"]}) but the plane was modified'))
            fft_tilt = (kind == 'prop' and name == 'fft' and e['before'][1] == 'tilted'
                        and e['raises'] == 'NotImplementedError')
            if fft_tilt:
                pass                         # implementation-defined refusal of fitted tilt
            elif d is not None and mism and e['raises'] == 'ValueError':
                pass                         # permitted cell, inconsistent sampling: not a plane-type matter (C07)
            elif d is not None:
                out.append((i, 'refused', f'{what}: raised {e["raises"]}, documented result type {d}'))
            elif e['raises'] != 'TypeError':
                out.append((i, 'exception', f'{what}: raised {e["raises"]}, documented refusal is TypeError'))
            cur = e['kept']
        else:
            got = e['yields'][0]
            if d is None:
                out.append((i, 'allowed', f'{what}: returned a {got} wavefront, documented: not allowed'))
            elif got != d:
                out.append((i, 'result', f'{what}: returned a {got} wavefront, documented {d}'))
            cur = e['yields']
            if got not in WTYPES:
                break
    return out


def oracle(c, impl):
    f = _failures(c, impl)
    return '; '.join(m for _, _, m in f[:4]) if f else None


def known_match(f, c, impl):
    if f['id'] != 'C08-rotate-flip':
        return False
    m = f.get('match', {})
    fails = _failures(c, impl)
    if not fails:
        return False
    for i, code, _ in fails:
        if i < 0 or i >= len(c['ops']) or i >= len(impl['trace']) or code == 'construct':
            return False
        kind, name = _norm(c, c['ops'][i])[:2]
        e = impl['trace'][i]
        if _norm(c, c['ops'][i])[6] is not None:
            return False
        if not (kind == 'mulc' and name in m.get('plane_class', []) and code in ('class-ptype', 'refused')):
            return False
        if code == 'class-ptype' and e.get('plane_ptype') != m.get('ptype'):
            return False
        if code == 'refused' and not (e.get('raises') == m.get('raises') and e.get('kept') == e.get('before')
                                      and e.get('w_unchanged') and e.get('p_unchanged')):
            return False
    return True


def replay_known(f):
    if f['id'] != 'C08-rotate-flip':
        return False
    lentil = C.import_lentil()
    still = False
    for name in f['match']['plane_class']:
        c = {'op': 'program', 'start': 'pupil', 'body': 'plain', 'pool': [], 'ops': [['mulc', name, 0, False]]}
        impl = run_impl(c)
        if _failures(c, impl) and known_match(f, c, impl):
            still = True
    return still


# ------------------------------------------------------------------ tie of the code model (Model/PTypeMeta.v)
# Every multiplication and propagation of a sample of the generated histories is run a second time through
# the extracted hand-written model of Plane.multiply / Pupil / Image / TiltInterface.multiply / propagate_dft /
# propagate_fft on the METADATA of the real operands (type, pixel scale, focal length, wavelength, shape,
# tilt objects per field; for planes: ptype, pixel scale, shape, segments, which multiply() the class runs).
# Compared: the exception class, or the whole metadata record of the result.
from fractions import Fraction


def _fr(x):
    return Fraction(*float(x).as_integer_ratio())


def _enc_q(q):
    return [q.numerator, q.denominator]


def _ps(ps):
    if ps is None:
        return None
    a = np.broadcast_to(np.asarray(ps, dtype=float), (2,))
    return (_fr(a[0]), _fr(a[1]))


def _shape(sh):
    if sh is None:
        return None
    t = tuple(int(x) for x in np.atleast_1d(np.asarray(sh)).ravel())
    return None if len(t) == 0 else (t if len(t) == 2 else (t[0], t[0]))


def wavefront_meta(w):
    fl = w.focal_length
    return {'ty': str(w.ptype), 'ps': _ps(w.pixelscale),
            'focal': 'none-attr' if fl is None else None if np.isinf(fl) else _fr(fl),
            'wl': _fr(w.wavelength), 'shape': _shape(w.shape), 'fields': [len(f.tilt) for f in w.data]}


def _enc_wmeta(m):
    out = [WTYPES.index(m['ty'])]
    out += [0] if m['ps'] is None else [1] + _enc_q(m['ps'][0]) + _enc_q(m['ps'][1])
    out += [0] if m['focal'] is None else [1] + _enc_q(m['focal'])
    out += _enc_q(m['wl'])
    out += [0] if m['shape'] is None else [1, m['shape'][0], m['shape'][1]]
    out += [len(m['fields'])] + list(m['fields'])
    return out


def _dec_wmeta(rd):
    ty = WTYPES[rd.z()]
    ps = (rd.q(), rd.q()) if rd.z() else None
    focal = rd.q() if rd.z() else None
    wl = rd.q()
    shape = (rd.z(), rd.z()) if rd.z() else None
    fields = [rd.z() for _ in range(rd.z())]
    return {'ty': ty, 'ps': ps, 'focal': focal, 'wl': wl, 'shape': shape, 'fields': fields}


def plane_kind(lentil, pl):
    """which multiply() the object's class runs -> kind code, or None (Rotate, Flip, anything else)"""
    P = sys_modules_plane(lentil)
    f = type(pl).multiply
    if f is P.Plane.multiply:
        return [0]
    if f is P.Pupil.multiply:
        fl = pl.focal_length
        return [1, 0] if fl is None else [1, 1] if np.isinf(fl) else [1, 2] + _enc_q(_fr(fl))
    if f is P.Image.multiply:
        return [2]
    if f is P.TiltInterface.multiply:
        return [3]
    return None


def sys_modules_plane(lentil):
    import sys
    return sys.modules['lentil.plane']


def overlaps(lentil, pl, w):
    """ov[i][n]: does field i meet segment n of the plane - decided by lentil's own Field product on a unit
    phasor with the geometry Plane.multiply gives it"""
    Field = lentil.field.Field
    rows = []
    for field in w.data:
        row = []
        for n, s in enumerate(pl._slice):
            mask = pl.mask if pl.mask.ndim < 3 else pl.mask[n]
            if pl.amplitude.size == 1:
                shp = np.broadcast(pl.amplitude, mask).shape if mask.size == 1 else mask[s].shape
            else:
                shp = pl.amplitude[s].shape
            ph = Field(data=np.ones(shp, dtype=complex), pixelscale=pl.pixelscale,
                       offset=lentil.helper.slice_offset(s, pl.shape))
            row.append(1 if (field * ph).size > 0 else 0)
        rows.append(row)
    return rows


class MetaTie:
    def __init__(self):
        self.items = []          # (case, step, encoded model input, expected)
        self.skipped = {}

    def skip(self, why):
        self.skipped[why] = self.skipped.get(why, 0) + 1

    def pre(self, lentil, kind, name, v, w, pl, reg):
        try:
            wm = wavefront_meta(w)
            if wm['focal'] == 'none-attr':
                self.skip('wavefront focal_length attribute is None')
                return None
            if kind == 'prop':
                du, os_, shape = gen_ptype.propagate_call_args(name, v, reg)
                dq = _ps(du)
                enc = [6 if name == 'dft' else 7] + _enc_wmeta(wm) + _enc_q(dq[0]) + _enc_q(dq[1]) + [int(os_)]
                sh = _shape(shape)
                enc += [0] if sh is None else [1, sh[0], sh[1]]
                if name == 'dft':
                    enc += [1] * len(wm['fields'])
                return {'enc': enc, 'kind': name, 'nf': len(wm['fields'])}
            k = plane_kind(lentil, pl)
            if k is None:
                self.skip('class with its own multiply (Rotate, Flip)')
                return None
            if pl.tilt:
                self.skip('plane with fitted tilt')
                return None
            ov = overlaps(lentil, pl, w)
            enc = [5] + _enc_wmeta(wm)
            enc += [PTYPES.index(str(pl.ptype))]
            pps = _ps(pl.pixelscale)
            enc += [0] if pps is None else [1] + _enc_q(pps[0]) + _enc_q(pps[1])
            psh = _shape(pl.shape)
            enc += [0] if psh is None else [1, psh[0], psh[1]]
            enc += [len(pl._slice), 0] + k
            for row in ov:
                enc += row
            return {'enc': enc, 'kind': 'mul'}
        except Exception as e:
            self.skip('could not read the operands: ' + type(e).__name__)
            return None

    def post(self, c, step, pre, r, exc):
        if pre is None:
            return
        if exc is not None:
            exp = {'err': EXC_CODE.get(exc, 0), 'name': exc}
        else:
            exp = wavefront_meta(r)
            if pre['kind'] == 'dft' and len(exp['fields']) != pre['nf']:
                self.skip('a propagated field left the output window')
                return
        self.items.append((c, step, pre, exp))


def _meta_compare(pre, exp, out):
    if out[0] == 2:
        return 'the model decoder rejected the encoded operands (harness bug)'
    if 'err' in exp:
        if out[0] != 1:
            return f'implementation raised {exp["name"]}, code model returned a result'
        return None if out[1] == exp['err'] else f'implementation raised {exp["name"]}, code model error code {out[1]}'
    if out[0] != 0:
        return f'implementation returned a wavefront, code model raised error code {out[1]}'
    rd = C.Reader(out[1:])
    if pre['kind'] == 'mul':
        tag = rd.z()
        if (exp['focal'] == 'none-attr') != (tag == 1):
            return f'focal_length attribute of the product: implementation {exp["focal"]}, code model tag {tag}'
    got = _dec_wmeta(rd)
    for key in ('ty', 'ps', 'wl', 'shape', 'fields') + (() if exp['focal'] == 'none-attr' else ('focal',)):
        if got[key] != exp[key]:
            return f'{key} of the result: implementation {exp[key]}, code model {got[key]}'
    return None


def meta_tie(tier, rng):
    binp = C.build_model(MODEL)
    tie = MetaTie()
    cases = list(C.load_corpus(ID))
    gen = list(generate(random_like(rng), tier))
    step = max(1, len(gen) // (900 if tier != 'thorough' else 4000))
    cases += gen[::step]
    for c in cases:
        try:
            run_impl(c, hook=tie)
        except Exception:
            tie.skip('history could not be built')
    outs = C.run_model(binp, [it[2]['enc'] for it in tie.items]) if tie.items else []
    viol = []
    kinds = {}
    for (c, stepi, pre, exp), out in zip(tie.items, outs):
        kinds[pre['kind']] = kinds.get(pre['kind'], 0) + 1
        msg = _meta_compare(pre, exp, out)
        if msg and len(viol) < 5:
            viol.append({'case': {k: v for k, v in c.items() if not k.startswith('_')},
                         'impl': C.jsonable({k: str(v) for k, v in exp.items()}),
                         'what': f'code model (Model/PTypeMeta.v) and implementation disagree at step {stepi} '
                                 f'{c["ops"][stepi]}: {msg}'})
    return {'histories': len(cases), 'steps_compared': kinds, 'skipped': tie.skipped}, viol


def random_like(rng):
    import random
    return random.Random(rng.random())


# ------------------------------------------------------------------ extra: what the generated tables contain
def extra(tier, rng):
    obs = _cache.get('obs')
    if obs is None:
        return {'report': {'generator': 'the exhaustive observation was refused (see the broken tie)',
                           'generate_error': _cache.get('generate_error')}, 'violations': []}
    doc = _doc()
    rep = {'observed_cells': {'mul': len(obs['mul']), 'class_mul': len(obs['cls']), 'prop': len(obs['prop'])},
           'public_plane_classes': obs['classes'],
           'class_ptype_observed': obs['class_ptype'],
           'class_ptype_documented': doc['class_ptype'],
           'classes_not_in_planes_rst': [k for k in obs['classes'] if k not in doc['class_ptype']],
           'class_tilts': obs['class_tilts'], 'fft_refuses_tilt': obs['fft_refuses_tilt'],
           'cells_reobserved_with_a_used_plane_object': obs.get('history_observations'),
           'doc_cells': {'mul': len(doc['mul']), 'prop': len(doc['prop']), 'classes': len(doc['class_ptype'])},
           'constructions_per_cell': {'Plane(ptype=p)': len(gen_ptype.PLANE_VARIANTS),
                                      'propagate_dft': len(gen_ptype.DFT_VARIANTS),
                                      'propagate_fft': len(gen_ptype.FFT_VARIANTS)}}
    rep['code_model_tie'], viol = meta_tie(tier, rng)
    return {'report': rep, 'violations': viol}
