"""C16 - Detector chain: right quantum efficiency at every pixel, exact digitisation."""
import itertools
import math
import warnings
from fractions import Fraction

import numpy as np

from .. import common as C

ID = 'C16'
MODEL = 'c16'
RUNFUN = 'run'
COQ_TARGETS = ['theories/Properties/C16.vo', 'theories/Extract/RunC16.vo', 'theories/Properties/ChainDetector.vo']
EXTRA_PROPERTIES = ['ChainDetector']   # cross-package composition theorems of the detector chain (C16 o C20, C16 o C20 o C16, C16 o C19 o C20)
DESIGN_REF = 'DESIGN.md section 6, C16'
TECHNIQUE = ('Coq proof (ring-generic sums for charge collection, rational order/floor reasoning for the ADC) about an '
             'executable model of lentil/detector.py + exact differential execution of the extracted model against '
             'lentil.detector.{collect_charge, collect_charge_bayer, adc, format_bayer_string} + a plain-loop Fraction oracle')
LEVEL_TEXT = ('Theorems in coq/theories/Properties/C16.v: collect_charge = per-pixel sum over wavelength slices of photons '
              'times efficiency, additive and homogeneous in the cube and in the efficiency (every commutative ring), scalar '
              'efficiency = constant vector; Bayer collection for every pattern size k, oversampling os >= 1 and image of '
              '(k os a) x (k os b) samples uses the efficiency of pattern[(i/os) mod k][(j/os) mod k], channel images hold '
              'their own sub-pixels and sum to the flattened image, equal efficiencies give the monochrome image; adc for '
              'all four gain forms is max(0, floor(poly(min(e, sat)))) with poly highest power first and no constant term, '
              '>= 0, non-decreasing for non-negative coefficients and inputs, warning <-> warn_saturate and a pixel above '
              'capacity; ValueError for bad pattern strings, rank > 3 gains and non-broadcastable gain axes. '
              'The extracted model is compared with lentil on every run.')
LEVEL_NOTE = ('Trusted: Coq kernel, extraction, harness; numpy einsum/tile/repeat/broadcasting are modelled and observed '
              'through the tie; Spectrum sampling (scipy interp1d, unit conversion) is outside the model: a spectrum enters '
              'as its exactly interpolated sample vector and spectrum cases are compared to 1e-9. dtype casts are checked in '
              'the tie only. Hidden state between calls is outside the pure model: the tie runs sequences of Bayer calls in one '
              'process (equal frame shape, varying oversample/pattern) and demands every answer to depend on its own arguments only.')
TRUSTED = ['Coq 8.16.1 kernel (coqc; coqchk in the thorough tier)',
           'extraction with ExtrOcamlBasic only; ocaml/driver.ml',
           'harness/props/c16.py: case codec, Fraction oracle',
           'numpy einsum / tile / repeat / broadcasting / floor / astype are modelled, observed through the tie',
           'lentil.radiometry.Spectrum.sample (scipy interp1d + unit conversion): a spectrum enters the model as its '
           'exact piecewise-linear sample vector (C13/C14 own the sampling); compared to 1e-9 relative']
ASSUMPTIONS = ['exact regime: integer photon counts, dyadic efficiencies, integer/dyadic electrons and gains '
               '(every float operation is exact, comparison by equality of rationals)',
               'images are 2-d frames or (nwave, nrows, ncols) cubes; colour patterns are non-empty, oversample >= 1',
               'spectrum efficiencies are sampled strictly inside their wavelength range; dtype casts on in-range values',
               'floats are modelled as rationals: no NaN/inf, no integer overflow in int-typed frames']
RULE = ('corpus first, then random cases over ops {collect_charge (scalar/vector/Spectrum efficiency in nm/um/angstrom), '
        'collect_charge_bayer (patterns 1x1..4x4 of random R/G/B content, oversample 1..5, flatten on/off, images that are '
        'and are not multiples of pattern*oversample), adc (four gain forms, orders 1..4, negative/saturating inputs, '
        'warn on/off, dtypes, capacity 0 and negative, broadcast and mismatching gain shapes, rank-4 gains), format_bayer_string, '
        'sequences of 2..4 Bayer calls on one frame shape with varying oversample/pattern/flatten, histories of 2..4 '
        'collect_charge/collect_charge_bayer calls sharing ONE set of efficiency objects (Spectrum in nm/um/angstrom/m, cube '
        'wavelengths on the spectrum end points in its own unit and in every exactly convertible unit, e.g. a table at 0.5..1.0 um '
        'requested at 500..1000 nm / 5000..10000 angstrom; spectrum compared exactly before/after every call; explicit '
        'Spectrum.to(unit) / Spectrum.resample(wave, waveunit=unit) steps on one efficiency between the calls, optionally with all '
        'spectra built on ONE shared wavelength ndarray: the prepared object must denote the converted / resampled table, every '
        'other object and the caller\'s array must stay untouched), caller numpy error state raise/ignore (must not matter, must '
        'not be changed), oversample as uint8, single calls whose '
        'efficiency Spectrum is tabulated exactly ON the cube wavelengths for every exact (table unit, cube unit) pair, histories '
        'of 2..4 adc calls on one frame object (shared or per-call gain objects, unity gain in the forms 1 / 1.0 / array(1.0) / '
        '[1.0] / ones frame / ones cube), the cross product of 8 gain forms x capacity None/given x frame float64/float32/int64/'
        'nested list digitised three times in a row and judged against the original frame}; frames as float64/float32/int64/int32/uint16/uint8/list, '
        'array_likes as ndarray/list/tuple, scalars as float/int/0-d array, dtype as str/type/np.dtype, capacity as Python or '
        'numpy scalar, electron counts whose powers a sloppy pow() rounds wrongly; efficiency tables whose wavelength NUMBERS '
        'equal the cube\'s in another unit (efficiency 0 outside the table); faint non-zero efficiencies 2^-24..2^-50 '
        '(uniform or one leaking slice) with large photon counts; inputs as ndarray subclasses (MaskedArray without masked '
        'entries, matrix, metadata subclass, memmap); flags as bool / numpy bool / int; thorough adds all '
        '81 2x2 patterns x oversample 1..5; non-trivial = more than one wavelength / pattern or oversample > 1 / '
        'non-scalar gain or saturation or negative input; distinct by case hash')

UNITS = ('nm', 'um', 'angstrom', 'm')
CODES = {'R': 0, 'G': 1, 'B': 2}


F = Fraction


# ------------------------------------------------------------------ helpers: efficiencies
def to_unit(w_nm, unit):
    """a wavelength given in nm (int or Fraction) as a float in the unit"""
    w = F(w_nm)
    return float({'nm': w, 'um': w / 1000, 'angstrom': w * 10, 'm': w / 10 ** 9}[unit])


def spectrum_exact(qe, w_nm):
    """exact piecewise-linear interpolation of the spectrum at w_nm; outside the table the efficiency is 0 (the documented
    fill value of Spectrum.sample, which collect_charge uses unchanged)"""
    g = [F(x) for x in qe['grid']]
    v = [F(x) for x in qe['vals']]
    w = F(w_nm)
    for a in range(len(g) - 1):
        if g[a] <= w <= g[a + 1]:
            t = (w - g[a]) / (g[a + 1] - g[a])
            return v[a] + t * (v[a + 1] - v[a])
    return Fraction(0)


def qe_vector(qe, wave_nm):
    """the efficiency as the property reads it: one exact rational per wavelength, or None if ill-formed"""
    if qe['kind'] == 'scalar':
        return [F(qe['v'])] * len(wave_nm)
    if qe['kind'] == 'vec':
        return [F(x) for x in qe['v']]
    return [spectrum_exact(qe, w) for w in wave_nm]


class MetaArray(np.ndarray):
    """an ndarray subclass carrying metadata (what astropy/xarray-like containers hand over)"""
    def __new__(cls, a, info=None):
        obj = np.asarray(a).view(cls)
        obj.info = info
        return obj

    def __array_finalize__(self, obj):
        self.info = getattr(obj, 'info', None)


WRAPS = [None] * 8 + ['masked', 'masked_false', 'matrix', 'sub', 'memmap']


def wrap(a, kind):
    """the same data as an ndarray subclass: results must equal those for the plain ndarray"""
    if kind is None or not isinstance(a, np.ndarray):
        return a
    if kind == 'masked':
        return np.ma.MaskedArray(a)
    if kind == 'masked_false':
        return np.ma.MaskedArray(a, mask=np.zeros(a.shape, dtype=bool))
    if kind == 'matrix':
        return np.matrix(a) if a.ndim == 2 else a
    if kind == 'sub':
        return MetaArray(a, info={'origin': 'test'})
    if kind == 'memmap':
        if a.size == 0:
            return a
        import tempfile
        fh = tempfile.TemporaryFile()
        m = np.memmap(fh, dtype=a.dtype, mode='w+', shape=a.shape)
        m[...] = a
        return m
    raise ValueError(kind)


def flag(v, form):
    """a truthy / falsy flag in a legal non-bool form"""
    return (np.True_ if v else np.False_) if form == 'np' else ((1 if v else 0) if form == 'int' else bool(v))


def as_form(vals, form, wrap_kind=None):
    """a documented argument form of an array_like: ndarray (default), nested list, nested tuple"""
    if form == 'list':
        return vals
    if form == 'tuple':
        return json_map_t(vals)
    return wrap(np.array(vals, dtype=float), wrap_kind)


def json_map_t(x):
    return tuple(json_map_t(v) for v in x) if isinstance(x, list) else x


def qe_impl(qe, shared_wave=None):
    lentil = C.import_lentil()
    if qe['kind'] == 'scalar':
        v = F(qe['v'])
        if qe.get('form') == '0d':
            return np.array(float(v))
        if qe.get('form') == 'int' and v.denominator == 1:
            return int(v)
        return float(v)
    if qe['kind'] == 'vec':
        return as_form([float(F(x)) for x in qe['v']], qe.get('form'), qe.get('wrap'))
    u = qe['unit']
    return lentil.radiometry.Spectrum(shared_wave if shared_wave is not None else np.array([to_unit(x, u) for x in qe['grid']]),
                                      np.array([float(F(x)) for x in qe['vals']]), waveunit=u)


def enc_qe(qe, wave_nm):
    if qe['kind'] == 'scalar':
        return [0] + C.enc_q(F(qe['v']))
    return [1] + C.enc_list(qe_vector(qe, wave_nm), C.enc_q)


UNIT_CODE = {'m': 0, 'um': 1, 'nm': 2, 'angstrom': 3}


def enc_qe_any(qe):
    """the efficiency itself (a Spectrum as its table in its own unit): the model does the sampling"""
    if qe['kind'] == 'scalar':
        return [0] + C.enc_q(F(qe['v']))
    if qe['kind'] == 'vec':
        return [1] + C.enc_list([F(x) for x in qe['v']], C.enc_q)
    k = {'nm': F(1), 'um': F(1, 1000), 'angstrom': F(10), 'm': F(1, 10 ** 9)}[qe['unit']]
    return ([2, UNIT_CODE[qe['unit']]] + C.enc_list([F(g) * k for g in qe['grid']], C.enc_q)
            + C.enc_list([F(v) for v in qe['vals']], C.enc_q))


def enc_wave_any(c):
    k = {'nm': F(1), 'um': F(1, 1000), 'angstrom': F(10), 'm': F(1, 10 ** 9)}[c['unit']]
    return C.enc_list([F(w) * k for w in c['wave']], C.enc_q) + [UNIT_CODE[c['unit']]]


def has_spectrum(c):
    return any(c.get(k, {}).get('kind') == 'spectrum' for k in ('qe', 'qr', 'qg', 'qb'))


def enc_img(img):
    a = np.asarray(img, dtype=object)
    if a.ndim == 2:
        return [2, a.shape[0], a.shape[1]] + [t for v in a.ravel() for t in C.enc_q(F(v))]
    return [3, a.shape[0], a.shape[1], a.shape[2]] + [t for v in a.ravel() for t in C.enc_q(F(v))]


def img_shape(img):
    a = np.asarray(img, dtype=object)
    return a.shape


def np_img(img, dtype=float, wrap_kind=None):
    return wrap(np.array([[[float(F(v)) for v in row] for row in sl] for sl in img] if len(img_shape(img)) == 3
                         else [[float(F(v)) for v in row] for row in img], dtype=np.dtype(dtype or 'float64')), wrap_kind)


def mk_wave(c):
    return as_form([to_unit(w, c['unit']) for w in c['wave']], c.get('wave_form'), c.get('wave_wrap'))


def mk_os(c):
    return np.int64(c['os']) if c.get('os_form') == 'np' else (np.uint8(c['os']) if c.get('os_form') == 'u8' and 0 <= c['os'] < 256 else c['os'])


def pattern_codes(s):
    return [CODES.get(ch, 9) for ch in s.upper()]


# ------------------------------------------------------------------ generation
DY = [F(k, 8) for k in range(0, 9)]
# photon cubes hold small non-negative integers: exact in every one of these types
IMG_DTYPES = ['float64', 'float64', 'float64', 'int64', 'int32', 'uint16', 'uint8', 'float32']


def rnd_dyadic(rng, lo=0, hi=8, den=8):
    return F(rng.randint(lo * den, hi * den), den)


def rnd_wave(rng, n):
    return sorted(rng.sample(range(400, 901, 25), n))


def rnd_qe(rng, wave_nm, kinds=('scalar', 'vec', 'spectrum')):
    k = rng.choice(kinds)
    if k == 'scalar':
        return {'kind': 'scalar', 'v': str(rng.choice(DY)), 'form': rng.choice(['float', 'float', '0d', 'int'])}
    if k == 'vec':
        return {'kind': 'vec', 'v': [str(rng.choice(DY)) for _ in wave_nm], 'form': rng.choice(['ndarray', 'ndarray', 'list', 'tuple'])}
    grid = sorted(set(rng.sample(range(350, 951, 50), rng.randint(3, 8)) + [300, 1000]))
    return {'kind': 'spectrum', 'unit': rng.choice(UNITS), 'grid': grid, 'vals': [str(rng.choice(DY)) for _ in grid]}


def scale_qe(q, s, only=None):
    """the efficiency multiplied by 2**-s (exactly: the regime stays exact); only=k scales one vector entry (filter leak)"""
    q = dict(q)
    m = F(1, 2 ** s)
    if q['kind'] == 'scalar':
        q['v'] = str(F(q['v']) * m)
        q['form'] = 'float'
    elif q['kind'] == 'vec':
        q['v'] = [str(F(v) * m) if only is None or k == only else v for k, v in enumerate(q['v'])]
    else:
        q['vals'] = [str(F(v) * m) for v in q['vals']]
    return q


def faint(rng, case, keys):
    """class 'absolute tolerance on a scaled quantity': efficiencies of order 1e-8 .. 1e-15 (non-zero, exact dyadics) with
    photon counts large enough for the slice to matter; every operation of the property is linear, the oracle is exact"""
    s = rng.choice([24, 27, 30, 34, 40, 50])
    leak = rng.random() < 0.35 and any(case[k]['kind'] == 'vec' and len(case[k]['v']) > 1 for k in keys)
    if leak:          # ordinary and faint slices are summed: keep the whole sum inside 53 bits
        s = min(s, 40)
    for k in keys:
        q = case[k]
        if leak and q['kind'] == 'vec' and len(q['v']) > 1:
            case[k] = scale_qe(q, s, only=rng.randrange(len(q['v'])))
        else:
            case[k] = scale_qe(q, s)
    p = 2 ** (rng.choice([0, 40 - s]) if leak else rng.choice([0, 10, 20, s - 4 if s <= 34 else 20]))
    img = case['img']
    case['img'] = [[[v * p for v in row] for row in sl] for sl in img] if len(img_shape(img)) == 3 else \
        [[v * p for v in row] for row in img]
    case['img_dtype'] = rng.choice(['float64', 'float64', 'int64'])
    return case


def rnd_cube(rng, k, r, c, hi=20):
    return [[[rng.randint(0, hi) for _ in range(c)] for _ in range(r)] for _ in range(k)]


def rnd_pattern(rng, k):
    s = ''.join(rng.choice('RGB') for _ in range(k * k))
    t = rng.random()
    if t < 0.15:
        s = s.lower()
    elif t < 0.25:
        s = ''.join(ch.lower() if rng.random() < 0.5 else ch for ch in s)
    return s


def gen_collect(rng):
    k = rng.randint(1, 4)
    r, c = rng.randint(1, 8), rng.randint(1, 8)
    wave = rnd_wave(rng, k)
    t = rng.random()
    if t < 0.12 and k == 1:
        img = rnd_cube(rng, 1, r, c)[0]          # a bare 2-d frame
    else:
        img = rnd_cube(rng, k, r, c)
    case = {'op': 'collect', 'img': img, 'wave': wave, 'unit': rng.choice(UNITS), 'qe': rnd_qe(rng, wave),
            'img_dtype': rng.choice(IMG_DTYPES), 'wave_form': rng.choice(['ndarray', 'ndarray', 'list', 'tuple'])}
    u = rng.random()
    if u < 0.08:      # wavelength count differs from the number of slices (broadcast or error: model decides)
        case['wave'] = rnd_wave(rng, rng.choice([x for x in (1, 2, 3, 4, 5) if x != k]))
        case['qe'] = rnd_qe(rng, case['wave'], ('scalar', 'vec'))
    elif u < 0.16 and case['qe']['kind'] == 'vec':   # efficiency vector of the wrong length
        case['qe']['v'] = case['qe']['v'] + ['1/2'] if rng.random() < 0.5 else case['qe']['v'][:-1] or ['1/4', '1/2']
    elif 0.16 <= u < 0.36:
        faint(rng, case, ['qe'])
    case['img_wrap'] = rng.choice(WRAPS)
    case['wave_wrap'] = rng.choice(WRAPS)
    case['errstate'] = rng.choice([None, None, None, 'raise', 'ignore'])
    if case['qe']['kind'] == 'vec':
        case['qe']['wrap'] = rng.choice(WRAPS)
    return case


def gen_bayer(rng, pk=None, os_=None, pat=None):
    pk = pk or rng.choice([1, 2, 2, 2, 3, 3, 4])
    os_ = os_ or rng.choice([1, 1, 2, 2, 3, 3, 4, 5])
    unit = pk * os_
    amax = max(1, min(3, 24 // unit))
    r, c = unit * rng.randint(1, amax), unit * rng.randint(1, amax)
    k = rng.randint(1, 4)
    wave = rnd_wave(rng, k)
    case = {'op': 'bayer', 'wave': wave, 'unit': rng.choice(UNITS), 'os': os_,
            'pattern': pat or rnd_pattern(rng, pk), 'flatten': rng.random() < 0.65,
            'img_dtype': rng.choice(IMG_DTYPES), 'wave_form': rng.choice(['ndarray', 'ndarray', 'list', 'tuple']),
            'os_form': rng.choice(['int', 'int', 'np', 'u8']), 'errstate': rng.choice([None, None, None, 'raise', 'ignore'])}
    t = rng.random()
    if t < 0.06:          # image size that is not a multiple of pattern*oversample (outside the property: model decides)
        r, c = max(1, r + rng.choice([-1, 1, 2])), max(1, c + rng.choice([-1, 0, 1]))
    case['img'] = rnd_cube(rng, k, r, c) if not (k == 1 and rng.random() < 0.1) else rnd_cube(rng, 1, r, c)[0]
    if rng.random() < 0.12:     # equal efficiencies in all channels
        q = rnd_qe(rng, wave)
        case['qr'], case['qg'], case['qb'] = q, dict(q), dict(q)
    else:
        case['qr'], case['qg'], case['qb'] = rnd_qe(rng, wave), rnd_qe(rng, wave), rnd_qe(rng, wave)
    u = rng.random()
    if u < 0.03:          # a letter that is not R/G/B
        s = list(case['pattern'])
        s[rng.randrange(len(s))] = rng.choice('XYW ')
        case['pattern'] = ''.join(s)
    elif u < 0.06:        # not a perfect square
        case['pattern'] = case['pattern'] + rng.choice('RGB') * rng.choice([1, 2])
    elif u < 0.075:       # oversample 0 / negative, or the empty pattern string
        if rng.random() < 0.6:
            case['os'] = rng.choice([0, 0, -1, -2])
        else:
            case['pattern'] = ''
    elif u < 0.10:        # an efficiency vector of the wrong length (looked at before the pattern string)
        vk = [k for k in ('qr', 'qg', 'qb') if case[k]['kind'] == 'vec']
        if vk:
            k = rng.choice(vk)
            case[k] = dict(case[k], v=case[k]['v'] + ['1/2'])
            if rng.random() < 0.3:
                case['pattern'] = case['pattern'][:-1] + 'X'
    elif u < 0.26:
        faint(rng, case, ['qr', 'qg', 'qb'])
    case['img_wrap'] = rng.choice(WRAPS)
    case['flatten_form'] = rng.choice(['bool', 'bool', 'np', 'int'])
    for k in ('qr', 'qg', 'qb'):
        if case[k]['kind'] == 'vec':
            case[k]['wrap'] = rng.choice(WRAPS)
    return case


def gen_bayer_seq(rng):
    """several collect_charge_bayer calls in one process on frames of one shape: the answers must not depend on
    which calls were made before (same pattern with another oversample, same oversample with another pattern)"""
    r, c = rng.choice([(12, 12), (12, 12), (12, 24), (24, 12), (8, 8), (6, 12)])
    combos = [(k, o) for k in (1, 2, 3, 4) for o in (1, 2, 3, 4, 5, 6) if r % (k * o) == 0 and c % (k * o) == 0]
    k = rng.choice([2, 2, 2, 3, 4, 1])
    oss = [o for kk, o in combos if kk == k]
    if len(oss) < 2:
        k = 2
        oss = [o for kk, o in combos if kk == k]
    nw = rng.randint(1, 2)
    wave = rnd_wave(rng, nw)
    pat = rnd_pattern(rng, k).upper()
    n = rng.randint(2, 4)
    calls = []
    for idx in range(n):
        t = rng.random()
        if idx > 0 and t < 0.25:          # another pattern of the same size, same oversample as the previous call
            p2, o2 = rnd_pattern(rng, k), calls[-1]['os']
        elif idx > 0 and t < 0.35:        # another pattern size
            k2, o2 = rng.choice(combos)
            p2 = rnd_pattern(rng, k2)
        else:                             # the same pattern, (usually) another oversample
            p2 = pat if rng.random() < 0.8 else pat.lower()
            o2 = rng.choice([o for o in oss if not calls or o != calls[-1]['os']] or oss)
        calls.append({'pattern': p2, 'os': o2, 'flatten': rng.random() < 0.6,
                      'qr': rnd_qe(rng, wave, ('scalar', 'vec')), 'qg': rnd_qe(rng, wave, ('scalar', 'vec')),
                      'qb': rnd_qe(rng, wave, ('scalar', 'vec'))})
    return {'op': 'bayer_seq', 'img': rnd_cube(rng, nw, r, c, hi=9), 'wave': wave, 'unit': 'nm', 'calls': calls}


def sub_cases(c):
    """the calls of a history as stand-alone cases (what each call must return had it been made first)"""
    if c['op'] == 'bayer_seq':
        return [dict(call, op='bayer', img=c['img'], wave=c['wave'], unit=c['unit']) for call in c['calls']]
    if c['op'] == 'adc_seq':
        return [dict(call, op='adc', img=c['img'], gain=call.get('gain', c['gain']), int_img=c['int_img'],
                     img_dtype=c['img_dtype']) for call in c['calls']]
    out = []
    cur = list(c['pool'])          # what each efficiency object denotes at this point of the history
    for call in c['calls']:
        if call['fn'] in ('to', 'resample'):      # an explicit preparation of one efficiency Spectrum: no charge collected
            cur[call['qe']] = prepared(cur[call['qe']], call)
            out.append(None)
            continue
        sc = {'img': c['img'], 'img_dtype': c.get('img_dtype'), 'wave': call['wave'], 'unit': call['unit']}
        if call['fn'] == 'collect':
            sc.update(op='collect', qe=cur[call['qe']])
        else:
            sc.update(op='bayer', qr=cur[call['qr']], qg=cur[call['qg']], qb=cur[call['qb']],
                      pattern=call['pattern'], os=call['os'], flatten=call['flatten'])
        out.append(sc)
    return out


def prepared(q, step):
    """the efficiency a Spectrum denotes after Spectrum.to(unit) (the same table, expressed in the unit) or after
    Spectrum.resample(wave, waveunit=unit) (the table of its linearly interpolated values on the new grid, 0 outside)"""
    if step['fn'] == 'to':
        return dict(q, unit=step['unit'], fuzzy=True)
    return {'kind': 'spectrum', 'unit': step['unit'], 'grid': list(step['wave']),
            'vals': [str(spectrum_exact(q, w)) for w in step['wave']]}


SEQ_OPS = ('bayer_seq', 'qe_seq', 'adc_seq')
# end points whose unit round trip (x*1e-3*1e3, x*10*0.1, ...) is not exact in floating point, and harmless ones
END_LO = [410, 470, 350, 430, 290, 380]
END_HI = [690, 700, 570, 950, 810, 1010]


# conversions whose documented factor (a positive power of ten) is itself an exact double
EXACT_UP = {('um', 'nm'), ('um', 'angstrom'), ('nm', 'angstrom'), ('m', 'um'), ('m', 'nm'), ('m', 'angstrom')}
UNIT_SCALE = {'nm': F(1), 'um': F(1, 1000), 'angstrom': F(10), 'm': F(1, 10 ** 9)}


def exact_in(unit, w_nm):
    """the wavelength is a double in this unit (0.5 um, 0.625 um, 6250 angstrom ...; never 0.4 um or 5e-7 m)"""
    return F(to_unit(w_nm, unit)) == F(w_nm) * UNIT_SCALE[unit]


def on_table(native, call, w_nm):
    """a table point of a spectrum tabulated in `native` is hit EXACTLY by a request in `call` for every implementation
    that converts by the documented power of ten: same unit (identical doubles), or a conversion whose factor and both
    representations are exact doubles, so that no rounding happens at all.  Elsewhere the converted grid may differ from the
    requested wavelength in the last bit even on correct code, and an END point may then legitimately fall outside the
    table (sampling accuracy is C13/C14's business): such requests are kept strictly inside the table."""
    return native == call or ((native, call) in EXACT_UP and exact_in(native, w_nm) and exact_in(call, w_nm))


def gen_qe_seq(rng):
    """ONE set of efficiency objects (at least one Spectrum) used in 2..4 collect_charge / collect_charge_bayer calls in
    different wavelength units; the cube wavelengths sit exactly on the spectrum's end points wherever that is exact
    (the spectrum's own unit, or an exact conversion such as a table at 0.5 .. 1.0 um requested at 500 .. 1000 nm /
    5000 .. 10000 angstrom, see on_table)."""
    dyadic = rng.random() < 0.4
    if dyadic:        # end points that are doubles in um, nm and angstrom alike
        lo, hi = rng.choice([250, 375, 500]), rng.choice([750, 875, 1000, 1125])
    else:
        lo, hi = rng.choice(END_LO), rng.choice(END_HI)
    nw = rng.randint(1, 3)
    pool = []
    for _ in range(rng.randint(1, 3)):
        inner = sorted(rng.sample(range(lo + 10, hi, 10), rng.randint(1, 5)))
        grid = [lo] + inner + [hi]
        unit = rng.choice(['um', 'um', 'um', 'nm', 'angstrom', 'm']) if dyadic else rng.choice(UNITS)
        pool.append({'kind': 'spectrum', 'unit': unit, 'grid': grid, 'vals': [str(rng.choice(DY)) for _ in grid]})
    if rng.random() < 0.4:
        pool.append(rnd_qe(rng, [0] * nw, ('scalar', 'vec')))
    shared = rng.random() < 0.3        # all spectra on ONE wavelength ndarray (one datasheet table, several curves)
    if shared:
        for q in pool:
            if q['kind'] == 'spectrum':
                q['grid'], q['unit'] = list(pool[0]['grid']), pool[0]['unit']
                q['vals'] = [str(rng.choice(DY)) for _ in q['grid']]
    native = pool[0]['unit']
    r, c = rng.choice([(4, 4), (6, 6), (4, 8), (2, 2), (3, 5)])
    n = rng.randint(2, 4)
    units = [rng.choice(['nm', 'nm', 'angstrom', 'um', 'm'] if dyadic else UNITS) for _ in range(n)]
    if not dyadic and rng.random() < 0.75:      # a foreign unit first, the spectrum's own unit later
        units[0] = rng.choice([u for u in UNITS if u != native])
        units[-1] = native
    cur = list(pool)
    spec_idx = [k for k, q in enumerate(pool) if q['kind'] == 'spectrum']
    preps = rng.random() < 0.45           # explicit Spectrum.to / Spectrum.resample on an efficiency before collecting
    calls = []

    def ok_request(q, u, w):
        """w may be requested from q in unit u: clearly inside or outside the table, or exactly on an end point that is hit
        without any rounding (see on_table; never after a to(), which leaves the grid rounded)"""
        g0, g1 = F(q['grid'][0]), F(q['grid'][-1])
        if w != g0 and w != g1:
            return True
        return not q.get('fuzzy') and on_table(q['unit'], u, w)

    for pos, u in enumerate(units):
        if preps and rng.random() < 0.6:
            k = rng.choice(spec_idx)
            if rng.random() < 0.5:
                step = {'fn': 'to', 'qe': k, 'unit': rng.choice([x for x in UNITS if x != cur[k]['unit']])}
            else:
                g0, g1 = int(F(cur[k]['grid'][0])), int(F(cur[k]['grid'][-1]))
                inner = [w for w in range(g0 + 5, g1, 5)]
                if len(inner) < 2:
                    inner = None
                step = None if inner is None else {'fn': 'resample', 'qe': k, 'unit': rng.choice(UNITS),
                                                   'wave': sorted(rng.sample(inner, min(len(inner), rng.randint(2, 5))))}
            if step is not None:
                cur[k] = prepared(cur[k], step)
                calls.append(step)
        fn = 'bayer' if (r % 2 == 0 and c % 2 == 0 and rng.random() < 0.35) else 'collect'
        idx = [rng.randrange(len(pool)) for _ in range(3)]
        if rng.random() < 0.7:
            idx[0] = 0
        used = idx if fn == 'bayer' else idx[:1]
        spectra = [cur[k] for k in used if cur[k]['kind'] == 'spectrum']
        allowed = [w for w in range(lo, hi + 1, 5) if all(ok_request(q, u, F(w)) for q in spectra)]
        ends = [w for q in spectra[:1] for w in (int(F(q['grid'][0])), int(F(q['grid'][-1]))) if w in allowed]
        wave = set()
        for w, pr in zip(ends, (0.85, 0.8 if dyadic else 0.5)):
            if rng.random() < pr:
                wave.add(w)
        wave = sorted(wave)[:nw]
        rest = [w for w in allowed if w not in wave]
        wave = sorted(wave + rng.sample(rest, nw - len(wave)))
        call = {'fn': fn, 'unit': u, 'wave': wave}
        if fn == 'collect':
            call['qe'] = idx[0]
        else:
            k = rng.choice([1, 2])
            call.update(qr=idx[0], qg=idx[1], qb=idx[2], pattern=rnd_pattern(rng, k), os=rng.choice([1, 2 // k]) or 1,
                        flatten=rng.random() < 0.6)
        calls.append(call)
    return {'op': 'qe_seq', 'img': rnd_cube(rng, nw, r, c, hi=12), 'img_dtype': rng.choice(IMG_DTYPES), 'pool': pool,
            'shared_grid': shared, 'calls': calls}


def gen_table_on_cube(rng):
    """a single collect_charge / collect_charge_bayer call whose efficiency Spectrum is tabulated exactly ON the cube
    wavelengths (both end points included), for every (table unit, cube unit) pair in which that is exact (on_table)"""
    nw = rng.randint(2, 4)
    fn = rng.choice(['collect', 'collect', 'bayer'])
    call_unit = rng.choice(['nm', 'nm', 'nm', 'angstrom', 'um', 'm'])
    natives = [u for u in UNITS if u == call_unit or (u, call_unit) in EXACT_UP and u != 'm']
    if any(u != call_unit for u in natives):
        wave = sorted(rng.sample(range(250, 1251, 125), nw))       # 0.25 .. 1.25 um in steps of 1/8 um
    else:
        wave = rnd_wave(rng, nw)
    def spec():
        u = rng.choice([n for n in natives if n != call_unit] * 3 + [call_unit])
        extra = sorted(rng.sample([w for w in range(wave[0] + 5, wave[-1], 5) if w not in wave], rng.randint(0, 2)))
        grid = sorted(wave + extra)
        return {'kind': 'spectrum', 'unit': u, 'grid': grid, 'vals': [str(rng.choice(DY[1:])) for _ in grid]}
    r, c = rng.choice([(2, 2), (4, 4), (2, 6), (3, 5)])
    case = {'img': rnd_cube(rng, nw, r, c, hi=12), 'img_dtype': rng.choice(IMG_DTYPES), 'wave': wave, 'unit': call_unit,
            'wave_form': rng.choice(['ndarray', 'list', 'tuple'])}
    if fn == 'collect' or r % 2 or c % 2:
        case.update(op='collect', qe=spec())
    else:
        k = rng.choice([1, 2])
        case.update(op='bayer', qr=spec(), qg=spec(), qb=rng.choice([spec(), rnd_qe(rng, wave, ('scalar', 'vec'))]),
                    pattern=rnd_pattern(rng, k), os=2 // k, flatten=rng.random() < 0.6, os_form='int')
    return case


NM_PER = {'nm': F(1), 'angstrom': F(1, 10), 'um': F(1000)}


def gen_number_coincidence(rng):
    """the efficiency Spectrum is tabulated in one unit at the very NUMBERS at which the cube is given in another unit
    (table 1200 .. 9600 angstrom, cube at 1200 .. 9600 nm): the wavelength arrays are element-wise equal, the wavelengths
    are not.  Requests are kept 0.1 % away from the table's end points (inside: interpolated, outside: efficiency 0)."""
    T, U = rng.choice([('angstrom', 'nm'), ('nm', 'angstrom'), ('um', 'nm'), ('nm', 'um'), ('angstrom', 'um'), ('um', 'angstrom')])
    nw = rng.randint(2, 4)
    pool = [3, 6, 12, 15, 24, 30, 48, 60, 96, 120, 150, 240, 300, 480, 600, 960, 1200, 2400, 3000, 4800, 6000, 9600, 11000]
    for _ in range(200):
        N = sorted(rng.sample(pool, nw))
        lo, hi = N[0] * NM_PER[T], N[-1] * NM_PER[T]
        req = [n * NM_PER[U] for n in N]
        if all(abs(x - lo) > lo / 1000 and abs(x - hi) > hi / 1000 for x in req):
            break
    js = lambda x: int(x) if x.denominator == 1 else str(x)
    def spec():
        return {'kind': 'spectrum', 'unit': T, 'grid': [js(n * NM_PER[T]) for n in N], 'vals': [str(rng.choice(DY[1:])) for _ in N]}
    r, c = rng.choice([(2, 2), (4, 4), (2, 6), (3, 5)])
    case = {'img': rnd_cube(rng, nw, r, c, hi=12), 'img_dtype': 'float64', 'wave': [js(x) for x in req], 'unit': U,
            'wave_form': rng.choice(['ndarray', 'list'])}
    if rng.random() < 0.65 or r % 2 or c % 2:
        case.update(op='collect', qe=spec())
    else:
        case.update(op='bayer', qr=spec(), qg=rng.choice([spec(), rnd_qe(rng, req, ('scalar', 'vec'))]), qb=spec(),
                    pattern=rnd_pattern(rng, 2), os=1, flatten=rng.random() < 0.6, os_form='int')
    return case


def gen_adc_seq(rng):
    """ONE frame object (and, unless a call brings its own, ONE gain object) used in 2..4 adc calls that differ in
    capacity / warning / output type / gain; every call is judged against the original frame"""
    base = gen_adc(rng)
    while base['gain']['ndim'] >= 4 or adc_expected(base) is None:
        base = gen_adc(rng)
    calls = []
    for _ in range(rng.randint(2, 4)):
        c2 = dict(base)
        hi = 30
        s = rng.random()
        c2['sat'] = None if s < 0.3 else ('0' if s < 0.36 else (str(-rng.randint(1, 5)) if s < 0.4 else str(rng.randint(1, hi))))
        c2['warn'] = rng.random() < 0.6
        c2['dtype'] = None
        own = None
        if rng.random() < 0.3:       # this call with its own gain object (unity, or another scalar), same frame object
            own = unity_gain(rng.randrange(4), 1, 1) if rng.random() < 0.6 else {'ndim': 0, 'v': rnd_coef(rng, False), 'form': 'float'}
            c2['gain'] = own
        if rng.random() < 0.6:
            exp = adc_expected(c2)
            mx = max([v for row in exp for v in row] + [0])
            cands = [d for d, lim in (('uint8', 255), ('uint16', 65535), ('int32', 2 ** 31 - 1), ('uint32', 2 ** 32 - 1),
                                      ('uint64', 2 ** 62), ('float32', 2 ** 24)) if mx <= lim]
            c2['dtype'] = rng.choice(cands) if cands else None
        call = {k: c2[k] for k in ('sat', 'sat_form', 'warn', 'dtype', 'dtype_form')}
        if own is not None:
            call['gain'] = own
        calls.append(call)
    return {'op': 'adc_seq', 'img': base['img'], 'int_img': base['int_img'], 'img_dtype': base['img_dtype'],
            'gain': base['gain'], 'calls': calls}


def rnd_electrons(rng, r, c, lo, hi, frac=True):
    den = rng.choice([1, 1, 2, 4]) if frac else 1
    return [[str(F(rng.randint(lo * den, hi * den), den)) for _ in range(c)] for _ in range(r)]


def rnd_coef(rng, nonneg, whole=False):
    lo = 0 if nonneg else -16
    if whole:
        return str(rng.choice([0, 0, 1, 1, 2, 3, 8, 16]))
    return str(F(rng.randint(lo, 24), 8))


def unity_gain(k, r, c):
    """gain exactly one, in the six forms: 1, 1.0, array(1.0), [1.0], a frame of ones, a one-slice cube of ones"""
    return [{'ndim': 0, 'v': '1', 'form': 'int'}, {'ndim': 0, 'v': '1', 'form': 'float'}, {'ndim': 0, 'v': '1', 'form': '0d'},
            {'ndim': 1, 'v': ['1'], 'form': 'list'}, {'ndim': 2, 'v': [['1'] * c for _ in range(r)], 'form': 'ndarray'},
            {'ndim': 3, 'v': [[['1'] * c for _ in range(r)]], 'form': 'ndarray'}][k]


def gen_adc_cross():
    """the cross product {gain 1 / 1.0 / array(1.0) / [1.0] / ones frame / ones cube / 2 / [1/2, -1]} x {no capacity,
    capacity} x {frame float64 / float32 / int64 / nested list} on frames with fractional and negative counts; every frame
    is digitised twice in a row (then a third time with another gain) and each answer is judged against the ORIGINAL frame"""
    frac = [['-3', '-1/2', '0'], ['1/2', '5/2', '10']]
    whole = [['-3', '-1', '0'], ['1', '2', '10']]
    for k in range(8):
        for sat in (None, '4'):
            for dt in ('float64', 'float32', 'int64', 'list'):
                g = unity_gain(k, 2, 3) if k < 6 else [{'ndim': 0, 'v': '2', 'form': 'float'},
                                                        {'ndim': 1, 'v': ['1/2', '-1'], 'form': 'ndarray'}][k - 6]
                call = {'sat': sat, 'sat_form': 'py', 'warn': True, 'dtype': None, 'dtype_form': 'dtype'}
                yield {'op': 'adc_seq', 'img': whole if dt == 'int64' else frac, 'int_img': dt == 'int64', 'img_dtype': dt,
                       'gain': g, 'calls': [dict(call), dict(call, dtype='int32'),
                                            dict(call, gain={'ndim': 1, 'v': ['1', '3/2'], 'form': 'list'}, sat=None)]}


HARD_POW = ['13', '26', '52', '13/2', '79/2', '13/4', '79/4', '77/2', '77/4']


def gen_adc(rng):
    r, c = rng.randint(1, 6), rng.randint(1, 6)
    lo = rng.choice([0, 0, -12, -30])
    hi = rng.choice([12, 30, 60])
    # frame types: float64, or integer frames (whole electrons), or float32 (|e| <= 12 in quarters: powers up to the
    # fourth stay exact in 24 bits)
    img_dtype = rng.choice(['float64'] * 6 + ['int64', 'int32', 'float32', 'float32', 'list'])
    int_img = img_dtype.startswith('int')
    if img_dtype == 'float32':
        lo, hi = max(lo, -12), 12
    img = rnd_electrons(rng, r, c, lo, hi, frac=not int_img)
    nonneg = rng.random() < 0.5
    form = rng.choice([0, 1, 1, 2, 3, 3])
    order = rng.randint(1, 4)
    hard = img_dtype == 'float64' and rng.random() < 0.2
    if hard:      # electron counts whose 3rd/4th power a not correctly rounded pow() gets wrong in the last bit; whole-number
        hi = max(hi, 52)    # coefficients put the polynomial value exactly on an integer, where floor() shows that bit
        for _ in range(rng.randint(1, 4)):
            img[rng.randrange(r)][rng.randrange(c)] = rng.choice(HARD_POW)
        form, order = rng.choice([1, 1, 3]), rng.choice([3, 4, 4])
    if hi > 30 and order > 3:
        order = 3
    if form == 0:
        gain = {'ndim': 0, 'v': rnd_coef(rng, nonneg)}
    elif form == 1:
        gain = {'ndim': 1, 'v': [rnd_coef(rng, nonneg, hard) for _ in range(order)]}
    elif form == 2:
        gain = {'ndim': 2, 'v': [[rnd_coef(rng, nonneg) for _ in range(c)] for _ in range(r)]}
    else:
        gain = {'ndim': 3, 'v': [[[rnd_coef(rng, nonneg, hard) for _ in range(c)] for _ in range(r)] for _ in range(order)]}
    if not hard and rng.random() < 0.12:      # unity gain in every form (the identity conversion: DN = floor(e))
        gain = unity_gain(rng.randrange(6), r, c)
    t = rng.random() if not hard else 1.0
    if t < 0.04:
        gain = {'ndim': 4, 'v': [[[['1']]]]}
    elif t < 0.10 and form in (2, 3):       # pixel axes that do not match the frame (broadcast or ValueError)
        gr, gc = rng.choice([(1, 1), (1, c), (r, 1), (r + 1, c), (r, c + 2), (max(1, r - 1), c)])
        if form == 2:
            gain = {'ndim': 2, 'v': [[rnd_coef(rng, nonneg) for _ in range(gc)] for _ in range(gr)]}
        else:
            gain = {'ndim': 3, 'v': [[[rnd_coef(rng, nonneg) for _ in range(gc)] for _ in range(gr)] for _ in range(order)]}
    elif t < 0.12 and form == 1:
        gain = {'ndim': 1, 'v': []}
    s = rng.random()
    if s < 0.3:
        sat = None
    elif s < 0.33:
        sat = '0'
    elif s < 0.37:
        sat = str(-rng.randint(1, 5))
    else:
        sat = str(F(rng.randint(1, 2 * hi), rng.choice([1, 1, 2])))
    if img_dtype == 'float32' and sat is not None and F(sat).denominator > 4:
        sat = str(F(sat).numerator)
    if 'form' not in gain:
        gain['form'] = rng.choice(['ndarray', 'ndarray', 'list', 'tuple']) if gain['ndim'] in (1, 2, 3) else \
            rng.choice(['float', 'float', '0d', 'int'])
    if gain['ndim'] in (1, 2, 3) and gain['form'] == 'ndarray':
        gain['wrap'] = rng.choice(WRAPS)
    case = {'op': 'adc', 'img': img, 'int_img': int_img, 'img_dtype': img_dtype, 'gain': gain, 'sat': sat,
            'sat_form': rng.choice(['py', 'py', 'np']), 'warn': rng.random() < 0.6, 'dtype': None,
            'dtype_form': rng.choice(['dtype', 'str', 'type']), 'img_wrap': rng.choice(WRAPS),
            'warn_form': rng.choice(['bool', 'bool', 'np', 'int']), 'errstate': rng.choice([None, None, None, 'raise', 'ignore'])}
    if rng.random() < 0.5:
        exp = adc_expected(case)
        if exp is not None:
            mx = max([v for row in exp for v in row] + [0])
            cands = [d for d, lim in (('uint8', 255), ('uint16', 65535), ('int16', 32767), ('int32', 2 ** 31 - 1),
                                      ('uint32', 2 ** 32 - 1), ('int64', 2 ** 62), ('float32', 2 ** 24), ('float64', 2 ** 53))
                     if mx <= lim]
            case['dtype'] = rng.choice(cands) if cands else None
    return case


def gen_fmt(rng):
    k = rng.randint(1, 4)
    s = rnd_pattern(rng, k)
    t = rng.random()
    if t < 0.2:
        s += rng.choice('RGB')
    elif t < 0.35:
        s = s[:rng.randrange(len(s))] + rng.choice('xQ 1') + s[rng.randrange(len(s)):]
    return {'op': 'fmt', 'pattern': s}


def generate(rng, tier):
    n = 700 if tier == 'quick' else 9000
    for _ in range(n):
        t = rng.random()
        if t < 0.22:
            yield gen_collect(rng)
        elif t < 0.55:
            yield gen_bayer(rng)
        elif t < 0.96:
            yield gen_adc(rng)
        else:
            yield gen_fmt(rng)
    for _ in range(50 if tier == 'quick' else 500):
        yield gen_bayer_seq(rng)
    for _ in range(90 if tier == 'quick' else 900):
        yield gen_qe_seq(rng)
    for _ in range(40 if tier == 'quick' else 400):
        yield gen_adc_seq(rng)
    for _ in range(60 if tier == 'quick' else 600):
        yield gen_table_on_cube(rng)
    for _ in range(40 if tier == 'quick' else 400):
        yield gen_number_coincidence(rng)
    yield from gen_adc_cross()
    if tier == 'thorough':
        for pat in itertools.product('RGB', repeat=4):
            for os_ in range(1, 6):
                yield gen_bayer(rng, 2, os_, ''.join(pat))


def classify(c):
    if c['op'] == 'collect':
        return 'collect/' + c['qe']['kind']
    if c['op'] == 'bayer':
        return f'bayer/k{int(math.isqrt(len(c["pattern"])))}/os{c["os"]}'
    if c['op'] == 'adc':
        return f'adc/gain{c["gain"]["ndim"]}'
    if c['op'] in SEQ_OPS:
        return f'{c["op"]}/{len(c["calls"])}calls'
    return c['op']


def nontrivial(c):
    if c['op'] == 'collect':
        return len(c['wave']) > 1
    if c['op'] == 'bayer':
        return len(c['pattern']) > 1 or c['os'] > 1
    if c['op'] == 'bayer_seq':
        return len({(x['pattern'].upper(), x['os']) for x in c['calls']}) > 1
    if c['op'] == 'qe_seq':
        return len({x['unit'] for x in c['calls']}) > 1
    if c['op'] == 'adc_seq':
        return len({(x['sat'], x['dtype'], x['warn'], str(x.get('gain'))) for x in c['calls']}) > 1
    if c['op'] == 'adc':
        return c['gain']['ndim'] != 0 or c['sat'] is not None or any(F(v) < 0 for row in c['img'] for v in row)
    return True


# ------------------------------------------------------------------ model side
def enc_gain(g):
    nd = g['ndim']
    if nd == 0:
        return [0] + C.enc_q(F(g['v']))
    if nd == 1:
        return [1] + C.enc_list([F(x) for x in g['v']], C.enc_q)
    a = np.asarray(g['v'], dtype=object)
    if nd == 2:
        return [2, a.shape[0], a.shape[1]] + [t for v in a.ravel() for t in C.enc_q(F(v))]
    if nd == 3:
        return [3, a.shape[0], a.shape[1], a.shape[2]] + [t for v in a.ravel() for t in C.enc_q(F(v))]
    return [4]


def encode(c):
    op = c['op']
    try:
        if op == 'collect' and has_spectrum(c):      # the model samples the Spectrum itself (Model/DetectorQE.v)
            return [8] + enc_img(c['img']) + enc_wave_any(c) + enc_qe_any(c['qe'])
        if op == 'collect':
            return [1] + enc_img(c['img']) + [len(c['wave'])] + enc_qe(c['qe'], c['wave'])
        if op == 'bayer':
            if has_spectrum(c) or c['os'] < 1 or len(c['pattern']) < 1:      # the entry-point model (Model/DetectorQE.v)
                return ([9] + enc_img(c['img']) + enc_wave_any(c) + enc_qe_any(c['qr']) + enc_qe_any(c['qg'])
                        + enc_qe_any(c['qb']) + C.enc_list(pattern_codes(c['pattern']), lambda x: [x])
                        + [c['os'], 1 if c['flatten'] else 0])
            return ([2] + enc_img(c['img']) + [len(c['wave'])] + enc_qe(c['qr'], c['wave']) + enc_qe(c['qg'], c['wave'])
                    + enc_qe(c['qb'], c['wave']) + C.enc_list(pattern_codes(c['pattern']), lambda x: [x])
                    + [c['os'], 1 if c['flatten'] else 0])
        if op == 'bayer_seq':
            out = [5, len(c['calls'])]
            for sc in sub_cases(c):
                e1 = encode(sc)
                if e1 is None:
                    return None
                out += e1[1:]
            return out
        if op in ('qe_seq', 'adc_seq'):       # op 6: every call carries its own tag (= the op code of the single call)
            scs = [sc for sc in sub_cases(c) if sc is not None]
            out = [6, len(scs)]
            for sc in scs:
                e1 = encode(sc)
                if e1 is None:
                    return None
                out += e1
            return out
        if op == 'adc':
            a = np.asarray(c['img'], dtype=object)
            e = [3, a.shape[0], a.shape[1]] + [t for v in a.ravel() for t in C.enc_q(F(v))]
            e += enc_gain(c['gain'])
            e += [0] if c['sat'] is None else [1] + C.enc_q(F(c['sat']))
            return e + [1 if c['warn'] else 0]
        if op == 'fmt':
            if len(c['pattern']) < 1:
                return None
            return [4] + C.enc_list(pattern_codes(c['pattern']), lambda x: [x])
    except ValueError:
        return None
    raise ValueError(op)


def read_qarr(rd):
    n, m = rd.z(), rd.z()
    return {'shape': [n, m], 'vals': [[rd.q() for _ in range(m)] for _ in range(n)]}


def decode(c, ints):
    if c['op'] in SEQ_OPS:
        rd = C.Reader(ints, 1)
        assert rd.z() == 0
        out = []
        for sc in sub_cases(c):
            if sc is None:
                out.append(None)
                continue
            n = rd.z()
            out.append(decode(sc, [rd.z() for _ in range(n)]))
        assert rd.done()
        return {'seq': out}
    rd = C.Reader(ints, 1)
    st = rd.z()
    if st == 1:
        return {'err': {**C.ERRNAMES, 7: 'ZeroDivisionError'}[rd.z()]}
    op = c['op']
    if op == 'collect' or (op == 'bayer' and c['flatten']):
        return read_qarr(rd)
    if op == 'bayer':
        return {'channels': [read_qarr(rd) for _ in range(3)]}
    if op == 'adc':
        w = bool(rd.z())
        n, m = rd.z(), rd.z()
        return {'warned': w, 'shape': [n, m], 'dn': [[rd.z() for _ in range(m)] for _ in range(n)]}
    if op == 'fmt':
        k = rd.z()
        return {'k': k, 'codes': [[rd.z() for _ in range(k)] for _ in range(k)]}
    raise ValueError(op)


# ------------------------------------------------------------------ implementation side
def canon_arr(a):
    a = np.asarray(a)
    return {'shape': [int(a.shape[0]), int(a.shape[1])], 'vals': [[float(v) for v in row] for row in a.tolist()]}


def mk_frame(c):
    dt = c.get('img_dtype') or ('int64' if c.get('int_img') else 'float64')
    if dt == 'list':          # a nested Python list (array_like)
        return [[(int(F(v)) if F(v).denominator == 1 else float(F(v))) for v in row] for row in c['img']]
    if dt.startswith('int'):
        return wrap(np.array([[int(F(v)) for v in row] for row in c['img']], dtype=np.dtype(dt)), c.get('img_wrap'))
    return wrap(np.array([[float(F(v)) for v in row] for row in c['img']], dtype=np.dtype(dt)), c.get('img_wrap'))


def mk_gain(g):
    form = g.get('form')
    if g['ndim'] == 0:
        v = F(g['v'])
        if form == '0d':
            return np.array(float(v))
        if form == 'int' and v.denominator == 1:
            return int(v)
        return float(v)
    if g['ndim'] == 1 and len(g['v']) == 0:
        return [] if form == 'list' else (() if form == 'tuple' else np.zeros((0,)))
    return as_form(json_map(g['v'], lambda x: float(F(x))), form, g.get('wrap'))


class caller_errstate:
    """the caller's numpy error state (all='raise' / 'ignore'): results must not depend on it and the library must
    leave it as it found it"""
    def __init__(self, mode):
        self.mode, self.changed = mode, None

    def __enter__(self):
        self.cm = np.errstate(all=self.mode) if self.mode else None
        if self.cm:
            self.cm.__enter__()
        self.before = np.geterr()
        return self

    def __exit__(self, *a):
        after = np.geterr()
        if after != self.before:
            self.changed = f'{self.before} -> {after}'
        if self.cm:
            self.cm.__exit__(*a)
        return False


def with_errstate(c, f):
    es = caller_errstate(c.get('errstate'))
    with es:
        res = f()
    if es.changed:
        res['errstate_changed'] = es.changed
    return res


def call_collect(D, c, img, wave, qe):
    def f():
        try:
            return canon_arr(D.collect_charge(img, wave, qe, waveunit=c['unit']))
        except Exception as e:
            return {'err': type(e).__name__}
    return with_errstate(c, f)


def call_bayer(D, c, img, wave, qr, qg, qb):
    return with_errstate(c, lambda: call_bayer_(D, c, img, wave, qr, qg, qb))


def call_bayer_(D, c, img, wave, qr, qg, qb):
    try:
        out = D.collect_charge_bayer(img, wave, qr, qg, qb, c['pattern'], oversample=mk_os(c), waveunit=c['unit'],
                                     flatten=flag(c['flatten'], c.get('flatten_form')))
        if c['flatten']:
            return canon_arr(out)
        if len(out) != 3:
            return {'err': 'NotThreeChannels'}
        return {'channels': [canon_arr(x) for x in out]}
    except Exception as e:
        return {'err': type(e).__name__}


def frame_same(img, before):
    """the caller's frame object holds exactly what it held before (values, type, shape)"""
    if isinstance(img, list):
        return img == before and all(type(x) is type(y) for r1, r2 in zip(img, before) for x, y in zip(r1, r2))
    return bool(np.array_equal(img, before)) and img.dtype == before.dtype and img.shape == before.shape


def frame_diff(img, before):
    a, b = np.asarray(img, dtype=float), np.asarray(before, dtype=float)
    if a.shape != b.shape:
        return f'shape {b.shape} -> {a.shape}'
    idx = np.argwhere(a != b)
    if len(idx) == 0:
        return 'type of the frame changed'
    i, j = (int(x) for x in idx[0])
    return f'{len(idx)} pixel(s) rewritten, e.g. ({i},{j}): {b[i, j]!r} -> {a[i, j]!r}'


def call_adc(D, c, img, gain):
    return with_errstate(c, lambda: call_adc_(D, c, img, gain))


def call_adc_(D, c, img, gain):
    before = [list(r) for r in img] if isinstance(img, list) else img.copy()
    try:
        sat = None
        if c['sat'] is not None:
            sat = int(F(c['sat'])) if F(c['sat']).denominator == 1 else float(F(c['sat']))
            if c.get('sat_form') == 'np':
                sat = np.int64(sat) if isinstance(sat, int) else np.float64(sat)
        kw = {}
        if c['dtype'] is not None:
            form = c.get('dtype_form')
            kw['dtype'] = c['dtype'] if form == 'str' else (np.dtype(c['dtype']).type if form == 'type' else np.dtype(c['dtype']))
        with warnings.catch_warnings(record=True) as rec:
            warnings.simplefilter('always')
            out = D.adc(img, gain, saturation_capacity=sat, warn_saturate=flag(c['warn'], c.get('warn_form')), **kw)
        out = np.asarray(out)
        return {'warned': any('saturat' in str(w.message).lower() for w in rec),
                'n_warnings': len(rec),
                'shape': [int(out.shape[0]), int(out.shape[1])],
                'dn': [[float(v) for v in row] for row in out.tolist()],
                'dtype': str(out.dtype),
                'input_unchanged': frame_same(img, before),
                'input_change': None if frame_same(img, before) else frame_diff(img, before)}
    except Exception as e:
        return {'err': type(e).__name__, 'input_unchanged': frame_same(img, before)}


def spectrum_state(s):
    return (np.array(s.wave, dtype=float).copy(), np.array(s.value, dtype=float).copy(), s.waveunit, s.valueunit)


def spectrum_changes(s, st0):
    """None if the spectrum is exactly as it was, else a description of what changed"""
    w, v, wu, vu = spectrum_state(s)
    out = []
    if wu != st0[2] or vu != st0[3]:
        out.append(f'units {st0[2]}/{st0[3]} -> {wu}/{vu}')
    if w.shape != st0[0].shape or not np.array_equal(w, st0[0]):
        k = int(np.argmax(w != st0[0])) if w.shape == st0[0].shape else -1
        out.append(f'wavelength grid changed (sample {k}: {st0[0][k]!r} -> {w[k]!r})' if k >= 0 else 'wavelength grid resized')
    if v.shape != st0[1].shape or not np.array_equal(v, st0[1]):
        out.append('values changed')
    return '; '.join(out) or None


def run_impl(c):
    lentil = C.import_lentil()
    D = lentil.detector
    op = c['op']
    if op == 'bayer_seq':        # the calls of the sequence, in order, in this process
        return {'seq': [run_impl(sc) for sc in sub_cases(c)]}
    if op == 'qe_seq':           # one frame and one pool of efficiency objects shared by all calls of the history
        img = np_img(c['img'], c.get('img_dtype'), c.get('img_wrap'))
        shared = None
        if c.get('shared_grid'):       # R/G/B curves of one datasheet: every Spectrum is built on the SAME wavelength ndarray
            q0 = next(q for q in c['pool'] if q['kind'] == 'spectrum')
            shared = np.array([to_unit(x, q0['unit']) for x in q0['grid']])
        pool = [qe_impl(q, shared) for q in c['pool']]
        states = {k: spectrum_state(o) for k, o in enumerate(pool) if c['pool'][k]['kind'] == 'spectrum'}
        out = []
        for call, sc in zip(c['calls'], sub_cases(c)):
            if sc is None:
                k = call['qe']
                res = {'prep': True}
                try:
                    if call['fn'] == 'to':
                        pool[k].to(call['unit'])
                    else:
                        pool[k].resample(np.array([to_unit(w, call['unit']) for w in call['wave']]), waveunit=call['unit'])
                    if pool[k].waveunit != call['unit']:
                        res['err'] = f'WrongUnitLabel({pool[k].waveunit})'
                except Exception as e:
                    res['err'] = type(e).__name__
                states[k] = spectrum_state(pool[k])      # this object has legitimately changed; the others must not
                res['spectra_changed'] = [f'efficiency spectrum #{j}: {m}' for j, st in states.items() if j != k
                                          for m in [spectrum_changes(pool[j], st)] if m]
                if shared is not None and not np.array_equal(shared, np.array([to_unit(x, q0['unit']) for x in q0['grid']])):
                    res['spectra_changed'].append('the caller\'s wavelength array itself was rewritten')
                out.append(res)
                continue
            wave = mk_wave(sc)
            if call['fn'] == 'collect':
                res = call_collect(D, sc, img, wave, pool[call['qe']])
            else:
                res = call_bayer(D, sc, img, wave, pool[call['qr']], pool[call['qg']], pool[call['qb']])
            ch = [f'efficiency spectrum #{k} ({c["pool"][k]["unit"]}): {m}' for k, st in states.items()
                  for m in [spectrum_changes(pool[k], st)] if m]
            res['spectra_changed'] = ch
            out.append(res)
        return {'seq': out}
    if op == 'adc_seq':          # one frame object and one gain object shared by all calls of the history
        img = mk_frame(c)          # ONE frame object for the whole history, never rebuilt
        gain = mk_gain(c['gain'])
        return {'seq': [call_adc(D, sc, img, mk_gain(call['gain']) if 'gain' in call else gain)
                        for call, sc in zip(c['calls'], sub_cases(c))]}
    if op == 'collect':
        return call_collect(D, c, np_img(c['img'], c.get('img_dtype'), c.get('img_wrap')), mk_wave(c), qe_impl(c['qe']))
    if op == 'bayer':
        return call_bayer(D, c, np_img(c['img'], c.get('img_dtype'), c.get('img_wrap')), mk_wave(c), qe_impl(c['qr']), qe_impl(c['qg']),
                          qe_impl(c['qb']))
    if op == 'adc':
        return call_adc(D, c, mk_frame(c), mk_gain(c['gain']))
    if op == 'fmt':
        try:
            a = D.format_bayer_string(c['pattern'])
            return {'k': int(a.shape[0]), 'codes': [[CODES.get(str(ch), 9) for ch in row] for row in a.tolist()],
                    'square': a.ndim == 2 and a.shape[0] == a.shape[1]}
        except Exception as e:
            return {'err': type(e).__name__}
    raise ValueError(op)


def json_map(x, f):
    if isinstance(x, list):
        return [json_map(v, f) for v in x]
    return f(x)


# ------------------------------------------------------------------ comparison
TOL_FLOOR = [1.0]      # absolute floor of the 1e-9 comparison of spectrum cases: min(1, magnitude of the case)


def close(x, y, exact):
    """x: float from the implementation, y: Fraction"""
    if exact:
        return C.frac(x) == y
    return abs(x - float(y)) <= 1e-9 * (TOL_FLOOR[0] + abs(float(y)))


def set_tol_floor(c):
    """spectrum cases are compared to 1e-9 relative with an absolute floor; the floor follows the scale of the case
    (largest photon count x largest efficiency) when that is below one, so that faint / low-efficiency cases are not
    compared more loosely than ordinary ones"""
    TOL_FLOOR[0] = 1.0
    qs = [c[k] for k in ('qe', 'qr', 'qg', 'qb') if isinstance(c.get(k), dict)]
    if not qs or 'img' not in c:
        return
    mq = max([abs(F(v)) for q in qs for v in (q['vals'] if q['kind'] == 'spectrum' else
                                                 (q['v'] if q['kind'] == 'vec' else [q['v']]))] + [0])
    mp = max([abs(F(v)) for sl in cube_of(c) for row in sl for v in row] + [0]) * len(cube_of(c))
    TOL_FLOOR[0] = float(min(1, mq * mp))


def cmp_qarr(impl, model, exact, what):
    if impl['shape'] != model['shape']:
        return f'{what}: shape {impl["shape"]} vs model {model["shape"]}'
    for i, (ri, rm) in enumerate(zip(impl['vals'], model['vals'])):
        for j, (x, y) in enumerate(zip(ri, rm)):
            if not close(x, y, exact):
                return f'{what}: pixel ({i},{j}) implementation {x} model {y}'
    return None


def refusal(c):
    """(exception, reason) if the call is one of the refusals stated in Properties/C16.v (C16_collect_vector_length_refused,
    C16_collect_slice_count_refused, C16_bayer_refusal_order, C16_format_bayer_rejects, C16_bayer_frame_not_tiled_refused),
    in the order in which the code looks at its arguments; else None"""
    op = c['op']
    if op not in ('collect', 'bayer'):
        return None
    nk, nw = len(cube_of(c)), len(c['wave'])
    for k in (['qe'] if op == 'collect' else ['qr', 'qg', 'qb']):
        if c[k]['kind'] == 'vec' and len(c[k]['v']) != nw:
            return ('AssertionError', 'efficiency vector whose length is not the number of wavelengths')
    if op == 'bayer':
        s = c['pattern'].upper()
        k = math.isqrt(len(s))
        if len(s) < 1 or c['os'] < 1:
            return None
        if any(ch not in 'RGB' for ch in s) or k * k != len(s):
            return ('ValueError', 'pattern string')
    if nk != nw and nk != 1 and nw != 1:
        return ('ValueError', 'cube whose number of slices is not the number of wavelengths')
    if op == 'bayer' and nk == nw:
        cube = cube_of(c)
        R, Cc, o = len(cube[0]), len(cube[0][0]), c['os']
        mr, mc = k * ((R // o) // k) * o, k * ((Cc // o) // k) * o
        if (R != mr and R != 1 and mr != 1) or (Cc != mc and Cc != 1 and mc != 1):
            return ('ValueError', 'frame that does not consist of whole tiles of pattern x oversample')
    return None


def pinned(c):
    """what the property (and the documented error cases) pin for this input:
    'value' = inside the property's domain, 'error' = a documented refusal (bad pattern string, gain of rank > 3,
    gain pixel axes that cannot be matched with the frame), None = an accident of numpy broadcasting that a harmless
    rewrite may change (wavelength count != number of slices, frames that are not multiples of pattern*oversample,
    gain axes of length 1): modelled, generated, but not compared.  The refusals of the collection entry points that
    Properties/C16.v states (see refusal) are pinned as errors, with their exception."""
    op = c['op']
    if refusal(c):
        return 'error'
    if op == 'bayer' and (c['os'] < 1 or len(c['pattern']) < 1):
        return 'raises'      # C16_bayer_zero_division / C16_bayer_negative_oversample_refused: some exception, kind not pinned
    if op == 'collect':
        return 'value' if collect_domain(c, ['qe']) else None
    if op == 'bayer':
        s = c['pattern'].upper()
        k = math.isqrt(len(s))
        cube = cube_of(c)
        R, Cc = len(cube[0]), len(cube[0][0])
        if len(s) < 1 or c['os'] < 1 or not collect_domain(c, ['qr', 'qg', 'qb']) or R % (k * c['os']) or Cc % (k * c['os']):
            return None
        return 'value'
    if op == 'adc':
        g = c['gain']
        if g['ndim'] >= 4:
            return 'error'
        if gain_fits(c):
            return 'value'
        if g['ndim'] == 3 and len(g['v']) == 0:
            return None
        r, cc = len(c['img']), len(c['img'][0])
        gr, gc = (len(g['v']), len(g['v'][0])) if g['ndim'] == 2 else (len(g['v'][0]), len(g['v'][0][0]))
        if (gr != r and 1 not in (gr, r)) or (gc != cc and 1 not in (gc, cc)):
            return 'error'
        return None
    return 'value'


def compare(c, impl, model):
    op = c['op']
    if op in SEQ_OPS:
        for n, (sc, a, b) in enumerate(zip(sub_cases(c), impl['seq'], model['seq'])):
            if sc is None:
                continue
            m = compare(sc, a, b)
            if m:
                return f'call {n + 1} of the sequence: {m}'
        return None
    pin = pinned(c)
    if pin is None:
        return None
    if pin == 'raises':
        return None if ('err' in impl) == ('err' in model) else (
            f'implementation {"raised " + impl["err"] if "err" in impl else "returned a value"}, '
            f'model {"raised " + model["err"] if "err" in model else "returned a value"}')
    if ('err' in impl) != ('err' in model):
        return (f'implementation {impl if "err" in impl else "returned a value"}, '
                f'model {model if "err" in model else "returned a value"}')
    if 'err' in impl:
        return None if impl['err'] == model['err'] else f'error kinds differ: impl {impl["err"]} model {model["err"]}'
    exact = not has_spectrum(c)
    set_tol_floor(c)
    if op == 'collect' or (op == 'bayer' and c['flatten']):
        return cmp_qarr(impl, model, exact, op)
    if op == 'bayer':
        for name, a, b in zip('RGB', impl['channels'], model['channels']):
            m = cmp_qarr(a, b, exact, f'channel {name}')
            if m:
                return m
        return None
    if op == 'adc':
        if impl['shape'] != model['shape']:
            return f'adc: shape {impl["shape"]} vs model {model["shape"]}'
        for i, (ri, rm) in enumerate(zip(impl['dn'], model['dn'])):
            for j, (x, y) in enumerate(zip(ri, rm)):
                if x != y:
                    return f'adc: pixel ({i},{j}) implementation {x} model {y}'
        if impl['warned'] != model['warned']:
            return f'adc: warning emitted {impl["warned"]}, model {model["warned"]}'
        return None
    if op == 'fmt':
        return None if (impl['k'], impl['codes']) == (model['k'], model['codes']) else f'fmt: impl {impl} model {model}'
    raise ValueError(op)


# ------------------------------------------------------------------ direct property oracle (independent of the model)
def cube_of(c):
    img = c['img']
    return [img] if len(img_shape(img)) == 2 else img


def collect_domain(c, keys):
    """the property speaks about cubes with one wavelength per slice and well-formed efficiencies"""
    cube = cube_of(c)
    if len(cube) != len(c['wave']):
        return False
    for k in keys:
        q = c[k]
        if q['kind'] == 'vec' and len(q['v']) != len(c['wave']):
            return False
    return True


def poly_no_const(coefs, x):
    """highest power first, no constant term: c0 x^n + ... + c_{n-1} x"""
    acc = Fraction(0)
    for cf in coefs:
        acc = acc * x + cf
    return acc * x


def gain_coefs(g, i, j):
    nd = g['ndim']
    if nd == 0:
        return [F(g['v'])]
    if nd == 1:
        return [F(x) for x in g['v']]
    if nd == 2:
        return [F(g['v'][i][j])]
    return [F(sl[i][j]) for sl in g['v']]


def gain_fits(c):
    g = c['gain']
    r, cc = len(c['img']), len(c['img'][0])
    if g['ndim'] in (0, 1):
        return True
    if g['ndim'] == 2:
        return (len(g['v']), len(g['v'][0])) == (r, cc)
    if g['ndim'] == 3:
        return len(g['v']) >= 1 and (len(g['v'][0]), len(g['v'][0][0])) == (r, cc)
    return False


def adc_expected(c):
    """DN the property prescribes, or None outside its domain (gain does not fit the frame)"""
    if not gain_fits(c):
        return None
    sat = None if c['sat'] is None else F(c['sat'])
    out = []
    for i, row in enumerate(c['img']):
        o = []
        for j, v in enumerate(row):
            e = F(v)
            if sat is not None:
                e = min(e, sat)
            o.append(max(0, math.floor(poly_no_const(gain_coefs(c['gain'], i, j), e))))
        out.append(o)
    return out


def oracle(c, impl):
    if isinstance(impl, dict) and impl.get('errstate_changed'):
        return f'the call changed the caller\'s numpy error state: {impl["errstate_changed"]}'
    op = c['op']
    if op == 'bayer_seq':
        for n, (sc, a) in enumerate(zip(sub_cases(c), impl['seq'])):
            m = oracle(sc, a)
            if m:
                return (f'call {n + 1} of {len(c["calls"])} (pattern {sc["pattern"]!r}, oversample {sc["os"]}) after calls '
                        f'{[(x["pattern"], x["os"]) for x in c["calls"][:n]]} on the same frame shape: {m}')
        return None
    if op == 'qe_seq':
        for n, (call, sc, a) in enumerate(zip(c['calls'], sub_cases(c), impl['seq'])):
            hist = [(x['fn'], x['unit']) + ((f"#{x['qe']}",) if x['fn'] in ('to', 'resample') else ()) for x in c['calls'][:n]]
            if sc is None:
                if 'err' in a:
                    return f'step {n + 1}: Spectrum.{call["fn"]}(waveunit {call["unit"]!r}) on efficiency #{call["qe"]} raised {a["err"]}'
                if a.get('spectra_changed'):
                    return (f'step {n + 1}: Spectrum.{call["fn"]}({call["unit"]!r}) on efficiency #{call["qe"]} changed ANOTHER '
                            f'efficiency object: {a["spectra_changed"][0]}')
                continue
            m = oracle(sc, a)
            if m:
                return (f'call {n + 1} of {len(c["calls"])} ({call["fn"]}, waveunit {call["unit"]!r}, wavelengths {call["wave"]} nm) '
                        f'after calls {hist} with the same efficiency objects: {m}')
            if a.get('spectra_changed'):
                return (f'call {n + 1} of {len(c["calls"])} ({call["fn"]}, waveunit {call["unit"]!r}) changed its efficiency '
                        f'argument: {a["spectra_changed"][0]}')
        return None
    if op == 'adc_seq':
        for n, (call, sc, a) in enumerate(zip(c['calls'], sub_cases(c), impl['seq'])):
            m = oracle(sc, a)
            if m:
                gd = lambda x: x.get('gain', c['gain'])
                return (f'call {n + 1} of {len(c["calls"])} (gain {gd(call)["v"]} as {gd(call).get("form")}, capacity '
                        f'{call["sat"]}, dtype {call["dtype"]}) after calls '
                        f'{[(gd(x)["v"], x["sat"], x["dtype"]) for x in c["calls"][:n]]} on the same {c["img_dtype"]} frame object '
                        f'(every call is judged against the ORIGINAL frame {c["img"]}): {m}')
        return None
    exact = not has_spectrum(c)
    set_tol_floor(c)
    if op == 'bayer' and pinned(c) == 'raises':
        return None if 'err' in impl else f'collect_charge_bayer accepted oversample={c["os"]} pattern={c["pattern"]!r}: {str(impl)[:160]}'
    if op in ('collect', 'bayer', 'adc') and pinned(c) == 'error':
        kind, what = refusal(c) or ('ValueError', 'gain')
        return None if impl.get('err') == kind else f'{op}: a {what} was not refused with {kind}: {str(impl)[:200]}'
    if op == 'collect':
        if not collect_domain(c, ['qe']):
            return None
        if 'err' in impl:
            return f'collect_charge raised {impl["err"]}'
        cube = cube_of(c)
        q = qe_vector(c['qe'], c['wave'])
        R, Cc = len(cube[0]), len(cube[0][0])
        if impl['shape'] != [R, Cc]:
            return f'collect_charge: result shape {impl["shape"]} for a {R}x{Cc} frame'
        for i in range(R):
            for j in range(Cc):
                exp = sum(F(cube[k][i][j]) * q[k] for k in range(len(cube)))
                if not close(impl['vals'][i][j], exp, exact):
                    return f'collect_charge: pixel ({i},{j}) is {impl["vals"][i][j]}, sum of photons*qe is {exp}'
        return None
    if op == 'bayer':
        s = c['pattern'].upper()
        k = math.isqrt(len(s))
        cube = cube_of(c)
        R, Cc = len(cube[0]), len(cube[0][0])
        osf = c['os']
        if (not collect_domain(c, ['qr', 'qg', 'qb']) or any(ch not in 'RGB' for ch in s) or k * k != len(s) or k < 1
                or osf < 1 or R % (k * osf) or Cc % (k * osf)):
            return None
        if 'err' in impl:
            return f'collect_charge_bayer raised {impl["err"]}'
        qs = {'R': qe_vector(c['qr'], c['wave']), 'G': qe_vector(c['qg'], c['wave']), 'B': qe_vector(c['qb'], c['wave'])}
        arrs = [impl] if c['flatten'] else impl['channels']
        for a in arrs:
            if a['shape'] != [R, Cc]:
                return f'collect_charge_bayer: result shape {a["shape"]} for a {R}x{Cc} frame'
        for i in range(R):
            for j in range(Cc):
                col = s[((i // osf) % k) * k + (j // osf) % k]
                exp = sum(F(cube[w][i][j]) * qs[col][w] for w in range(len(cube)))
                if c['flatten']:
                    if not close(impl['vals'][i][j], exp, exact):
                        return (f'sub-pixel ({i},{j}) belongs to colour {col}: expected {exp} electrons, '
                                f'got {impl["vals"][i][j]}')
                else:
                    tot = 0.0
                    for name, a in zip('RGB', impl['channels']):
                        want = exp if name == col else Fraction(0)
                        if not close(a['vals'][i][j], want, exact):
                            return (f'channel {name} at sub-pixel ({i},{j}) (colour {col}): expected {want}, '
                                    f'got {a["vals"][i][j]}')
        return None
    if op == 'adc':
        exp = adc_expected(c)
        if exp is None:
            return None
        if 'err' in impl:
            return f'adc raised {impl["err"]}'
        R, Cc = len(exp), len(exp[0])
        if impl['shape'] != [R, Cc]:
            return f'adc: result shape {impl["shape"]} for a {R}x{Cc} frame'
        for i in range(R):
            for j in range(Cc):
                got = impl['dn'][i][j]
                if got < 0:
                    return f'adc: negative DN {got} at ({i},{j})'
                if got != exp[i][j]:
                    return (f'adc: pixel ({i},{j}) with {c["img"][i][j]} e- gives DN {got}, '
                            f'max(0, floor(poly(min(e, sat)))) is {exp[i][j]}')
        sat = None if c['sat'] is None else F(c['sat'])
        should_warn = c['warn'] and sat is not None and any(F(v) > sat for row in c['img'] for v in row)
        if impl['warned'] != should_warn:
            return f'adc: saturation warning emitted = {impl["warned"]}, expected {should_warn}'
        if not impl['input_unchanged']:
            return f'adc modified the input frame: {impl.get("input_change")}'
        if c['dtype'] is not None and impl['dtype'] != str(np.dtype(c['dtype'])):
            return f'adc: output dtype {impl["dtype"]}, requested {c["dtype"]}'
        return None
    if op == 'fmt':
        s = c['pattern'].upper()
        k = math.isqrt(len(s))
        ok = all(ch in 'RGB' for ch in s) and k * k == len(s) and k >= 1
        if not ok:
            if len(s) == 0:
                return None
            return None if impl.get('err') == 'ValueError' else f'format_bayer_string accepted {c["pattern"]!r}: {impl}'
        if 'err' in impl:
            return f'format_bayer_string raised {impl["err"]} on {c["pattern"]!r}'
        exp = [[CODES[s[i * k + j]] for j in range(k)] for i in range(k)]
        return None if impl['codes'] == exp and impl['k'] == k else f'format_bayer_string: {impl} expected {exp}'
    return None



# ------------------------------------------------------------------ WP-T2: translation layer (source -> Gallina)
# An ADDITIONAL tie: harness/gen_src.py (suite 'C16') translates the Bayer mosaic repetition counts of collect_charge_bayer and the model order of adc (lentil/detector.py) from the CURRENT source
# text into coq/theories/Gen/DetectorSrc.v; Proofs/DetectorSrcP.v proves every translated term equal to the model for all integers;
# Properties/C16Src.v states it.  Policy (as for C06): a function the translator refuses is only reported
# (coverage.extra.refused); a translated function whose equivalence lemma no longer compiles is a VIOLATION with a
# witness searched on an exhaustive small box (replayable: op 'src').  The build of C16Src happens here, never in
# COQ_TARGETS.
def extra(tier, rng):
    from .. import gen_src as G
    return G.run_layer('C16', ID, tier, rng, C)


def _wrap_src_replay():
    from .. import gen_src as G
    return G.wrap_replay(run_impl, oracle, C)


run_impl, oracle = _wrap_src_replay()
