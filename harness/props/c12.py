"""C12 - Zernike fit, compose and remove are mutually inverse for any mode set."""
import math
from fractions import Fraction

import numpy as np

from .. import common as C

ID = 'C12'
MODEL = 'c12'
RUNFUN = 'run'
COQ_TARGETS = ['theories/Properties/C12.vo', 'theories/Extract/RunC12.vo']
DESIGN_REF = 'DESIGN.md section 6, C12'
TECHNIQUE = ('Coq proof (any formally real commutative ring, in particular R and Q; the mode family is abstract): '
             'uniqueness of the least-squares solution for an independent family, fit(compose c) = c, remove = '
             'projection (fit of the residual vanishes, idempotent, span -> 0), linearity of fit, soundness AND totality of '
             'the validated Gauss solver on independent families + execution of the extracted model on exact rationals '
             '(the float samples of the modes as integer ratios) against lentil.zernike_fit / zernike_compose / zernike_remove')
LEVEL_TEXT = ('Theorems in coq/theories/Properties/C12.v for every mask, every list of modes (any subset, any order), both '
              'normalisation flags, default or caller-supplied coordinates and every coefficient vector, under linear '
              'independence of the masked modes: fit(compose(c)) = c, remove = least-squares projection (residual fits to 0, '
              'idempotent, span -> 0, untouched outside the mask), fit linear, uniqueness of the least-squares solution. The '
              'model follows zernike.py (mask factor, coefficient k <-> Noll k+1, reshape/ravel, keyword passing and '
              're-composition with the requested modes in zernike_remove, zernike_basis as cube / matrix, the (rho, theta) '
              'argument forms, every refusal path with its exception) and is run on the '
              'same mode samples as lentil on every check; numpy pinv is replaced by a Gauss solver with pivot search whose '
              'answer is checked against the normal equations inside the model; the solver is proved sound and TOTAL on '
              'independent families (Lib/GaussTotal.v), so the statements about the executed instance are unconditional.')
LEVEL_NOTE = ('Trusted: Coq kernel, extraction, harness; np.linalg.pinv and einsum are oracles with the contract "returns '
              'the least-squares solution, always" (observed through the tie, tolerance 1e-8 relative, Gram condition number '
              'bounded by the generator); the Zernike polynomials themselves are property C11 (here: any family).')
TRUSTED = ['Coq 8.16.1 kernel (coqc; coqchk in the thorough tier)',
           'extraction with ExtrOcamlBasic only; ocaml/driver.ml',
           'harness/props/c12.py: codec, evaluation of the unmasked mode samples through lentil.zernike(ones, j, ...), '
           'float.as_integer_ratio, the condition-number filter, the translation of argument forms (layout, container, dtype) '
           'into the values the model receives',
           'numpy: np.linalg.pinv + einsum (contract: least-squares solution), float rounding (tolerance 1e-8 relative)',
           'the abstract primitives of Model/ZernikeFit.v: zpoly (mode samples), is0 (bool cast of the mask), solve']
ASSUMPTIONS = ['masks <= 16x16, modes subsets of Noll 1..15 (<= 15 modes), cond(masked basis) <= 1e3 (Gram <= 1e6): '
               'ill-conditioned mode sets are skipped and counted (coverage.extra.skipped_ill_conditioned)',
               'every tolerance is relative to the magnitude of the EXPECTED data (no absolute floor): 1e-8 for fit/remove, '
               '1e-12 * sum_j |c_j| max|Z_j| for compose (a k-term float sum), and per coefficient '
               '1e-6 |c_i| + 1e-13 max(10, cond) max|c| for fit(compose(c)) (measured margin > 50x on 4500 cases)',
               'rho and theta are given together; opd and mask have the same shape (other shapes: error behaviour only)',
               'cases whose estimated exact-arithmetic cost exceeds the model budget are decided by the oracle only '
               '(coverage.extra.oracle_only_over_model_budget)']
RULE = ('masks: circle (centred/off-centre), hexagon (both orientations, shifted), hex_segments flattened, one off-axis '
        'segment, two disjoint circles, integer segment labels (1..6 or 2/3), non-binary weights; mask dtype float / int / '
        'bool / uint8 / int32; shapes 4..16 incl. non-square; modes: random subsets of 1..15 in random order (contiguous, '
        'non-contiguous, single); rational coefficients of order one, vectors mixing order-one with 1e-9..1e-11 entries, '
        'and whole vectors scaled by 1e-12, 1e-9, 1e-6, 1e-3 or 250 (the scale is applied before zernike_compose); both '
        'normalize settings; default and caller-supplied (rho, theta); ops compose (incl. homogeneity compose(1e-9 c) and '
        'the mode-by-mode sum) / fit / remove; OPDs = composed modes (also modes outside the fitted set) + dyadic noise, '
        'non-zero outside the mask; error cases (mode index < 1, wrong opd size/shape); HISTORIES (about a fifth of the '
        'small cases + corpus/c12/histories.json): 2-4 fit / remove / compose calls in one process on one mask buffer and '
        'one mode list, consecutive calls differing in one argument (default <-> two supplied coordinate systems, '
        'normalize, a copy / a rescaled copy of the mask, the same buffer refilled in place with another support, the '
        'order of the modes, the function called), every call compared with the model (= the answer of a fresh '
        'process) and with numpy lstsq on the modes of that call; '
        'in histories the caller also EDITS IN PLACE the (rho, theta) arrays it got from zernike_coordinates(mask) before '
        'a default-coordinate call, scribbles over or keeps every returned array (later calls must neither notice nor '
        'overwrite it), and np.geterr() must be unchanged by every call; ONE-SAMPLE masks (corner / edge / centre / 1x1 '
        'array) with piston; '
        'LARGE ARRAYS (4 per quick run, ~50 per thorough run + corpus/c12/big_and_high_modes.json): masks given by a '
        'recipe, opd.size * len(modes) around and above 2**20 (0.9x .. 2x), both normalisations, fit / remove / compose, '
        'oracle only; HIGH NOLL INDICES: modes drawn from 1..45 (unordered, gapped; permutations of 1..k), linear '
        'independence judged with the harness\'s own reference Noll modes so that modes made dependent by the '
        'implementation are reported instead of skipped; '
        'ENTRY POINTS (op basis, 1/7 of the single-call cases + corpus/c12/entry_points.json): zernike_basis as cube and as '
        'vectorised matrix compared for EXACT equality with the model (no arithmetic involved), empty lists of modes / '
        'coefficients (refused by fit, remove and the vectorised basis, accepted by the cube and by compose), index < 1, '
        'rho alone with and without a mode to evaluate; '
        'ILL-CONDITIONED independent sets (1 per quick run, ~20 per thorough run + corpus): a 5-7 px off-axis segment in '
        'the coordinates of its parent aperture inside 256..700 px arrays, 14-24 modes, 1e8 <= cond <= 1e12, round trip '
        'fit(compose(c)) = c at 1e-13 * cond (measured 0.12 eps cond on the unchanged code); SIGNED masks (every non-zero '
        'entry is aperture; outermost support rows / columns without a positive entry); ndarray SUBCLASSES as opd / mask '
        '(MaskedArray with and without masked entries, np.matrix, a metadata subclass, np.memmap) must give the result of '
        'the plain data and leave caller memory untouched; normalize as np.bool_ / 0 / 1; homogeneity of fit and remove '
        '(k = 1e-9); float32 OPDs also at metre scale; '
        'ARGUMENT FORMS (45 % of the single-call cases + corpus/c12/argument_forms.json): mask / opd as Fortran-ordered, '
        'strided or negatively strided views or nested lists, opd as float32 or integer array, modes as tuple / ndarray '
        '(int64, int32, uint8) / scalar / 0-d array, coefficients as tuple / ndarray, rho without theta (ValueError) and '
        'theta without rho (default coordinates; a ValueError is accepted too); repeated modes (dependent family, '
        'minimum-norm pinv): oracle only; '
        'non-trivial = at least 2 modes or a non-contiguous set, and the mask does not fill the array')

TOL = 1e-8
COND_MAX = 1e3
STATS = {'skipped_ill_conditioned': 0, 'generated': 0, 'oracle_only_over_model_budget': 0}
# Exact rational arithmetic on the extracted (inductive) integers is slow: the solution of a k-mode fit has
# about 60(2k+1)-bit numerators and denominators and every operation normalises with a binary gcd.  Cases whose
# estimated model cost exceeds the budget are decided by the direct oracle only (counted in the evidence).
MODEL_BUDGET_S = {'quick': 2.5, 'thorough': 6.0}
_tier = ['quick']


def model_cost(c):
    """rough estimate (seconds) of the extracted model's run time"""
    if c['op'] == 'history':
        return sum(model_cost(sub) for sub in substeps(c))
    if isinstance(c['mask'], dict):
        return float('inf')       # large arrays (given by a recipe): exact arithmetic is out of reach, oracle only
    if c['op'] in ('compose', 'basis') or (c.get('expect_error') and c.get('opd_shape') != 'transposed'):
        return 0.1
    k = len(c['modes'])
    npix = sum(1 for row in c['mask'] for v in row if fr(v) != 0)
    bits = 60.0 * (2 * k + 1)
    ops = k ** 3 + (2 * npix * k if c['op'] == 'remove' and not c.get('opd_shape') else 0)
    return (bits / 600.0) ** 2 * 0.03 * ops
_prep_cache = {}


# ------------------------------------------------------------------ helpers
def fr(x):
    return Fraction(x) if not isinstance(x, float) else Fraction(*x.as_integer_ratio())


DTYPES = {'float': float, 'int': int, 'bool': bool, 'uint8': np.uint8, 'int32': np.int32, 'int8': np.int8}


def mask_np(c):
    """the mask as the caller holds it: the dtype is part of the case (float, int, bool, uint8, int32)"""
    if isinstance(c['mask'], dict):
        a = big_mask(c['mask'])
    else:
        a = np.array([[float(fr(v)) for v in row] for row in c['mask']], dtype=float)
    return a.astype(DTYPES[c.get('mask_dtype', 'float')])


def big_mask(d):
    """large masks are stored as a recipe (plain numpy, no lentil): circle / annulus / two circles, optional weight"""
    n, m = d['shape']
    rr, cc = np.mgrid[0:n, 0:m].astype(float)
    a = np.zeros((n, m))
    for (r0, c0, rad, rin) in d['discs']:
        q = (rr - r0) ** 2 + (cc - c0) ** 2
        a = np.maximum(a, ((q <= rad * rad) & (q >= rin * rin)) * float(d.get('weight', 1)))
    return a


# ---- reference Noll modes (harness-side, independent of lentil): used ONLY to decide whether the chosen modes are
# linearly independent on the mask (the hypothesis of the property), never as expected values
def ref_index(j):
    n = 0
    while (n + 1) * (n + 2) // 2 < j:
        n += 1
    r = j - n * (n + 1) // 2 - 1
    seq, a = [], n % 2
    if a == 0:
        seq.append(0)
        a = 2
    while len(seq) < n + 1:
        seq += [a, a]
        a += 2
    return (seq[r] if j % 2 == 0 else -seq[r]), n


def ref_modes(p, modes, nrm):
    lentil = C.import_lentil()
    rho, theta = p['rho'], p['theta']
    if rho is None:
        rho, theta = lentil.zernike_coordinates(np.asarray(p['mask'], dtype=bool))
    inside = (p['mask'] != 0).ravel()
    B = np.zeros((len(modes), p['mask'].size))
    for i, j in enumerate(modes):
        m, n = ref_index(int(j))
        am = abs(m)
        R = np.zeros(rho.shape)
        for k in range((n - am) // 2 + 1):
            R += ((-1) ** k * math.factorial(n - k)
                  / (math.factorial(k) * math.factorial((n + am) // 2 - k) * math.factorial((n - am) // 2 - k))) * rho ** (n - 2 * k)
        ang = 1.0 if m == 0 else (np.cos(am * theta) if m > 0 else np.sin(am * theta))
        norm = (math.sqrt(n + 1) * (math.sqrt(2) if m else 1.0)) if nrm else 1.0
        B[i] = (norm * R * ang).ravel() * inside
    return B


def coeff_vals(c):
    """the requested coefficients as floats, scale included"""
    sc = fr(c.get('scale', 1))
    return [float(fr(x) * sc) for x in c['coeffs']]


def coords(c, mask):
    """(rho, theta) as the caller would supply them, or None for the default"""
    cd = c.get('crd')
    if not cd:
        return None, None
    n, m = mask.shape
    rr, cc = np.mgrid[0:n, 0:m].astype(float)
    rr = rr - (n // 2 + float(fr(cd['dr'])))
    cc = cc - (m // 2 + float(fr(cd['dc'])))
    rho = np.sqrt(rr * rr + cc * cc) / float(fr(cd['radius']))
    theta = np.arctan2(-rr, cc) + float(fr(cd['rot']))
    return rho, theta


def scatter(modes, coeffs, extra=None):
    n = max(list(modes) + [len(extra or []), 1])
    w = [Fraction(0)] * n
    for j, cv in zip(modes, coeffs):
        if j >= 1:          # invalid indices (error cases) carry no content
            w[j - 1] += fr(cv)
    for k, e in enumerate(extra or []):
        w[k] += fr(e)
    return w


def prep(c):
    """everything both sides need: float mask, coordinates, the OPD (float), unmasked mode samples"""
    key = C.case_hash({k: v for k, v in c.items() if not k.startswith('_')})
    if key in _prep_cache:
        return _prep_cache[key]
    lentil = C.import_lentil()
    mask = mask_np(c)
    forms = c.get('forms') or {}
    rho, theta = coords(c, mask)
    nrm = bool(c.get('nrm', True))
    scale = fr(c.get('scale', 1))
    # (rho_arg, theta_arg): what the call receives; (rho, theta): the coordinates that call MEANS
    cf = forms.get('crd_form', 'both')
    rho_arg, theta_arg = rho, theta
    if rho is not None and cf == 'rho_only':
        theta_arg = None                  # zernike() raises ValueError
    elif rho is not None and cf == 'theta_only':
        rho_arg, rho, theta = None, None, None      # a lone theta is dropped: default coordinates
    p = {'mask': mask, 'rho': rho, 'theta': theta, 'nrm': nrm, 'rho_arg': rho_arg, 'theta_arg': theta_arg,
         'mask_arg': container(layout(mask, forms.get('mask_layout')), forms.get('mask_container')),
         'modes_arg': modes_form(c['modes'], forms.get('modes_form')),
         # truthy-but-not-True flags: np.bool_, 1 / 0
         'nrm_arg': {'np_bool': np.bool_(nrm), 'int': int(nrm)}.get(forms.get('nrm_form'), nrm)}
    w = [float(x * scale) for x in scatter(c['modes'], c['coeffs'], c.get('extra'))]
    if c['op'] == 'basis':
        pass
    elif c['op'] == 'compose':
        if c.get('empty'):
            w = []            # zernike_compose(mask, []): no mode is evaluated, the OPD is all zeros
        p['w'] = w
        p['w_arg'] = {'tuple': tuple(w), 'ndarray': np.array(w, dtype=float)}.get(forms.get('coeffs_form'), w)
    else:
        # the OPD is composed from coefficients that already carry the scale (nanometres in metres, ...)
        y = np.asarray(lentil.zernike_compose(mask, w, c.get('ynrm', True), rho, theta), dtype=float)
        if c.get('noise'):
            if isinstance(c['noise'], dict):      # large arrays: a recipe (index arithmetic), dyadic like the explicit lists
                ii, jj = np.mgrid[0:y.shape[0], 0:y.shape[1]]
                nz = ((3 * ii * ii + 5 * jj + c['noise']['seed'] * ii * jj) % 33 - 16).astype(float)
            else:
                nz = np.array(c['noise'], dtype=float)
            y = y + nz / 8.0 * float(scale)
        if c.get('opd_shape') == 'transposed':
            y = np.ascontiguousarray(y.T)
        elif c.get('opd_shape') == 'short':
            y = y[:-1]
        if forms.get('opd_dtype') == 'float32':
            y = y.astype(np.float32)
        elif forms.get('opd_dtype') == 'int':
            y = np.rint(y * 8).astype(np.int64)
        p['y_arg'] = container(layout(y, forms.get('opd_layout')), forms.get('opd_container'))
        p['y'] = np.asarray(y, dtype=float)      # the same values, as the model receives them
    _prep_cache[key] = p
    if len(_prep_cache) > 4000:
        _prep_cache.pop(next(iter(_prep_cache)))
    return p


def layout(a, kind):
    """the same values in another memory layout"""
    if kind == 'F':
        return np.asfortranarray(a)
    if kind == 'strided':
        big = np.zeros((2 * a.shape[0] + 1, 3 * a.shape[1] + 2), dtype=a.dtype)
        big[1::2, 2::3] = a
        return big[1::2, 2::3]
    if kind == 'reversed':
        return np.ascontiguousarray(a[::-1, ::-1])[::-1, ::-1]
    return a


class MetaArray(np.ndarray):
    """an ndarray subclass that carries metadata (like astropy / xarray style wrappers)"""
    def __array_finalize__(self, obj):
        self.info = getattr(obj, 'info', 'metadata')


_keep_alive = []


def container(a, kind):
    """the same values in another array_like: nested list, or an ndarray SUBCLASS (the public functions convert with
    np.asarray, so the plain data must be used: a MaskedArray's mask is not part of the OPD / aperture)"""
    if kind == 'list':
        return a.tolist()
    if kind == 'masked':
        return np.ma.MaskedArray(a)
    if kind == 'masked_some':
        ii, jj = np.mgrid[0:a.shape[0], 0:a.shape[1]]
        return np.ma.MaskedArray(a, mask=((ii + 2 * jj) % 5 == 0))
    if kind == 'matrix':
        return np.matrix(a)
    if kind == 'subclass':
        return np.array(a).view(MetaArray)
    if kind == 'memmap':
        import tempfile
        f = tempfile.TemporaryFile(dir='/var/tmp')
        _keep_alive.append(f)
        if len(_keep_alive) > 64:
            _keep_alive.pop(0).close()
        mm = np.memmap(f, dtype=a.dtype, mode='w+', shape=a.shape)
        mm[...] = a
        return mm
    return a


def modes_form(modes, kind):
    """the documented 'array_like': list, tuple, ndarray of any integer dtype, a scalar for a single mode"""
    modes = list(modes)
    if kind == 'tuple':
        return tuple(modes)
    if kind == 'ndarray':
        return np.array(modes, dtype=int)
    if kind == 'int32':
        return np.array(modes, dtype=np.int32)
    if kind == 'uint8' and all(j >= 0 for j in modes):
        return np.array(modes, dtype=np.uint8)
    if kind == 'scalar' and len(modes) == 1:
        return modes[0]
    if kind == 'scalar0d' and len(modes) == 1:
        return np.array(modes[0])
    return modes


def mode_samples(p, j, nrm):
    """the unmasked mode j on every pixel, through the public API with an all-ones mask"""
    lentil = C.import_lentil()
    rho, theta = p['rho'], p['theta']
    if rho is None:
        rho, theta = lentil.zernike_coordinates(np.asarray(p['mask'], dtype=bool))
    return np.asarray(lentil.zernike(np.ones(p['mask'].shape), j, nrm, rho, theta), dtype=float)


def masked_basis(c, p, modes, nrm):
    """what zernike_basis returns (vectorised), as is"""
    lentil = C.import_lentil()
    return np.asarray(lentil.zernike_basis(p['mask'], modes, True, nrm, p['rho'], p['theta']))


def stacked_modes(c, p, modes, nrm):
    """the masked modes one by one through zernike(), collected in a float64 matrix (len(modes), pixels):
    the reference for the oracle, independent of zernike_basis"""
    lentil = C.import_lentil()
    B = np.zeros((len(modes), p['mask'].size), dtype=float)
    for i, j in enumerate(modes):
        B[i] = np.asarray(lentil.zernike(p['mask'], j, nrm, p['rho'], p['theta']), dtype=float).ravel()
    return B


# ------------------------------------------------------------------ histories of calls in one process
# A history case is ONE mask buffer and ONE mode list used for 2-4 consecutive calls that differ in one argument at a
# time (coordinates, normalize, the array object holding the mask, the content of the re-used buffer, the order of the
# modes).  Every call is compared with the model (which is a pure function: the answer of a fresh process) and with
# the call's own oracle identities, so state carried from an earlier call into a later one is visible.
def substeps(c):
    """the calls of a history as ordinary single-call cases (content of the mask buffer tracked through refills)"""
    subs = []
    cur = c['mask']
    for st in c['steps']:
        opt = st.get('mask', 'buf')
        if opt == 'refill2':
            cur = c['mask2']
        elif opt == 'refill1':
            cur = c['mask']
        content = [[(2 * v if isinstance(v, int) else str(2 * fr(v))) for v in row] for row in cur] if opt == 'scaled' else cur
        rev = st.get('modes') == 'reversed'
        sub = {'op': st['call'], 'mask_kind': c.get('mask_kind'), 'mask': content,
               'modes': list(reversed(c['modes'])) if rev else list(c['modes']),
               'coeffs': list(reversed(c['coeffs'])) if rev else list(c['coeffs']),
               'nrm': bool(st.get('nrm', True)), 'ynrm': bool(st.get('nrm', True)) if st['call'] != 'remove' else True}
        for k in ('mask_dtype', 'scale', 'extra', 'noise'):
            if c.get(k) is not None:
                sub[k] = c[k]
        if st['call'] == 'compose':
            sub.pop('extra', None)
            sub.pop('noise', None)
        if st.get('crd'):
            sub['crd'] = st['crd']
        subs.append(sub)
    return subs


def step_label(i, st):
    return (f"call {i + 1} of the history ({st['call']}, {'supplied' if st.get('crd') else 'default'} coordinates, "
            f"normalize={st.get('nrm', True) if st['call'] != 'remove' else True}, mask={st.get('mask', 'buf')}, "
            f"modes {st.get('modes', 'same')}"
            + (', after the caller edited in place the arrays it got from zernike_coordinates(mask)' if st.get('pre') == 'edit_coords' else '') + ')')


def run_history(c):
    lentil = C.import_lentil()
    subs = substeps(c)
    buf = mask_np({'mask': c['mask'], 'mask_dtype': c.get('mask_dtype', 'float')}).copy()
    out = []
    held = []
    for st, sub in zip(c['steps'], subs):
        try:
            p = prep(sub)
            opt = st.get('mask', 'buf')
            if opt == 'refill2':
                buf[...] = mask_np(dict(sub, mask=c['mask2']))
                m = buf
            elif opt == 'refill1':
                buf[...] = mask_np(dict(sub, mask=c['mask']))
                m = buf
            elif opt == 'copy':
                m = buf.copy()
            elif opt == 'scaled':
                m = (buf * 2).astype(buf.dtype)
            else:
                m = buf
            if m.dtype != p['mask'].dtype or m.shape != p['mask'].shape:
                raise AssertionError('harness: history mask buffer out of step with the case')
            if not np.array_equal(m, p['mask']):
                # an earlier call wrote into the caller's buffer (purity is property C10, not C12): restore the content
                # this call is specified with, in the same array object
                m[...] = p['mask']
            rho, theta, nrm = p['rho'], p['theta'], p['nrm']
            if st.get('pre') == 'edit_coords':
                # the caller asks for the coordinate system of this mask and edits ITS arrays in place (e.g. to build a
                # rotated frame of its own); the library's default frame in later calls must not move
                ur, ut = lentil.zernike_coordinates(m)
                ut += 0.5
                ur *= 0.75
            err0 = np.geterr()
            if st['call'] == 'compose':
                raw = lentil.zernike_compose(m, p['w'], nrm, rho, theta)
                key = 'arr'
            elif st['call'] == 'fit':
                raw = lentil.zernike_fit(p['y'].copy(), m, sub['modes'], nrm, rho, theta)
                key = 'coeffs'
            else:
                raw = lentil.zernike_remove(p['y'].copy(), m, sub['modes'], rho=rho, theta=theta)
                key = 'arr'
            res = {key: np.array(raw, dtype=float, copy=True)}
            if np.geterr() != err0:
                res['errstate_changed'] = True
            out.append(res)
            if isinstance(raw, np.ndarray) and raw.size:
                if len(out) % 2 == 1:
                    raw[...] = 777.25          # the caller scribbles over ITS result: later calls must not notice
                else:
                    held.append((len(out) - 1, key, raw))   # ... or keeps it: later calls must not overwrite it
        except AssertionError:
            raise
        except Exception as e:
            out.append({'err': 'ValueError' if isinstance(e, ValueError) else type(e).__name__})
    for i, key, raw in held:
        if not np.array_equal(np.asarray(raw, dtype=float), out[i][key]):
            out[i]['overwritten_later'] = True
    return {'steps': out}


def oracle_step(sub, impl):
    """one call of a history against numpy's own least-squares solution on the modes of THAT call"""
    if 'err' in impl:
        return f'zernike_{sub["op"]} raised {impl["err"]} on a well-formed call'
    if impl.get('overwritten_later'):
        return f'the array returned by zernike_{sub["op"]} was overwritten by a later call (it is a view of library memory)'
    if impl.get('errstate_changed'):
        return f'zernike_{sub["op"]} changed the caller\'s numpy error state (np.geterr())'
    lentil = C.import_lentil()
    p = prep(sub)
    mask = p['mask']
    modes = list(sub['modes'])
    nrm = True if sub['op'] == 'remove' else p['nrm']
    if sub['op'] == 'compose':
        w = p['w']
        Z = [np.asarray(lentil.zernike(mask, j + 1, nrm, p['rho'], p['theta']), dtype=float) for j in range(len(w))]
        ref = np.zeros(mask.shape)
        for x, z in zip(w, Z):
            ref = ref + x * z
        return close(impl['arr'], ref, sum_scale(w, Z), f'compose({w}) is not sum_j c_j Z_j', TOL_SUM)
    B = stacked_modes(sub, p, modes, nrm)
    y = p['y']
    s = magnitude(sub, p)
    cref = np.linalg.lstsq(B.T, y.ravel(), rcond=None)[0]
    if sub['op'] == 'fit':
        cf = np.asarray(impl['coeffs'])
        m = close(cf, cref, max(s, float(np.max(np.abs(cref)))), f'zernike_fit(modes={modes}) is not the least-squares solution in this call\'s coordinates')
        if m:
            return m
        if pure(sub) and sub.get('ynrm', True) == nrm:
            return close_each(cf, coeff_vals(sub), float(np.linalg.cond(B)), f'fit(compose(c), modes={modes}) != c')
        return None
    r = np.asarray(impl['arr'])
    if r.shape != y.shape:
        return f'residual shape {r.shape} != opd shape {y.shape}'
    return close(r, y - (cref @ B).reshape(y.shape), s,
                 f'zernike_remove(modes={modes}) does not subtract the least-squares component in this call\'s coordinates')


# ------------------------------------------------------------------ generator
def gen_mask(rng, size):
    """size: 'tiny' (4..5), 'small' (6..9) or 'large' (10..16)"""
    lentil = C.import_lentil()
    if size != 'large' and rng.random() < 0.06:
        # degenerate but legal: exactly ONE lit sample (corner, edge, centre, or a 1x1 array); piston is the one
        # mode set that is independent there (the default rho is 0/0 at that sample, piston never looks at it)
        n, m = rng.choice([(1, 1), (1, 4), (3, 1), (4, 5), (5, 5), (6, 3)])
        a = [[0] * m for _ in range(n)]
        a[rng.randrange(n)][rng.randrange(m)] = rng.choice([1, 1, 2, -1])
        return 'onesample', a
    for _ in range(50):
        if size == 'tiny':
            n, m = rng.randint(4, 5), rng.randint(4, 5)
            kind = rng.choice(['circle', 'circle_off', 'full'])
        else:
            lo, hi = (6, 9) if size == 'small' else (10, 16)
            n, m = rng.randint(lo, hi), rng.randint(lo, hi)
            kind = rng.choice(['circle', 'circle_off', 'hexagon', 'hexagon', 'hexseg', 'segment', 'twocircles',
                               'weighted', 'circle_off', 'labels', 'signed', 'signed'])
        signed = kind == 'signed'      # signed weights: every NON-ZERO entry belongs to the aperture, whatever its sign
        if signed:
            kind = rng.choice(['circle', 'circle_off', 'hexagon'])
        labels = kind == 'labels'      # integer segment labels (0 = outside, 1.. / 2, 3 = segment number)
        if labels:
            kind = rng.choice(['hexseg', 'twocircles'])
        if kind == 'full':
            a = np.ones((n, m))
        elif kind == 'circle':
            a = lentil.circle((n, m), rng.choice([min(n, m) / 2 - 0.5, min(n, m) / 2 - 1, min(n, m) / 3]), antialias=False)
        elif kind == 'circle_off':
            r = rng.choice([min(n, m) / 3, min(n, m) / 4 + 0.5])
            a = lentil.circle((n, m), r, shift=(rng.randint(-2, 2), rng.randint(-2, 2)), antialias=False)
        elif kind == 'hexagon':
            a = lentil.hexagon((n, m), rng.choice([min(n, m) / 2 - 1, min(n, m) / 3]),
                               shift=(rng.randint(-1, 1), rng.randint(-1, 1)), rotate=rng.random() < 0.5, antialias=False)
        elif kind in ('hexseg', 'segment'):
            segs = lentil.hex_segments(rings=1, seg_radius=rng.choice([2.0, 2.5] if size == 'small' else [2.5, 3.0]),
                                       seg_gap=rng.choice([0.5, 1.0]), rotate=rng.random() < 0.5, antialias=False,
                                       flatten=False, pad=rng.randint(0, 1))
            if kind == 'segment':
                a = segs[rng.randrange(len(segs))]
            elif labels:
                a = np.sum([(i + 1) * (np.asarray(sg) != 0) for i, sg in enumerate(segs)], axis=0)
            else:
                a = np.sum(segs, axis=0)
            if max(a.shape) > 16:
                continue
        elif kind == 'twocircles':
            m = max(m, 9)
            r = rng.choice([1.5, 2.0] if size == 'small' else [2.0, 2.5])
            a = ((2 if labels else 1) * lentil.circle((n, m), r, shift=(rng.randint(-1, 1), -(m // 4)), antialias=False)
                 + (3 if labels else 1) * lentil.circle((n, m), r, shift=(rng.randint(-1, 1), m // 4), antialias=False))
        else:
            a = lentil.circle((n, m), min(n, m) / 2 - 1, antialias=True)
            a = np.where(a > 0, np.round(a * 4) / 4 + (a > 0) * 0.25, 0.0) * rng.choice([1, 2])
        a = np.asarray(a, dtype=float)
        if signed:
            a = (a != 0) * np.array([[rng.choice([-2, -1, -1, 1, 1, 2, 0.5, -0.5]) for _ in range(a.shape[1])]
                                     for _ in range(a.shape[0])])
            rows = np.flatnonzero(np.any(a != 0, axis=1))
            cols = np.flatnonzero(np.any(a != 0, axis=0))
            if rows.size and rng.random() < 0.7:      # an outermost support row / column without any positive entry
                for edge in rng.sample(['top', 'bottom', 'left', 'right'], rng.randint(1, 2)):
                    if edge == 'top':
                        a[rows[0]] = -np.abs(a[rows[0]])
                    elif edge == 'bottom':
                        a[rows[-1]] = -np.abs(a[rows[-1]])
                    elif edge == 'left':
                        a[:, cols[0]] = -np.abs(a[:, cols[0]])
                    else:
                        a[:, cols[-1]] = -np.abs(a[:, cols[-1]])
            if rng.random() < 0.5:
                a = np.sign(a) * np.ceil(np.abs(a))       # integer-valued variant
            kind = 'signed-' + kind
        if np.count_nonzero(a) >= 6:
            vals = [[(int(v) if float(v).is_integer() else str(Fraction(float(v)))) for v in row] for row in a]
            return ('labels' if labels else kind), vals
    raise RuntimeError('mask generator failed')


def rnd_frac(rng, small=0):
    q = rng.choice([1, 1, 2, 3, 4, 5, 7, 8, 10])
    p = rng.randint(-9, 9) or 1
    return str(Fraction(p, q * 10 ** small))


def rnd_coeffs(rng, k):
    """order-one rationals, or (30 %) a vector MIXING magnitudes: entries of order one next to entries of
    order 1e-9 .. 1e-11 (nanometre-level terms next to unit terms), which must be recovered relative to
    their own size"""
    if rng.random() < 0.7:
        return [rnd_frac(rng) for _ in range(k)]
    sm = [rng.choice([0, 9, 10, 11]) for _ in range(k)]
    if k >= 2:
        i, j = rng.sample(range(k), 2)
        sm[i], sm[j] = 0, rng.choice([9, 10, 11])
    return [rnd_frac(rng, e) for e in sm]


def gen_modes(rng, size, tier):
    t = rng.random()
    if size == 'tiny':
        kmax, top = 2, 4
    elif size == 'small':
        kmax, top = 4, rng.choice([11, 11, 15, 21])
    else:
        kmax, top = (6 if tier == 'quick' else 9), rng.choice([15, 15, 15, 28, 45])     # unordered, gapped, up to Z45
        if rng.random() < 0.2:
            kmax = 15
    k = min(rng.randint(1, kmax), top)
    if t < 0.12:
        modes = list(range(1, k + 1))
    elif t < 0.24:
        modes = list(range(1, k + 1))      # the leading modes 1..k in a different order
        rng.shuffle(modes)
    elif t < 0.32:
        modes = [rng.choice([2, 3, 4, 6, 11] if size != 'tiny' else [2, 3, 4])]
    else:
        modes = rng.sample(range(1, top + 1), k)
    return modes


def well_conditioned(c):
    """are the Noll modes of the case linearly independent (cond <= COND_MAX) on its mask?  Decided with the harness's
    own reference modes: a defect that makes lentil's modes dependent must not make the generator skip the case."""
    try:
        p = prep(c)
    except Exception:
        return True        # the implementation failed on a well-formed call: keep the case, run_impl/oracle report it
    try:
        B = ref_modes(p, c['modes'], p['nrm'])
        B1 = B if p['nrm'] else ref_modes(p, c['modes'], True)
        if not (np.all(np.isfinite(B)) and np.all(np.isfinite(B1))):
            return False
        return max(np.linalg.cond(B), np.linalg.cond(B1)) <= COND_MAX
    except (np.linalg.LinAlgError, ValueError, TypeError):
        return False


def rnd_crd(rng, n, m):
    return {'dr': str(Fraction(rng.randint(-4, 4), 4)), 'dc': str(Fraction(rng.randint(-4, 4), 4)),
            'radius': str(Fraction(rng.randint(9, 12), 16) * max(n, m)),
            'rot': str(Fraction(rng.randint(-8, 8), 8))}


def gen_history(rng, size, kind, mask, modes):
    """2-4 calls on one mask buffer and one mode list; consecutive calls differ in ONE argument"""
    n, m = len(mask), len(mask[0])
    modes = modes[:3]
    c = {'op': 'history', 'mask_kind': kind, 'mask': mask, 'modes': modes, 'coeffs': rnd_coeffs(rng, len(modes))}
    if all(isinstance(v, int) for row in mask for v in row):
        c['mask_dtype'] = rng.choice(['float', 'float', 'int', 'bool', 'uint8', 'int32'])
    if rng.random() < 0.2:
        c['scale'] = rng.choice(['1/1000000000', '1/1000000', '250'])
    if rng.random() < 0.5 and kind != 'onesample':      # (other modes are undefined at the single sample: rho = 0/0)
        c['extra'] = [rnd_frac(rng) if rng.random() < 0.5 else '0' for _ in range(rng.randint(1, 4))]
    if rng.random() < 0.5:
        c['noise'] = [[rng.randint(-16, 16) for _ in range(m)] for _ in range(n)]
    # a second support of the same shape for "the buffer is refilled in place"
    for _ in range(20):
        k2, m2 = gen_mask(rng, size)
        if len(m2) == n and len(m2[0]) == m and m2 != mask and (
                c.get('mask_dtype', 'float') == 'float' or all(isinstance(v, int) for row in m2 for v in row)):
            c['mask2'] = m2
            break
    crds = [None, rnd_crd(rng, n, m), rnd_crd(rng, n, m)]
    call = rng.choice(['fit', 'fit', 'remove', 'remove', 'mixed'])
    cur = {'call': 'fit' if call == 'mixed' else call, 'crd': rng.choice(crds), 'nrm': rng.random() < 0.5, 'mask': 'buf', 'modes': 'same'}
    steps = [dict(cur)]
    for _ in range(rng.randint(1, 3)):
        what = rng.choice(['crd', 'crd', 'crd', 'nrm', 'maskobj', 'refill', 'modes', 'call', 'edit_coords', 'edit_coords'])
        cur = dict(cur)
        cur['mask'] = 'buf'
        cur.pop('pre', None)
        if what == 'crd':
            cur['crd'] = rng.choice([x for x in crds if x != cur['crd']])
        elif what == 'nrm':
            cur['nrm'] = not cur['nrm']
            if cur['call'] == 'remove':       # remove has no normalize argument: vary the coordinates instead
                cur['crd'] = rng.choice([x for x in crds if x != cur['crd']])
        elif what == 'maskobj':
            cur['mask'] = rng.choice(['copy', 'scaled'])
        elif what == 'refill' and c.get('mask2'):
            refilled = any(s.get('mask') == 'refill2' for s in steps) and not any(s.get('mask') == 'refill1' for s in steps)
            cur['mask'] = 'refill1' if refilled else 'refill2'
        elif what == 'edit_coords':
            cur['pre'] = 'edit_coords'
            cur['crd'] = None                   # ... and then relies on the library's default frame
        elif what == 'modes' and len(modes) > 1:
            cur['modes'] = 'reversed' if cur['modes'] == 'same' else 'same'
        else:
            cur['call'] = rng.choice([x for x in ('fit', 'remove', 'compose') if x != cur['call']])
        steps.append(dict(cur))
    for st in steps:
        if not st['crd']:
            st.pop('crd')
    c['steps'] = steps
    for sub in substeps(c):
        if sub['op'] != 'compose' and not well_conditioned(sub):
            return None
    return c


def gen_big(rng):
    """arrays around and above 2**20 basis elements (opd.size * len(modes)): size thresholds, both normalisations;
    the exact model is out of reach there, the oracle runs"""
    k = rng.randint(2, 8)
    target = (1 << 20) * rng.choice([1.1, 1.3, 2.0, 0.9])
    n = int(math.sqrt(target / k) * rng.choice([1.0, 1.0, 0.8, 1.25]))
    m = int(target / k / n) + 1
    top = rng.choice([15, 15, 28, 45])
    modes = rng.sample(range(1, top + 1), k)
    if rng.random() < 0.3:
        modes = sorted(modes)
    kind = rng.choice(['circle', 'circle_off', 'annulus', 'twocircles'])
    r = min(n, m)
    if kind == 'circle':
        discs = [[n // 2, m // 2, r * 0.45, 0]]
    elif kind == 'circle_off':
        discs = [[n // 2 + r // 8, m // 2 - r // 10, r * 0.3, 0]]
    elif kind == 'annulus':
        discs = [[n // 2, m // 2, r * 0.45, r * 0.15]]
    else:
        discs = [[n // 2, m // 4, r * 0.2, 0], [n // 2 + 3, 3 * m // 4, r * 0.2, 0]]
    op = rng.choice(['fit', 'fit', 'fit', 'remove', 'compose'])
    c = {'op': op, 'mask_kind': 'big-' + kind, 'mask': {'shape': [n, m], 'discs': discs}, 'modes': modes,
         'coeffs': rnd_coeffs(rng, k), 'big': True}
    if rng.random() < 0.3:
        c['mask']['weight'] = rng.choice([2, 0.5])
    else:
        c['mask_dtype'] = rng.choice(['float', 'float', 'bool', 'uint8', 'int'])
    if op != 'remove':
        c['nrm'] = rng.random() < 0.5
    if rng.random() < 0.3:
        c['crd'] = rnd_crd(rng, n, m)
    if rng.random() < 0.25:
        c['scale'] = rng.choice(['1/1000000000', '1/1000000', '250'])
    if op != 'compose':
        c['ynrm'] = c.get('nrm', True) if rng.random() < 0.6 else (rng.random() < 0.5)
        if rng.random() < 0.5:
            c['extra'] = [rnd_frac(rng) if rng.random() < 0.5 else '0' for _ in range(rng.randint(1, 11))]
        if rng.random() < 0.5:
            c['noise'] = {'seed': rng.randint(1, 1000)}
    return c


ILL_RANGE = (1e8, 1e12)


def gen_illcond(rng):
    """a linearly independent but ILL-conditioned mode set (1e8 <= cond <= 1e12) in a large array: a small off-axis
    segment expressed in the coordinates of the parent aperture, many modes.  pinv (cutoff 1e-15) recovers the
    coefficients to about eps*cond; anything that truncates singular values at a size-dependent threshold does not."""
    for _ in range(12):
        n, m = rng.choice([(512, 512), (384, 640), (600, 450), (256, 256), (700, 380)])
        r = min(n, m)
        rad = rng.choice([4.5, 5, 6, 7])
        off = (int(r * rng.choice([0.2, 0.3, 0.35]) * rng.choice([-1, 1])), int(r * rng.choice([0.2, 0.3]) * rng.choice([-1, 1])))
        k = rng.randint(14, 24)
        modes = list(range(1, k + 1)) if rng.random() < 0.5 else rng.sample(range(1, 29), k)
        nrm = rng.random() < 0.5
        op = rng.choice(['compose', 'fit'])
        c = {'op': op, 'mask_kind': 'illcond-segment', 'big': True, 'illcond': True,
             'mask': {'shape': [n, m], 'discs': [[n // 2 + off[0], m // 2 + off[1], rad, 0]]},
             'modes': modes, 'coeffs': [rnd_frac(rng) for _ in modes], 'nrm': nrm,
             'crd': {'dr': '0', 'dc': '0', 'radius': str(Fraction(rng.randint(44, 50), 100) * r), 'rot': str(Fraction(rng.randint(-8, 8), 8))}}
        if op == 'fit':
            c['ynrm'] = nrm
        try:
            p = prep(c)
            cond = float(np.linalg.cond(ref_modes(p, modes, nrm)))
            cond1 = cond if nrm else float(np.linalg.cond(ref_modes(p, modes, True)))
        except Exception:
            return c
        if ILL_RANGE[0] <= cond <= ILL_RANGE[1] and cond1 <= ILL_RANGE[1]:
            return c
    return None


def generate(rng, tier):
    n_cases = 100 if tier == 'quick' else 1500
    _tier[0] = tier
    out = 0
    tries = 0
    while out < n_cases and tries < 20 * n_cases:
        tries += 1
        if out % (100 if tier == 'quick' else 75) == 20 and STATS.get('ill_pending') != out:
            STATS['ill_pending'] = out
            c = gen_illcond(rng)
            if c is not None:
                out += 1
                STATS['generated'] += 1
                STATS['illconditioned_oracle_only'] = STATS.get('illconditioned_oracle_only', 0) + 1
                yield c
            continue
        if out % (25 if tier == 'quick' else 30) == 10 and STATS.get('big_pending') != out:
            STATS['big_pending'] = out          # one attempt per slot
            c = gen_big(rng)
            if well_conditioned(c):
                out += 1
                STATS['generated'] += 1
                STATS['big_oracle_only'] = STATS.get('big_oracle_only', 0) + 1
                yield c
            else:
                STATS['skipped_ill_conditioned'] += 1
            continue
        t = rng.random()
        size = 'tiny' if t < 0.2 else 'small' if t < 0.65 else 'large'
        tiny = size == 'tiny'
        kind, mask = gen_mask(rng, size)
        modes = gen_modes(rng, size, tier)
        if kind == 'onesample':
            modes = [1]
        if size != 'large' and rng.random() < 0.22:
            c = gen_history(rng, size, kind, mask, modes)
            if c is None:
                STATS['skipped_ill_conditioned'] += 1
                continue
            out += 1
            STATS['generated'] += 1
            STATS['histories'] = STATS.get('histories', 0) + 1
            yield c
            continue
        op = rng.choice(['compose', 'compose', 'fit', 'fit', 'remove', 'remove', 'basis'])
        c = {'op': op, 'mask_kind': kind, 'mask': mask, 'modes': modes,
             'coeffs': rnd_coeffs(rng, len(modes))}
        if all(isinstance(v, int) for row in mask for v in row):
            # the mask as integer / boolean / uint8 array: "all nonzero entries are included" whatever the dtype
            c['mask_dtype'] = rng.choice(['float', 'float', 'int', 'bool', 'uint8', 'int32'])
            if any(v < 0 for row in mask for v in row):
                c['mask_dtype'] = rng.choice(['float', 'int', 'int32', 'int8'])
        if op != 'remove':
            c['nrm'] = rng.random() < 0.5
        if op == 'basis':
            c['vectorize'] = rng.random() < 0.5
            c['coeffs'] = ['0'] * len(modes)
        if rng.random() < 0.03:       # empty collections: no modes / no coefficients
            c['modes'], c['coeffs'], c['empty'] = [], [], True
            c['expect_error'] = op in ('fit', 'remove') or (op == 'basis' and c['vectorize'])
        if rng.random() < 0.4:
            n, m = len(mask), len(mask[0])
            c['crd'] = rnd_crd(rng, n, m)
        if rng.random() < 0.3:      # the unit of the coefficients: nanometres / picometres in metres, microns, ...
            c['scale'] = rng.choice(['1/1000000000', '1/1000000000', '1/1000000000000', '1/1000000', '1/1000', '250'])
        if op == 'basis' and not c.get('empty') and rng.random() < 0.06:
            c['modes'] = list(c['modes']) + [rng.choice([0, -1])]
            c['coeffs'] = c['coeffs'] + ['0']
            c['expect_error'] = True
        if op not in ('compose', 'basis'):
            n, m = len(mask), len(mask[0])
            if rng.random() < 0.6 and kind != 'onesample':     # content in modes that are not fitted / removed
                c['extra'] = [rnd_frac(rng) if rng.random() < 0.5 else '0' for _ in range(rng.randint(1, 4 if tiny else 11))]
            if rng.random() < 0.7:     # dyadic noise, also outside the mask
                c['noise'] = [[rng.randint(-16, 16) for _ in range(m)] for _ in range(n)]
            c['ynrm'] = rng.random() < 0.5
            e = rng.random()
            if e < 0.03:
                c['modes'] = list(modes) + [rng.choice([0, -1])]
                c['coeffs'] = c['coeffs'] + ['0']
                c['expect_error'] = True
            elif e < 0.05 and n != m:
                c['opd_shape'] = 'transposed'
                c['expect_error'] = op == 'remove'
            elif e < 0.07:
                c['opd_shape'] = 'short'
                c['expect_error'] = True
        # ---- argument forms: the same call written differently (layout, container, dtype, coordinate arguments)
        forms = {}
        if rng.random() < 0.45:
            if rng.random() < 0.5:
                forms['mask_layout'] = rng.choice(['F', 'strided', 'reversed'])
            if op not in ('compose', 'basis') and rng.random() < 0.5:
                forms['opd_layout'] = rng.choice(['F', 'strided', 'reversed'])
            if rng.random() < 0.35:
                forms['mask_container'] = rng.choice(['list', 'masked', 'masked_some', 'matrix', 'subclass', 'memmap'])
            if op not in ('compose', 'basis') and rng.random() < 0.35:
                forms['opd_container'] = rng.choice(['list', 'masked', 'masked_some', 'matrix', 'subclass', 'memmap'])
            if op != 'remove' and rng.random() < 0.3:
                forms['nrm_form'] = rng.choice(['np_bool', 'int'])
            if rng.random() < 0.5:
                forms['modes_form'] = rng.choice(['tuple', 'ndarray', 'int32', 'uint8']
                                                 + (['scalar', 'scalar0d', 'scalar'] if len(c['modes']) == 1 else []))
            if op == 'compose' and rng.random() < 0.5:
                forms['coeffs_form'] = rng.choice(['tuple', 'ndarray'])
            if op not in ('compose', 'basis') and not c.get('opd_shape') and rng.random() < 0.3:
                forms['opd_dtype'] = rng.choice(['float32', 'int']) if not c.get('scale') else 'float32'
        if c.get('crd') and rng.random() < 0.12:
            forms['crd_form'] = rng.choice(['rho_only', 'theta_only'])
            if forms['crd_form'] == 'rho_only' and not c.get('empty'):
                c['expect_error'] = True      # raised by the first mode evaluated (no mode, no error)
        if forms:
            c['forms'] = forms
            STATS['with_argument_forms'] = STATS.get('with_argument_forms', 0) + 1
        # ---- a repeated mode: the family is dependent, pinv returns the minimum-norm solution; decided by the oracle only
        if op not in ('compose', 'basis') and not c.get('expect_error') and not c.get('opd_shape') and rng.random() < 0.04:
            distinct = list(c['modes'])
            if not well_conditioned(dict(c, modes=distinct)):
                STATS['skipped_ill_conditioned'] += 1
                continue
            pos = rng.randrange(len(distinct) + 1)
            c['modes'] = distinct[:pos] + [rng.choice(distinct)] + distinct[pos:]
            c['coeffs'] = c['coeffs'][:pos] + [rnd_frac(rng)] + c['coeffs'][pos:]
            c['dependent'] = True
            STATS['dependent_oracle_only'] = STATS.get('dependent_oracle_only', 0) + 1
        elif op != 'basis' and not c.get('empty') and not c.get('expect_error') and not well_conditioned(dict(c, modes=[j for j in c['modes'] if j >= 1])):
            STATS['skipped_ill_conditioned'] += 1
            continue
        out += 1
        STATS['generated'] += 1
        if model_cost(c) > MODEL_BUDGET_S[tier]:
            STATS['oracle_only_over_model_budget'] += 1
        yield c


def classify(c):
    if c['op'] == 'history':
        return (f"history/{'+'.join(st['call'] for st in c['steps'])}/{c.get('mask_kind', '?')}:{c.get('mask_dtype', 'float')}"
                + ('/oracle-only' if not c.get('_corpus') and model_cost(c) > MODEL_BUDGET_S[_tier[0]] else ''))
    crd = 'crd' if c.get('crd') else 'default'
    k = len(c['modes'])
    kb = '1' if k == 1 else '2-4' if k <= 4 else '5-9' if k <= 9 else '10-15'
    return (f"{c['op']}/{c.get('mask_kind', '?')}:{c.get('mask_dtype', 'float')}/{crd}/k={kb}" + ('/error' if c.get('expect_error') else '')
            + ('/forms' if c.get('forms') else '') + ('/dependent' if c.get('dependent') else '')
            + ('/oracle-only' if not c.get('_corpus') and model_cost(c) > MODEL_BUDGET_S[_tier[0]] else ''))


def nontrivial(c):
    modes = c['modes']
    if c['op'] == 'history':
        return len(c['steps']) >= 2
    if c.get('expect_error'):
        return False
    full = not isinstance(c['mask'], dict) and all(fr(v) != 0 for row in c['mask'] for v in row)
    return not full and (len(modes) >= 2 or modes != [1])


# ------------------------------------------------------------------ model side
def enc_arr(a):
    a = np.asarray(a, dtype=float)
    out = [a.shape[0], a.shape[1]]
    for v in a.ravel():
        out += C.enc_q(float(v))
    return out


def enc_mask(c):
    out = [len(c['mask']), len(c['mask'][0])]
    for row in c['mask']:
        for v in row:
            out += C.enc_q(fr(v))
    return out


def enc_table(p, entries, crdflag):
    out = [len(entries)]
    for (nrm, j) in entries:
        u = mode_samples(p, j, nrm)
        out += [1 if nrm else 0, 1 if crdflag else 0, j, u.size]
        for v in u.ravel():
            out += C.enc_q(float(v))
    return out


def encode(c):
    if not c.get('_corpus') and model_cost(c) > MODEL_BUDGET_S[_tier[0]]:
        return None
    if isinstance(c['mask'], dict) or c.get('oracle_only'):
        return None       # large arrays / cases marked too expensive for exact arithmetic: the oracle decides
    if c.get('dependent'):
        return None       # repeated modes: a dependent family is outside the solver contract; the oracle decides
    try:
        if c['op'] == 'history':
            out = [4, len(c['steps'])]
            for sub in substeps(c):
                e = encode_prepared(sub, prep(sub))
                out += [len(e)] + e
            return out
        p = prep(c)
        return encode_prepared(c, p)
    except Exception:
        return None           # the implementation could not even produce the inputs: run_impl/oracle report it


def encode_prepared(c, p):
    cform = (c.get('forms') or {}).get('crd_form', 'both')
    crdarg = 0 if not c.get('crd') else {'both': 1, 'rho_only': 2, 'theta_only': 3}[cform]
    crdflag = 1 if crdarg == 1 else 0          # the table holds the modes in the coordinates the call means
    modes = list(c['modes'])
    good = sorted({j for j in modes if j >= 1})
    if c['op'] == 'compose':
        w = p['w']
        tbl = enc_table(p, [(p['nrm'], j) for j in range(1, len(w) + 1)], crdflag)
        return [2] + enc_mask(c) + C.enc_list(w, lambda x: C.enc_q(float(x))) + [1 if p['nrm'] else 0, crdarg] + tbl
    if c['op'] == 'basis':
        tbl = enc_table(p, [(p['nrm'], j) for j in good], crdflag)
        return ([5] + enc_mask(c) + C.enc_list(modes, lambda x: [x])
                + [1 if c.get('vectorize') else 0, 1 if p['nrm'] else 0, crdarg] + tbl)
    if c['op'] == 'fit':
        tbl = enc_table(p, [(p['nrm'], j) for j in good], crdflag)
        return ([1] + enc_arr(p['y']) + enc_mask(c) + C.enc_list(modes, lambda x: [x])
                + [1 if p['nrm'] else 0, crdarg] + tbl)
    if c['op'] == 'remove':
        tbl = enc_table(p, [(True, j) for j in good], crdflag)
        return [3] + enc_arr(p['y']) + enc_mask(c) + C.enc_list(modes, lambda x: [x]) + [crdarg] + tbl
    return None


def decode(c, ints):
    rd = C.Reader(ints)
    if c['op'] == 'history':
        if rd.z() != 0 or rd.z() != len(c['steps']):
            raise ValueError('malformed history answer from the model')
        res = []
        for sub in substeps(c):
            ln = rd.z()
            res.append(decode(sub, ints[rd.i:rd.i + ln]))
            rd.i += ln
        return {'steps': res}
    st = rd.z()
    if st == 1:
        return {'err': C.ERRNAMES[rd.z()]}
    if c['op'] == 'fit':
        return {'coeffs': [float(x) for x in rd.lst(rd.q)]}
    if c['op'] == 'basis':
        if rd.z() == 0:       # the cube: a list of 2-d arrays
            cube = rd.lst(lambda: rd.arr(rd.q))
            return {'cube': [[[float(x) for x in row] for row in a] for a in cube]}
        return {'arr': [[float(x) for x in row] for row in rd.arr(rd.q)]}
    a = rd.arr(rd.q)
    return {'arr': [[float(x) for x in row] for row in a]}


# ------------------------------------------------------------------ implementation side
class Lazy(str):
    """a large result array: kept in memory for the oracle, written as a one-line summary (a JSON string) into
    evidence and replay files"""
    def __new__(cls, a):
        obj = str.__new__(cls, f'<array shape={a.shape} max|.|={float(np.max(np.abs(a))) if a.size else 0.0!r}>')
        obj.a = a
        return obj


def unwrap(x):
    return x.a if isinstance(x, Lazy) else x


def run_impl(c):
    if c['op'] == 'history':
        return run_history(c)
    res = run_impl_single(c)
    if isinstance(res, dict):
        res = {k: (Lazy(v) if isinstance(v, np.ndarray) and v.size > 20000 else v) for k, v in res.items()}
    return res


def run_impl_single(c):
    lentil = C.import_lentil()
    try:
        p = prep(c)
        # mask / modes / rho / theta: exactly the objects of the case's argument forms
        mask, modes, rho, theta, nrm = p['mask_arg'], p['modes_arg'], p['rho_arg'], p['theta_arg'], p['nrm_arg']
        mask0 = np.array(np.asarray(mask), copy=True)
        outside = p['mask'] == 0
        if c['op'] == 'basis':
            B = lentil.zernike_basis(mask, modes, bool(c.get('vectorize')), nrm, rho, theta)
            return {'arr': np.asarray(B, dtype=float), 'shape': [int(x) for x in np.shape(B)], 'dtype': str(np.asarray(B).dtype),
                    'input_changed': not np.array_equal(np.asarray(mask), mask0)}
        if c['op'] == 'compose':
            opd = lentil.zernike_compose(mask, p['w_arg'], nrm, rho, theta)
            res = {'arr': np.asarray(opd, dtype=float)}
            if c.get('empty'):
                return res
            try:    # the round trips of the property, on the implementation alone
                res['hom'] = np.asarray(lentil.zernike_compose(mask, [x * HOM for x in p['w']], nrm, rho, theta), dtype=float)
                res['fit'] = np.asarray(lentil.zernike_fit(opd, mask, modes, nrm, rho, theta), dtype=float)
                res['removed'] = np.asarray(lentil.zernike_remove(opd, mask, modes, rho=rho, theta=theta), dtype=float)
            except Exception as e:
                res['roundtrip_err'] = type(e).__name__
            return res
        y = p['y']
        ya = p['y_arg']
        y0 = np.array(ya, copy=True)
        s = float(np.max(np.abs(y))) if y.size and np.any(y) else 1.0
        if c['op'] == 'fit':
            cf = np.asarray(lentil.zernike_fit(ya, mask, modes, nrm, rho, theta), dtype=float)
            res = {'coeffs': cf}
            if not c.get('opd_shape') and not c.get('illcond'):
                y2 = np.fliplr(y) * 0.5 + s
                res['fit_y2'] = np.asarray(lentil.zernike_fit(y2, mask, modes, nrm, rho, theta), dtype=float)
                res['fit_comb'] = np.asarray(lentil.zernike_fit(3.0 * y + y2, mask, modes, nrm, rho, theta), dtype=float)
                junk = y + outside * 7.25 * s
                res['fit_junk'] = np.asarray(lentil.zernike_fit(junk, mask, modes, nrm, rho, theta), dtype=float)
                res['fit_scaled'] = np.asarray(lentil.zernike_fit(y * HOM, mask, modes, nrm, rho, theta), dtype=float)
            res['input_changed'] = not (np.array_equal(np.asarray(ya), y0) and np.array_equal(np.asarray(mask), mask0))
            return res
        if c['op'] == 'remove':
            r = np.asarray(lentil.zernike_remove(ya, mask, modes, rho=rho, theta=theta), dtype=float)
            res = {'arr': r}
            res['fit_res'] = np.asarray(lentil.zernike_fit(r, mask, modes, True, rho, theta), dtype=float)
            res['again'] = np.asarray(lentil.zernike_remove(r, mask, modes, rho=rho, theta=theta), dtype=float)
            res['fit_y'] = np.asarray(lentil.zernike_fit(ya, mask, modes, True, rho, theta), dtype=float)
            res['rem_scaled'] = np.asarray(lentil.zernike_remove(y * HOM, mask, modes, rho=rho, theta=theta), dtype=float)
            res['input_changed'] = not (np.array_equal(np.asarray(ya), y0) and np.array_equal(np.asarray(mask), mask0))
            return res
    except Exception as e:
        # np.linalg.LinAlgError is a ValueError; the property does not pin the error class any further
        return {'err': 'ValueError' if isinstance(e, ValueError) else type(e).__name__}


HOM = 1e-9          # compose(HOM * c) must be HOM * compose(c)
TOL_SUM = 1e-12     # a k-term float sum against the exact sum, relative to sum_j |c_j| max|Z_j| (k <= 15: ~4e-15)


def close(a, b, scale, what, tol=TOL):
    """max |a - b| <= tol * scale; scale is always the magnitude of the EXPECTED data (no absolute floor)"""
    a = np.asarray(unwrap(a), dtype=float)
    b = np.asarray(unwrap(b), dtype=float)
    if a.shape != b.shape:
        return f'{what}: shapes differ: {a.shape} vs {b.shape}'
    if a.size == 0:
        return None
    if not np.all(np.isfinite(a)):
        return f'{what}: non-finite values'
    d = float(np.max(np.abs(a - b)))
    if d > tol * scale:
        i = np.unravel_index(np.argmax(np.abs(a - b)), a.shape)
        return f'{what}: max difference {d:.3g} (allowed {tol * scale:.3g}) at {tuple(int(x) for x in i)}: {a[i]!r} vs {b[i]!r}'
    return None


def close_each(got, want, cond, what):
    """every coefficient relative to its OWN size: |got_i - want_i| <= 1e-6 |want_i| + 1e-13 max(10, cond) max|want|
    (the second term is the float floor of a least-squares solve with condition number cond)"""
    got = np.asarray(got, dtype=float)
    want = np.asarray(want, dtype=float)
    if got.shape != want.shape:
        return f'{what}: shapes differ: {got.shape} vs {want.shape}'
    if want.size == 0:
        return None
    if not np.all(np.isfinite(got)):
        return f'{what}: non-finite values'
    lim = 1e-6 * np.abs(want) + 1e-13 * max(10.0, cond) * float(np.max(np.abs(want)))
    bad = np.abs(got - want) > lim
    if np.any(bad):
        i = int(np.argmax(np.abs(got - want) / np.where(lim > 0, lim, 1e-300)))
        return f'{what}: coefficient {i}: got {got[i]!r}, expected {want[i]!r} (allowed deviation {lim[i]:.3g})'
    return None


def magnitude(c, p):
    if c['op'] == 'basis':
        return 1.0
    if c['op'] == 'compose':
        return max([abs(x) for x in p['w']] + [1e-300])
    return max(float(np.max(np.abs(p['y']))) if p['y'].size else 0.0, 1e-300)


def sum_scale(w, B):
    """sum_j |w_j| max|B_j|: the magnitude against which a linear combination of the rows of B is rounded"""
    return max(float(sum(abs(x) * float(np.max(np.abs(b))) for x, b in zip(w, B))), 1e-300)


def lone_theta_refused(c, impl):
    """theta without rho is silently replaced by the default coordinates today; refusing it with the ValueError the
    code documents for half-specified coordinates would be just as good - neither the property nor the docs pin it"""
    return (c.get('forms') or {}).get('crd_form') == 'theta_only' and impl.get('err') == 'ValueError'


def compare(c, impl, model):
    if c['op'] != 'history' and lone_theta_refused(c, impl):
        return None
    if c['op'] == 'history':
        for i, (st, sub, im, mo) in enumerate(zip(c['steps'], substeps(c), impl['steps'], model['steps'])):
            m = compare(sub, im, mo)
            if m:
                return f'{step_label(i, st)}: {m}'
        return None
    if ('err' in impl) != ('err' in model):
        return f'implementation {impl.get("err", "returned a value")}, model {model.get("err", "returned a value")}'
    if 'err' in impl:
        return None if impl['err'] == model['err'] else f'error kinds differ: impl {impl["err"]} model {model["err"]}'
    p = prep(c)
    # the modelling assumption "zernike(mask, j) = bool(mask) * zernike(ones, j)" on this very case, through zernike_basis
    good = [j for j in c['modes'] if j >= 1]
    nrm = True if c['op'] == 'remove' else p['nrm']
    B = masked_basis(c, p, good, nrm).reshape(len(good), *p['mask'].shape) if good else np.zeros((0,) + p['mask'].shape)
    for i, j in enumerate(good):
        if not np.array_equal(B[i], np.where(p['mask'] != 0, mode_samples(p, j, nrm), 0.0)):
            return f'zernike_basis row for mode {j} is not bool(mask) * zernike(ones, {j}) (mask application differs from the model)'
    if c['op'] == 'basis':
        n, m = p['mask'].shape
        k = len(c['modes'])
        want = np.array(model['cube'], dtype=float).reshape(k, n, m) if 'cube' in model else np.array(model['arr'], dtype=float).reshape(k, n * m)
        got = np.asarray(unwrap(impl['arr']))
        if got.shape != want.shape:
            return f'zernike_basis: shape {got.shape}, model {want.shape}'
        if not np.array_equal(got, want):          # no arithmetic happens here: the samples must be identical
            i = np.unravel_index(np.argmax(np.abs(got - want)), got.shape)
            return f'zernike_basis differs from the model at {tuple(int(x) for x in i)}: {got[i]!r} vs {want[i]!r}'
        return None
    s = magnitude(c, p)
    if c['op'] == 'fit':
        sc = max(s, max([abs(x) for x in model['coeffs']] + [0.0]))
        return close(impl['coeffs'], model['coeffs'], sc, 'zernike_fit vs model coefficients')
    if c['op'] == 'compose':
        w = p['w']
        U = [np.where(p['mask'] != 0, mode_samples(p, j + 1, nrm), 0.0) for j in range(len(w))]
        return close(impl['arr'], model['arr'], sum_scale(w, U), 'zernike_compose vs model', TOL_SUM)
    sc = max(s, float(np.max(np.abs(np.asarray(model['arr'])))) if len(model['arr']) else 0.0)
    return close(impl['arr'], model['arr'], sc, 'zernike_remove vs model')


# ------------------------------------------------------------------ direct oracle (implementation + numpy only)
def pure(c):
    """the OPD of a fit / remove case consists of the requested modes only"""
    return (not c.get('noise') and not any(fr(e) != 0 for e in (c.get('extra') or []))
            and len(set(c['modes'])) == len(c['modes']) and not (c.get('forms') or {}).get('opd_dtype'))


def oracle(c, impl):
    if c['op'] == 'history':
        for i, (st, sub, im) in enumerate(zip(c['steps'], substeps(c), impl['steps'])):
            m = oracle_step(sub, im)
            if m:
                return f'{step_label(i, st)}: {m}'
        return None
    if c.get('expect_error') or c.get('opd_shape') or lone_theta_refused(c, impl):
        return None          # the property does not speak about malformed calls; the tie compares the error kinds
    if 'err' in impl:
        return f'zernike_{c["op"]} (or zernike_compose preparing its input) raised {impl["err"]} on a well-formed call'
    lentil = C.import_lentil()
    p = prep(c)
    mask = p['mask']
    inside = mask != 0
    modes = list(c['modes'])
    s = magnitude(c, p)
    want = coeff_vals(c)
    nrm = True if c['op'] == 'remove' else p['nrm']
    B = stacked_modes(c, p, modes, nrm)              # float64 stack of zernike(mask, j): the reference basis
    cond = float(np.linalg.cond(B)) if B.size else 1.0
    if not c.get('dependent') and len(set(modes)) == len(modes) and B.size:
        cref = float(np.linalg.cond(ref_modes(p, modes, nrm)))
        if cref <= COND_MAX and not (cond <= 100 * COND_MAX):
            return (f'the modes {modes} delivered by zernike() are linearly dependent on this mask (condition number '
                    f'{cond:.3g}) although the Noll modes are independent there (condition number {cref:.3g}): '
                    f'fit / compose / remove cannot be mutually inverse')
    bn = (float(np.max(np.abs(B))) if B.size else 0.0) or 1.0
    cs = sum_scale(want, B)                          # expected magnitude of sum_i c_i Z_{modes_i}
    if c['op'] == 'basis':
        got = np.asarray(unwrap(impl['arr']))
        k = len(modes)
        want_shape = (k, mask.size) if c.get('vectorize') else (k,) + mask.shape
        if tuple(impl['shape']) != want_shape:
            return f'zernike_basis(vectorize={bool(c.get("vectorize"))}) has shape {tuple(impl["shape"])}, expected {want_shape}'
        if impl['dtype'] != 'float64':
            return f'zernike_basis returns dtype {impl["dtype"]} (the modes are truncated or widened), expected float64'
        if impl.get('input_changed'):
            return 'zernike_basis modified the caller\'s mask'
        if not np.array_equal(got.reshape(k, mask.size), B):
            return f'zernike_basis(mask, {modes}) is not the stack of zernike(mask, j) in the order requested'
        return None
    if c['op'] == 'compose' and c.get('empty'):
        opd = np.asarray(unwrap(impl['arr']))
        return None if opd.shape == mask.shape and not np.any(opd) else 'zernike_compose(mask, []) is not the all-zero OPD'
    if c['op'] == 'compose':
        w = p['w']
        opd = np.asarray(unwrap(impl['arr']))
        if np.any(opd[~inside] != 0):
            return 'composed OPD is not zero outside the mask'
        Z = [np.asarray(lentil.zernike(mask, j + 1, nrm, p['rho'], p['theta']), dtype=float) for j in range(len(w))]
        ref = np.zeros(mask.shape)
        for x, z in zip(w, Z):
            ref = ref + x * z
        ws = sum_scale(w, Z)
        m = close(opd, ref, ws, f'compose({w}) is not sum_j c_j Z_j', TOL_SUM)
        if m:
            return m
        if 'roundtrip_err' in impl:
            return f'compose(k c) / fit / remove of a composed OPD raised {impl["roundtrip_err"]}'
        m = close(impl['hom'], HOM * opd, HOM * ws, f'compose is not homogeneous: compose({HOM} * c) != {HOM} * compose(c)', TOL_SUM)
        if m:
            return m
        if pure(c):
            m = close_each(impl['fit'], want, cond, f'fit(compose(c), modes={modes}) != c')
            if m:
                return m
            tol_r = TOL
            if c.get('illcond'):
                # an explicit pseudo-inverse is not backward stable: the re-composed fit carries eps * cond of the
                # (normalised) basis that zernike_remove uses; same floor as for the coefficients
                cond_r = cond if nrm else float(np.linalg.cond(stacked_modes(c, p, modes, True)))
                tol_r = max(TOL, 1e-13 * max(cond, cond_r))
            m = close(impl['removed'], np.zeros_like(opd), cs, f'remove(compose(c, modes), modes={modes}) != 0', tol_r)
            if m:
                return m
        return None
    # zernike_basis (the route of fit and remove) must deliver exactly these modes
    Bapi = masked_basis(c, p, modes, nrm)
    if Bapi.shape != B.shape or not np.array_equal(np.asarray(Bapi, dtype=float), B):
        return (f'zernike_basis(mask[{mask.dtype}], {modes}) is not the stack of zernike(mask, j): dtype {Bapi.dtype}, '
                f'max difference {float(np.max(np.abs(np.asarray(Bapi, dtype=float) - B))) if Bapi.shape == B.shape else "shape"}')
    y = p['y']
    if c['op'] == 'fit':
        cf = np.asarray(impl['coeffs'])
        resid = y.ravel() - cf @ B
        ne = B @ resid
        lim = TOL * s * bn * B.shape[1] * max(1.0, bn)
        if float(np.max(np.abs(ne))) > lim:
            return (f'zernike_fit does not return the least-squares solution: normal equations residual '
                    f'{float(np.max(np.abs(ne))):.3g} > {lim:.3g}')
        if impl.get('input_changed'):
            return 'zernike_fit modified the caller\'s opd or mask array'
        if pure(c) and c.get('ynrm', True) == nrm:
            m = close_each(cf, want, cond, f'fit(compose(c), modes={modes}) != c')
            if m:
                return m
        if c.get('illcond'):
            return None      # ill-conditioned (cond >= 1e6) independent set: only the round trip is meaningful in floats
        sc = max(s, float(np.max(np.abs(cf))))
        m = close(impl['fit_scaled'], HOM * cf, HOM * sc, f'fit is not homogeneous: fit({HOM} * y) != {HOM} * fit(y)')
        if m:
            return m
        f2 = np.asarray(impl['fit_y2'])
        m = close(impl['fit_comb'], 3.0 * cf + f2, 4 * sc + float(np.max(np.abs(f2))),
                  'fit is not linear: fit(3y + y2) != 3 fit(y) + fit(y2)')
        if m:
            return m
        return close(impl['fit_junk'], cf, sc, 'fit depends on OPD values outside the mask')
    if c['op'] == 'remove':
        r = np.asarray(unwrap(impl['arr']))
        fs = max(s, float(np.max(np.abs(impl['fit_y']))))
        if impl.get('input_changed'):
            return 'zernike_remove modified the caller\'s opd or mask array'
        if r.shape != y.shape:
            return f'residual shape {r.shape} != opd shape {y.shape}'
        if not np.array_equal(r[~inside], y[~inside]):
            return 'zernike_remove changed the OPD outside the mask'
        m = close(impl['fit_res'], np.zeros(len(modes)), fs, f'fit(remove(y, modes={modes})) != 0 on the removed modes')
        if m:
            return m
        m = close(impl['again'], r, s, 'remove is not idempotent')
        if m:
            return m
        m = close(impl['rem_scaled'], HOM * r, HOM * s, f'remove is not homogeneous: remove({HOM} * y) != {HOM} * remove(y)')
        if m:
            return m
        comp = np.asarray(impl['fit_y']) @ B
        m = close((y - r).ravel(), comp, s * max(1.0, bn), 'removed component is not the least-squares component in the requested modes')
        if m:
            return m
        if pure(c):      # an OPD made only of the removed modes (either normalisation: same span)
            return close(r, np.zeros_like(r), cs, f'remove(compose(c, modes), modes={modes}) != 0')
    return None


def extra(tier, rng):
    return {'report': dict(STATS, cond_max=COND_MAX), 'violations': []}



# ------------------------------------------------------------------ WP-T4: translation layer (source -> Gallina)
# An ADDITIONAL tie (DESIGN 10.3): harness/gen_src.py (suite 'C12') translates the array bookkeeping of lentil/zernike.py:zernike_basis and zernike_compose (basis cube shape, vectorised reshape, coefficient k -> mode k + 1)
# from the CURRENT source text into coq/theories/Gen/ZernikeFitSrc.v; Proofs/ZernikeFitSrcP.v proves every translated term equal to the model for
# all integers; Properties/C12Src.v states it.  Policy: a function the translator refuses is only reported; a
# translated function whose equivalence lemma no longer compiles is compared with the model mirror on sampled points,
# an exhaustive small box and random points - a found disagreement is a VIOLATION with that witness (replayable: op
# 'src'), none found is reported as unproved.  The build of C12Src happens here, never in COQ_TARGETS.
_extra_before_src_layer = extra


def extra(tier, rng):
    from .. import gen_src as G
    try:
        base = _extra_before_src_layer(tier, rng)
    except Exception as e:          # keep the translation layer's verdict when the other checks cannot even run
        import traceback
        base = {'report': {'error': traceback.format_exc()[-800:]},
                'violations': [{'case': None, 'impl': None,
                                'what': f'extra: the checks preceding the translation layer raised {type(e).__name__}: {e}'}]}
    layer = G.run_layer('C12', ID, tier, rng, C)
    report = dict(base.get('report', {}))
    report['source_translation'] = layer['report']
    return {'report': report, 'violations': list(base.get('violations', [])) + layer['violations']}


def _wrap_src_replay():
    from .. import gen_src as G
    return G.wrap_replay(run_impl, oracle, C)


run_impl, oracle = _wrap_src_replay()
