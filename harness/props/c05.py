"""C05 - Propagation conserves energy."""
import math
from fractions import Fraction

import numpy as np

from .. import common as C

ID = 'C05'
MODEL = 'c05'
RUNFUN = 'run'
COQ_TARGETS = ['theories/Properties/C05.vo', 'theories/Extract/RunC05.vo']
DESIGN_REF = 'DESIGN.md section 6, C05'
TECHNIQUE = ('Coq proof over the complex numbers (Parseval for the unitary dft2 model over a period >= the input, any '
             'integer offset, per-axis periods, from roots-of-unity orthogonality; nested windows monotone and bounded '
             'on the reals; normalize_power) + execution of the extracted model (pupil field -> dft2 over one period -> '
             'window energies; normalize_power) on the exact group ring against the public lentil path '
             '(Wavefront * Pupil, propagate_dft, propagate_fft, .intensity, normalize_power) + a direct energy oracle')
LEVEL_TEXT = ('Theorems in coq/theories/Properties/C05.v for all complex pupil fields, all integer periods >= the input '
              '(different per axis), all integer offsets, all nested centred windows, all targets p >= 0; the dft2 model is '
              'the one tied to lentil.fourier by C01; the energy predicates are decided on the implementation output on '
              'every run for both propagators.')
LEVEL_NOTE = ('Trusted: Coq kernel + stdlib Reals axioms, extraction, harness; the FFT path is not modelled here (C09 proves '
              'FFT = DFT), it is covered by the direct oracle only; IEEE rounding is not modelled (1e-9 relative).')
TRUSTED = ['Coq 8.16.1 kernel (coqc; coqchk in the thorough tier)',
           'extraction with ExtrOcamlBasic only; ocaml/driver.ml',
           'harness/props/c05.py: codec, evaluation of group-ring elements, the supplied square root s of the normalisation '
           'ratio (validated: |s^2 - q| <= 2^-48 q against the exact ratio q returned by the model)',
           'numpy: np.fft.fft2, BLAS dot, np.exp, np.sqrt (modelled, observed through the tie and the oracle)',
           'C01: Model/Dft.v is lentil.fourier.dft2; C09 for the FFT path (oracle only here)',
           'parametricity: theorem instance (Coquelicot C / R) and executed instance (group ring) are the same Gallina term']
ASSUMPTIONS = ['commensurate samplings: alpha = 1/P exactly in floating point (generator checks alpha == 1/P per axis), '
               'P = shape*oversample >= pupil size',
               'untilted, monolithic pupils (offsets come from the bounding box of the mask); centred windows via shape / prop_shape',
               'amplitudes dyadic, OPD = lambda*k/8; comparison tolerance 1e-9 relative',
               'sum |a|^2 > 0 and p >= 0 for normalize_power']
RULE = ('random pupils up to 6x6 (zero borders, non-square), periods P = npix*os <= 12 per axis (different per axis in half '
        'the cases, anisotropic pupil or detector pixels), oversample 1..3, chains of 3 nested windows, optional target power, '
        'DFT (shape and prop_shape) and FFT propagators; plus normalize_power on complex arrays; plus histories of 2-4 '
        'propagate_fft calls sharing one scratch buffer sized with lentil.scratch_shape (different wavelengths and pupil sizes, '
        'grids with rows != cols, buffer dirty at the start in half the cases; oracle only); '
        'non-trivial = more than one pupil sample and at least one of {P_r != P_c, oversample > 1, target power, zero border}')

TOL = 1e-9
MAXL = 60


def lcm(a, b):
    return a * b // math.gcd(a, b)


# ------------------------------------------------------------------ sampling construction
def sampling(c):
    """pixel scales, focal length and wavelength (exact small-rational floats) such that
    alpha_r = dx0*du0/(lambda*z*os) = 1/(npix_r*os) and likewise for columns"""
    nr_, nc_ = c['npix']
    delta = Fraction(1, 2 ** c['dexp'])
    d = Fraction(1, 2 ** c['uexp'])
    z = Fraction(c['z'])
    if c['aniso'] == 'pupil':
        dx = (nc_ * delta, nr_ * delta)
        du = (d, d)
    elif c['aniso'] == 'detector':
        dx = (delta, delta)
        du = (nc_ * d, nr_ * d)
    else:                       # equal periods
        dx = (delta, delta)
        du = (d, d)
    lam = dx[0] * du[0] * nr_ / z
    return dx, du, z, lam


def alpha_ok(c):
    """the implementation's formula evaluated in floating point gives exactly 1/P on both axes"""
    dx, du, z, lam = sampling(c)
    os_ = c['os']
    fdx = [float(x) for x in dx]
    fdu = [float(x) for x in du]
    for x, fx in zip(list(dx) + list(du) + [z, lam], fdx + fdu + [float(z), float(lam)]):
        if Fraction(fx) != x:
            return False
    ar = (fdx[0] * fdu[0]) / (float(lam) * float(z) * os_)
    ac = (fdx[1] * fdu[1]) / (float(lam) * float(z) * os_)
    Pr, Pc = c['npix'][0] * os_, c['npix'][1] * os_
    return ar == 1.0 / Pr and ac == 1.0 / Pc and Fraction(ar) * Fraction(ac) > 0


def case_L(c):
    os_ = c['os']
    return lcm(lcm(c['npix'][0] * os_, c['npix'][1] * os_), c.get('phden', 1))


AMPS = [0, 0, 1, 1, 1, 0.5, 2, 1.5, 0.25, 3]


def rnd_amp(rng, m, n):
    if rng.random() < 0.07:            # a pupil that is a single transmitting pixel, anywhere
        a = [[0] * n for _ in range(m)]
        a[rng.randrange(m)][rng.randrange(n)] = rng.choice([1, 0.5, 2, 1.5, 3])
        return a
    while True:
        a = [[rng.choice(AMPS) for _ in range(n)] for _ in range(m)]
        t = rng.random()
        if t < 0.3 and m > 1:          # an empty border row / column: the plane's slice is offset from the centre
            for y in range(n):
                a[rng.choice([0, m - 1])][y] = 0
        if 0.15 < t < 0.45 and n > 1:
            for x in range(m):
                a[x][rng.choice([0, n - 1])] = 0
        if any(v != 0 for row in a for v in row):
            return a


def rnd_seg(rng, m, n):
    """a labelling of the pupil samples into 2-3 disjoint segments (0 = opaque) whose BOUNDING BOXES overlap in most
    cases: two triangles, an L wrapped around a block, interleaved or random labels; None when the pupil is too small"""
    if m * n < 2:
        return None
    kind = rng.choice(['triangles', 'ell', 'random', 'random3', 'halves', 'stripes'])
    lab = [[0] * n for _ in range(m)]
    for x in range(m):
        for y in range(n):
            if kind == 'triangles':
                lab[x][y] = 1 if x * n > y * m else 2 if x * n < y * m else 0
            elif kind == 'ell':
                lab[x][y] = 2 if (x >= m // 2 and y >= n // 2) else 1
            elif kind == 'random':
                lab[x][y] = rng.choice([0, 1, 1, 2, 2])
            elif kind == 'random3':
                lab[x][y] = rng.choice([0, 1, 2, 3])
            elif kind == 'halves':
                lab[x][y] = 1 if y < (n + 1) // 2 else 2
            else:
                lab[x][y] = 1 + (x + y) % 2
    k = max(v for row in lab for v in row)
    present = {v for row in lab for v in row if v}
    if k < 2 or present != set(range(1, k + 1)):
        return None
    return lab


def mask_cube(seg):
    k = max(v for row in seg for v in row)
    return np.array([[[1 if v == j else 0 for v in row] for row in seg] for j in range(1, k + 1)])


def apply_seg(rng, c_amp, m, n):
    """returns (amplitude restricted to the segments, labelling) or (amplitude, None)"""
    seg = rnd_seg(rng, m, n)
    if seg is None:
        return c_amp, None
    a = [[c_amp[x][y] if seg[x][y] else 0 for y in range(n)] for x in range(m)]
    if not any(v != 0 for row in a for v in row):
        return c_amp, None
    return a, seg


def gen_prop(rng, tier):
    os_ = rng.choice([1, 1, 2, 2, 3])
    maxP = 12
    nmax = maxP // os_
    npr = rng.randint(1, nmax)
    npc = npr if rng.random() < 0.4 else rng.randint(1, nmax)
    aniso = 'none' if npr == npc else rng.choice(['pupil', 'detector'])
    Pr, Pc = npr * os_, npc * os_
    m = rng.randint(1, min(6, Pr))
    n = rng.randint(1, min(6, Pc))
    if rng.random() < 0.15:
        m, n = min(6, Pr), min(6, Pc)
    phden = rng.choice([d for d in (1, 2, 4, 8) if lcm(lcm(Pr, Pc), d) <= MAXL] or [1])
    # nested chain of three windows (detector pixels), the last one the full period
    s1 = (rng.randint(1, npr), rng.randint(1, npc))
    s2 = (rng.randint(s1[0], npr), rng.randint(s1[1], npc))
    c = {'op': 'prop', 'amp': rnd_amp(rng, m, n),
         'ph': [[rng.randrange(phden) for _ in range(n)] for _ in range(m)], 'phden': phden,
         'npix': [npr, npc], 'os': os_, 'aniso': aniso,
         'dexp': rng.choice([6, 7, 8]), 'uexp': rng.choice([16, 17, 18]), 'z': rng.choice(['1', '2', '1/2', '4']),
         'wins': [list(s1), list(s2), [npr, npc]],
         'power': None}
    t3 = rng.random()
    if t3 < 0.15:                   # faint / bright wavefronts: every energy statement is scale covariant
        c['ampscale'] = rng.choice(AMPSCALES)
    elif t3 < 0.27:                 # the amplitude handed over as an ndarray subclass / another layout with the same data
        c['container'] = rng.choice(CONTAINERS)
    if rng.random() < 0.15:         # shape / prop_shape / oversample as small-width numpy integers
        c['intdtype'] = rng.choice(['uint8', 'int8', 'uint16', 'int16', 'uint32'])
    if rng.random() < 0.2:          # second leg: image plane back to a pupil plane over one period
        c['relay'] = True
    if rng.random() < 0.3:          # a segmented pupil: one Field per segment, cropped to the segment's bounding box
        a, seg = apply_seg(rng, c['amp'], m, n)
        if seg is not None:
            c['amp'], c['seg'] = a, seg
    t = rng.random()
    if t < 0.4:
        pass
    elif t < 0.85:      # exact regime: power/sum|a|^2 is the square of a dyadic, so the normalisation factor is exact
        sfac = Fraction(rng.choice(['1/2', '2', '3/4', '3/2', '1/4', '3', '5/8', '1']))
        c['power'] = str(amp_total(c) * sfac * sfac)
    else:               # generic target: the factor is an irrational square root (53-bit rational in the model): keep it small
        if m * n > 9:
            c['amp'] = [row[:3] for row in c['amp'][:3]]
            c['ph'] = [row[:3] for row in c['ph'][:3]]
            c.pop('seg', None)
            if not any(v != 0 for row in c['amp'] for v in row):
                c['amp'][0][0] = 1
        c['power'] = rng.choice(['1', '2', '1/2', '5', '0.75', '100', '9', '1/16'])
    return c


SUBPX = ['0.3', '0.45', '0.5', '0.7', '-0.3', '-0.45', '-0.6', '0.35', '-0.7']


def add_between(rng, c):
    """calls made between two identical nested-window checks: none of them may change what the ordinary centred,
    untilted propagation returns afterwards"""
    os_ = c['os']
    full = [c['npix'][0], c['npix'][1]]
    btw = []
    for _ in range(rng.randint(1, 3)):
        k = rng.choice(['tilt', 'tilt', 'mask', 'dft2'])
        win = rng.randrange(3)
        if k == 'tilt':
            btw.append({'kind': 'tilt', 'via': rng.choice(['plane', 'wavefront']), 'win': win,
                        'fx': rng.choice(SUBPX), 'fy': rng.choice(SUBPX + ['0']), 'repeat': rng.randint(1, 5)})
        elif k == 'mask':
            w = c['wins'][win]
            room = [(full[0] - w[0]) * os_, (full[1] - w[1]) * os_]
            # top-left corner of the read-out region inside the full output plane (anywhere it fits)
            btw.append({'kind': 'mask', 'win': win, 'r0': rng.randint(0, room[0]), 'c0': rng.randint(0, room[1])})
        else:
            btw.append({'kind': 'dft2', 'win': win, 'shr': rng.choice(SUBPX + ['2', '-1.25']),
                        'shc': rng.choice(SUBPX + ['0', '1.5']), 'repeat': rng.randint(1, 3)})
    c['between'] = btw
    return c


NORM_DTYPES = ['bool', 'uint8', 'int32', 'int64', 'float32', 'float64']


def gen_norm(rng, tier, kind=None):
    if kind or rng.random() < 0.1:  # calls whose result is not finite: zero power (0/0, p/0) or a negative target
        m, n = rng.randint(1, 4), rng.randint(1, 4)
        kind = kind or rng.choice(['zero', 'zero', 'negative', 'both', 'fine'])
        vals = [0, 1, -1, 2, 0.5]
        a = [[[0, 0] if kind in ('zero', 'both') else [rng.choice(vals), rng.choice(vals)] for _ in range(n)] for _ in range(m)]
        if kind in ('negative', 'fine') and not any(v[0] or v[1] for row in a for v in row):
            a[0][0] = [1, 0]
        p = rng.choice(['-1', '-1/2', '-3']) if kind in ('negative', 'both') else rng.choice(['0', '1', '2', '1/2'])
        return {'op': 'normalize', 'a': a, 'power': p, 'checked': kind}
    if rng.random() < 0.35:        # aperture masks / amplitudes of every array dtype a caller may hold them in
        dt = rng.choice(NORM_DTYPES)
        big = dt in ('bool', 'uint8') and rng.random() < 0.5
        m, n = (rng.randint(16, 18), rng.randint(16, 18)) if big else (rng.randint(1, 6), rng.randint(1, 6))
        hi = 1 if dt in ('bool', 'uint8') else 3
        while True:
            a = [[[1 if big and rng.random() < 0.95 else rng.randint(0, hi), 0] for _ in range(n)] for _ in range(m)]
            if any(v[0] for row in a for v in row):
                break
        return {'op': 'normalize', 'a': a, 'dtype': dt, 'power': rng.choice(['1', '2', '1/2', '7', '0.375', '1000', '3'])}
    m, n = rng.randint(1, 5), rng.randint(1, 5)
    vals = [0, 1, -1, 2, 0.5, -1.5, 3, 0.25]
    while True:
        a = [[[rng.choice(vals), rng.choice(vals) if rng.random() < 0.6 else 0] for _ in range(n)] for _ in range(m)]
        if any(v[0] != 0 or v[1] != 0 for row in a for v in row):
            break
    return {'op': 'normalize', 'a': a, 'power': rng.choice(['1', '2', '1/2', '7', '0.375', '1000', '0', '1/1024', '3'])}


HIST_FACS = ['1', '1/2', '3/4', '2/3', '5/6', '7/8', '1', '1']


def gen_hist(rng, tier):
    """a history of propagate_fft calls sharing one scratch buffer sized with lentil.scratch_shape"""
    os_ = rng.choice([1, 1, 2, 2, 3])
    nmax = 16 // os_
    t = rng.random()
    if t < 0.55:                                # more columns than rows
        npr = rng.randint(2, nmax - 1)
        npc = rng.randint(npr + 1, nmax)
    elif t < 0.8:                               # more rows than columns
        npc = rng.randint(2, nmax - 1)
        npr = rng.randint(npc + 1, nmax)
    else:
        npr = npc = rng.randint(2, nmax)
    aniso = 'none' if npr == npc else rng.choice(['pupil', 'detector'])
    Pr, Pc = npr * os_, npc * os_
    calls = []
    for _ in range(rng.randint(2, 4)):
        facs = [f for f in HIST_FACS if (Pr * Fraction(f)).denominator == 1 and (Pc * Fraction(f)).denominator == 1]
        fac = rng.choice(facs)
        qr, qc = int(Pr * Fraction(fac)), int(Pc * Fraction(fac))          # this call's FFT grid
        m = rng.randint(1, min(8, qr))
        n = rng.randint(1, min(8, qc))
        if rng.random() < 0.4:                  # a field as wide as the grid allows
            m, n = min(8, qr), min(8, qc)
        phden = rng.choice([1, 2, 4, 8])
        cl = {'amp': rnd_amp(rng, m, n), 'ph': [[rng.randrange(phden) for _ in range(n)] for _ in range(m)],
              'phden': phden, 'lamfac': fac}
        if rng.random() < 0.3:
            a, seg = apply_seg(rng, cl['amp'], m, n)
            if seg is not None:
                cl['amp'], cl['seg'] = a, seg
        calls.append(cl)
    if not any(cl['lamfac'] == '1' for cl in calls):
        calls[rng.randrange(len(calls))]['lamfac'] = '1'
    return {'op': 'ffthist', 'ampscale': rng.choice(AMPSCALES) if rng.random() < 0.2 else None,
            'npix': [npr, npc], 'os': os_, 'aniso': aniso,
            'dexp': rng.choice([6, 7, 8]), 'uexp': rng.choice([16, 17, 18]), 'z': rng.choice(['1', '2', '1/2', '4']),
            'dirty': rng.random() < 0.5, 'extra': rng.choice([[0, 0], [0, 0], [1, 0], [0, 2], [3, 1]]),
            'calls': calls}


def hist_ok(c):
    """every call's pupil fits into its FFT grid and the grid sizes are far from rounding ties"""
    if not alpha_ok(c):
        return False
    os_ = c['os']
    for cl in c['calls']:
        qr = c['npix'][0] * os_ * Fraction(cl['lamfac'])
        qc = c['npix'][1] * os_ * Fraction(cl['lamfac'])
        if qr.denominator != 1 or qc.denominator != 1 or len(cl['amp']) > qr or len(cl['amp'][0]) > qc:
            return False
    return True


def gen_big(rng):
    """a large pupil (size-dependent code paths are a class): oracle only, arrays regenerated from a seed"""
    os_ = rng.choice([1, 2])
    m = rng.choice([31, 33, 63, 64, 65, 67])
    n = m if rng.random() < 0.3 else rng.choice([32, 64, 65, 66])
    npr = -(-m // os_) + rng.choice([0, 0, 1, 3])
    npc = -(-n // os_) + rng.choice([0, 0, 2])
    aniso = 'none' if npr == npc else rng.choice(['pupil', 'detector'])
    s1 = (rng.randint(1, npr), rng.randint(1, npc))
    s2 = (rng.randint(s1[0], npr), rng.randint(s1[1], npc))
    return {'op': 'prop', 'big': [m, n], 'seed': rng.randrange(10 ** 6), 'phden': 8,
            'npix': [npr, npc], 'os': os_, 'aniso': aniso,
            'dexp': rng.choice([6, 7, 8]), 'uexp': rng.choice([16, 17, 18]), 'z': rng.choice(['1', '2', '1/2', '4']),
            'wins': [list(s1), list(s2), [npr, npc]], 'power': rng.choice([None, '1', '2.5'])}


def expand_big(c):
    if not c.get('big') or 'amp' in c:
        return c
    m, n = c['big']
    g = np.random.default_rng(c['seed'])
    amp = (g.integers(0, 5, size=(m, n)) / 2.0)
    if not amp.any():
        amp[m // 2, n // 2] = 1.0
    return dict(c, amp=amp.tolist(), ph=g.integers(0, 8, size=(m, n)).tolist())


def add_masks(rng, c, exhaustive=False):
    """rectangular read-out masks [r0, r1, c0, c1] (inclusive, output samples of the full-period plane): every masked
    window must be the full-period image restricted to the mask, and windows that contain one another must nest"""
    R, Q = c['npix'][0] * c['os'], c['npix'][1] * c['os']
    rects = []
    if exhaustive:          # all row intervals x a few column intervals (even and odd extents, off-centre)
        cols = [(0, Q - 1)]
        if Q >= 2:
            cols.append((Q // 2 - 1, Q // 2))
            a = rng.randint(0, Q - 1)
            cols.append((a, rng.randint(a, Q - 1)))
        for c0, c1 in cols:
            for r0 in range(R):
                for r1 in range(r0, R):
                    rects.append([r0, r1, c0, c1])
    else:
        for _ in range(rng.randint(1, 2)):          # one or two chains growing from a random seed rectangle
            r0 = rng.randint(0, R - 1); r1 = rng.randint(r0, R - 1)
            c0 = rng.randint(0, Q - 1); c1 = rng.randint(c0, Q - 1)
            rects.append([r0, r1, c0, c1])
            for _ in range(rng.randint(1, 3)):
                r0 = rng.randint(0, r0); r1 = rng.randint(r1, R - 1)
                c0 = rng.randint(0, c0); c1 = rng.randint(c1, Q - 1)
                rects.append([r0, r1, c0, c1])
        rects.append([0, R - 1, 0, Q - 1])
    c['masks'] = rects
    return c


TIGHT_WL = ['650e-9', '532e-9', '1.064e-6', '500e-9', '632.8e-9', '1.0e-6', '1.55e-6', '405e-9']
TIGHT_Z = ['10.0', '12.0', '3.0', '0.5', '7.3', '1.0', '25.4']
TIGHT_D = ['1.0', '0.5', '0.1', '2.4', '0.35', '6.5', '0.0254']


def tight_params(c):
    wl, z = float(c['wl']), float(c['z'])
    Dr, Dc = float(c['D'][0]), float(c['D'][1])
    m, n = c['shape']
    dx = (Dr / m, Dc / n)
    du = (wl * z / Dr, wl * z / Dc)           # one period = (m, n) samples per unit of oversampling
    return wl, z, dx, du


def tight_side(c):
    """where the floating-point quotient wavelength*z*oversample/(dx*du) falls relative to the exact integer"""
    wl, z, dx, du = tight_params(c)
    out = []
    for k in range(2):
        q = (wl * z * c['os']) / (dx[k] * du[k])
        e = c['shape'][k] * c['os']
        out.append('below' if q < e else 'above' if q > e else 'exact')
    return out


def gen_tight(rng, want):
    """FFT / DFT over exactly one period at the TIGHTEST legal sampling (period == pupil size at oversample 1), with
    ordinary decimal physical values; [want] asks for a quotient one ulp below / above / exactly at the integer"""
    for _ in range(4000):
        m = rng.randint(8, 40)
        n = m if rng.random() < 0.6 else rng.randint(8, 40)
        D = rng.choice(TIGHT_D)
        c = {'op': 'tight', 'shape': [m, n], 'wl': rng.choice(TIGHT_WL), 'z': rng.choice(TIGHT_Z),
             'D': [D, D if m == n or rng.random() < 0.5 else rng.choice(TIGHT_D)],
             'os': rng.choice([1, 1, 1, 2, 3]), 'seed': rng.randrange(10 ** 6)}
        if want in tight_side(c):
            return c
    return c


AMPSCALES = ['1e-9', '1e-11', '1e-13', '1e-7', '1e6']
CONTAINERS = ['matrix', 'masked', 'subclass', 'fortran']


def gen_planehist(rng):
    """a history on ONE Pupil object: multiply, change the amplitude (in place through the attribute's array, or through
    the setter), edit the OPD in place, branch the wavefront through a Tilt and reuse it - each multiply / propagation
    judged against the arrays the object holds at that moment (oracle only)"""
    while True:
        c = gen_prop(rng, 'quick')
        if alpha_ok(c):
            break
    c.pop('power', None)
    c['op'] = 'planehist'
    steps = [{'do': 'mul'}]
    for _ in range(rng.randint(2, 4)):
        k = rng.choice(['scale_inplace', 'scale_inplace', 'norm_inplace', 'setter', 'opd_inplace', 'branch_tilt', 'tilt_twice', 'mul'])
        st = {'do': k}
        if k in ('scale_inplace', 'setter'):
            st['k'] = rng.choice(['0.5', '2', '3', '0.25', '1.5'])
        elif k == 'norm_inplace':
            st['p'] = rng.choice(['1', '2', '0.5', '7'])
        elif k in ('branch_tilt', 'tilt_twice'):
            st['fx'], st['fy'] = rng.choice(['0.3', '-0.4', '0.2']), rng.choice(['0.35', '-0.25', '0'])
        steps.append(st)
        if k != 'mul':
            steps.append({'do': 'mul'})
    c['steps'] = steps
    return c


def gen_segtilt(rng):
    """3-4 segments in a row (or column) carrying different fitted tilts, imaged with small per-segment propagation
    windows (prop_shape): chain / bridge overlap topologies of the windows in every stack order (oracle only)"""
    k = rng.randint(3, 4)
    sh, sw, gap = rng.randint(2, 3), rng.randint(2, 3), rng.randint(0, 1)
    nr, nc = sh + rng.randint(0, 2), k * (sw + gap) + rng.randint(0, 2)
    r0 = rng.randint(0, nr - sh)
    order = list(range(k))
    rng.shuffle(order)                          # stack order of the segments: every permutation
    segs = [[r0, r0 + sh, pos * (sw + gap), pos * (sw + gap) + sw] for pos in order]
    T = rng.randint(3, 9)
    pattern = rng.choice([[-T, T, 0], [0, T, 2 * T], [-T, 0, T], [T, -T, 0], ['r', 'r', 'r']])
    tl = [rng.choice([0, 0, 3, -4, 6.5, -7.25, 10, -12, 2.5]) if v == 'r' else v for v in pattern]
    while len(tl) < k:
        tl.append(rng.choice([0, T, -T, 2.5, -T - 0.5]))
    rng.shuffle(tl)                             # which segment bridges, and where it sits in the stack
    tilts = [[str(rng.choice([0, 0, 0, 2, -3.5])), str(v)] for v in tl]
    transpose = rng.random() < 0.3
    os_ = rng.choice([1, 1, 2])
    P = rng.randint(max(nr, nc, 2 * T + 6), 40)
    npix = -(-P // os_)
    amp = [[rng.choice([1, 1, 0.5, 2, 1.5]) for _ in range(nc)] for _ in range(nr)]
    props = sorted({max(2, T // 2), T + rng.randint(1, 3), 2 * T + rng.randint(1, 4)})
    props = [-(-v // os_) for v in props]       # detector pixels
    shape = [rng.randint(max(1, min(4, npix)), npix), rng.randint(max(1, npix // 2), npix)]
    c = {'op': 'segtilt', 'npix': [npix, npix], 'os': os_, 'aniso': 'none',
         'dexp': rng.choice([6, 7, 8]), 'uexp': rng.choice([16, 17, 18]), 'z': rng.choice(['1', '2', '1/2']),
         'grid': [nr, nc], 'segs': segs, 'tilts': tilts, 'amp': amp, 'shape': shape, 'props': props,
         'transpose': transpose}
    return c


def generate(rng, tier):
    n_cases = 110 if tier == 'quick' else 1500
    for _ in range(25 if tier == 'quick' else 250):
        yield gen_planehist(rng)
    for k in range(16 if tier == 'quick' else 160):
        yield gen_norm(rng, tier, kind=['zero', 'negative', 'both', 'fine'][k % 4])
    out = 0
    while out < (30 if tier == 'quick' else 300):
        c = gen_segtilt(rng)
        if not alpha_ok(c):
            continue
        if rng.random() < 0.2:
            c['ampscale'] = rng.choice(AMPSCALES)
        out += 1
        yield c
    for k in range(12 if tier == 'quick' else 120):
        yield gen_tight(rng, ['below', 'below', 'exact', 'above'][k % 4])
    out = 0
    while out < (3 if tier == 'quick' else 25):          # exhaustive masked windows on a small output plane
        c = gen_prop(rng, tier)
        if c['npix'][0] * c['os'] > 7 or c['npix'][1] * c['os'] > 7 or case_L(c) > MAXL or not alpha_ok(c):
            continue
        out += 1
        yield add_masks(rng, c, exhaustive=True)
    out = 0
    while out < (25 if tier == 'quick' else 300):        # chains of nested, off-centre masked windows
        c = gen_prop(rng, tier)
        if case_L(c) > MAXL or not alpha_ok(c):
            continue
        out += 1
        yield add_masks(rng, c)
    out = 0
    while out < (4 if tier == 'quick' else 40):
        c = gen_big(rng)
        if not alpha_ok(c):
            continue
        out += 1
        yield c
    n_hist = 40 if tier == 'quick' else 500
    out = 0
    while out < n_hist:
        c = gen_hist(rng, tier)
        if not hist_ok(c):
            continue
        out += 1
        yield c
    n_dh = 30 if tier == 'quick' else 300
    out = 0
    while out < n_dh:            # nested windows - shifted / masked / tilted calls on the same shapes - nested windows again
        c = gen_prop(rng, tier)
        if case_L(c) > MAXL or not alpha_ok(c):
            continue
        out += 1
        yield add_between(rng, c)
    out = 0
    while out < n_cases:
        if rng.random() < 0.8:
            c = gen_prop(rng, tier)
            if case_L(c) > MAXL or not alpha_ok(c):
                continue
        else:
            c = gen_norm(rng, tier)
        out += 1
        yield c


def classify(c):
    if c['op'] == 'planehist':
        return 'planehist/' + '-'.join(st['do'] for st in c['steps'] if st['do'] != 'mul')
    if c['op'] == 'segtilt':
        return 'segtilt/%dseg/os%d' % (len(c['segs']), c['os'])
    if c['op'] == 'tight':
        return 'tight/os%d/%s' % (c['os'], '-'.join(tight_side(c)))
    if c.get('masks'):
        return 'prop/masked-windows/os%d/%s%s' % (c['os'], c['aniso'], '/segmented' if c.get('seg') else '')
    if c.get('big'):
        return 'prop/large/os%d/%s' % (c['os'], c['aniso'])
    if c['op'] == 'ffthist':
        r, q = c['npix']
        return 'ffthist/%s/%s' % ('wide' if q > r else 'tall' if q < r else 'square', 'dirty' if c['dirty'] else 'clean')
    if c['op'] == 'prop':
        return 'prop/os%d/%s/%s%s' % (c['os'], c['aniso'], 'norm' if c.get('power') else 'raw',
                                      '/history' if c.get('between') else '') + ('/segmented' if c.get('seg') else '') \
            + ('/scaled' if c.get('ampscale') else '') + ('/' + c['container'] if c.get('container') else '') \
            + ('/relay' if c.get('relay') else '') + ('/' + c['intdtype'] if c.get('intdtype') else '')
    return c['op'] + ('/' + c['dtype'] if c.get('dtype') else '') + ('/finite?' + c['checked'] if c.get('checked') else '')


def nontrivial(c):
    if c['op'] == 'planehist':
        return True
    if c['op'] == 'segtilt':
        return True
    if c['op'] == 'tight':
        return True
    if c.get('big'):
        return True
    if c['op'] == 'ffthist':
        return len(c['calls']) >= 2
    if c['op'] == 'normalize':
        return len(c['a']) * len(c['a'][0]) > 1
    m, n = len(c['amp']), len(c['amp'][0])
    if m * n <= 1:
        return False
    border = (not any(c['amp'][0]) or not any(c['amp'][-1]) or not any(r[0] for r in c['amp'])
              or not any(r[-1] for r in c['amp']))
    return c['npix'][0] != c['npix'][1] or c['os'] > 1 or bool(c.get('power')) or border


# ------------------------------------------------------------------ model side
def amp_total(c):
    return sum(Fraction(v) ** 2 for row in c['amp'] for v in row)


def supplied_root(q):
    """the float square root of the exact ratio q, as an exact rational"""
    return Fraction(math.sqrt(float(q)))


def encode(c):
    if c['op'] == 'planehist':
        return None          # a history on one object: every step is decided by the energy oracle
    if c['op'] == 'segtilt':
        return None          # per-segment tilted windows: decided by the energy oracle
    if c['op'] == 'tight':
        return None          # non-dyadic physical values, pupils up to 40x40: decided by the energy oracle
    if c.get('big'):
        return None          # too large for the exact group ring: decided by the energy oracle
    if c['op'] == 'prop':
        L = case_L(c)
        m, n = len(c['amp']), len(c['amp'][0])
        out = [1, L, m, n]
        for row in c['amp']:
            for v in row:
                out += C.enc_c((Fraction(v), Fraction(0)))
        out += [m * n]
        for row in c['ph']:
            for k in row:
                out += C.enc_q(Fraction(k, c['phden']))
        os_ = c['os']
        out += [c['npix'][0] * os_, c['npix'][1] * os_]
        if c.get('power'):
            p = Fraction(c['power'])
            out += [1] + C.enc_q(p) + C.enc_q(supplied_root(p / amp_total(c)))
        else:
            out += [0]
        out += [len(c['wins'])]
        for w in c['wins']:
            out += [w[0] * os_, w[1] * os_]
        return out
    if c['op'] == 'normalize':
        a = c['a']
        out = [3 if c.get('checked') else 2, 1, len(a), len(a[0])]
        tot = Fraction(0)
        for row in a:
            for v in row:
                out += C.enc_c((Fraction(v[0]), Fraction(v[1])))
                tot += Fraction(v[0]) ** 2 + Fraction(v[1]) ** 2
        p = Fraction(c['power'])
        if c.get('checked'):
            root = supplied_root(p / tot) if tot > 0 and p >= 0 else Fraction(1)
            return out + C.enc_q(p) + C.enc_q(root)
        return out + C.enc_q(p) + C.enc_q(supplied_root(p / tot))
    return None


def root_valid(s, q):
    return abs(s * s - q) <= q * Fraction(1, 2 ** 48)


def decode(c, ints):
    if c['op'] == 'prop':
        L = case_L(c)
        rd = C.Reader(ints, L)
        st = rd.z()
        if st != 0:
            return {'err': 'model status %d' % st}
        ratio = rd.k()
        pw = rd.k()
        wins = rd.lst(rd.k)
        os_ = c['os']
        scale = 1.0 / (c['npix'][0] * os_ * c['npix'][1] * os_)       # |alpha_r alpha_c|: the unitary factor squared
        res = {'pin': C.kval(pw, L).real, 'E': [C.kval(w, L).real * scale for w in wins],
               'imag': max([abs(C.kval(w, L).imag) for w in wins] + [abs(C.kval(pw, L).imag)])}
        if c.get('power'):
            q = ratio[0][0]
            s = supplied_root(Fraction(c['power']) / amp_total(c))
            res['root_ok'] = bool(root_valid(s, q) and all(co == (0, 0) for co in ratio[1:]) and ratio[0][1] == 0)
        return res
    if c['op'] == 'normalize' and c.get('checked'):
        rd = C.Reader(ints, 1)
        st = rd.z()
        if st != 0:
            return {'err': 'model status %d' % st}
        if rd.z() == 0:
            return {'finite': False}
        arr = rd.arr()
        return {'finite': True, 'arr': [[complex(float(v[0][0]), float(v[0][1])) for v in row] for row in arr]}
    if c['op'] == 'normalize':
        rd = C.Reader(ints, 1)
        st = rd.z()
        if st != 0:
            return {'err': 'model status %d' % st}
        ratio = rd.k()
        arr = rd.arr()
        tot = sum(Fraction(v[0]) ** 2 + Fraction(v[1]) ** 2 for row in c['a'] for v in row)
        s = supplied_root(Fraction(c['power']) / tot)
        return {'arr': [[complex(float(v[0][0]), float(v[0][1])) for v in row] for row in arr],
                'root_ok': bool(root_valid(s, ratio[0][0]) and ratio[0][1] == 0)}


# ------------------------------------------------------------------ implementation side (public API only)
def run_tight(lentil, c):
    wl, z, dx, du = tight_params(c)
    m, n = c['shape']
    os_ = c['os']
    g = np.random.default_rng(c['seed'])
    amp = g.uniform(0.5, 1.5, size=(m, n))
    opd = g.uniform(-0.25, 0.25, size=(m, n)) * wl

    def wavefront():
        return lentil.Wavefront(wl) * lentil.Pupil(amplitude=amp, opd=opd, pixelscale=dx, focal_length=z)

    pin = float(np.sum(np.abs(amp * np.exp(2j * np.pi * opd / wl)) ** 2))
    w = wavefront()
    res = {'pin_amp': pin, 'pin_field': float(np.sum(np.abs(w.field) ** 2))}
    wf = lentil.propagate_fft(w, pixelscale=du, oversample=os_)                  # shape=None: the whole period
    res['fft'] = float(np.sum(wf.intensity))
    res['fft_grid'] = [int(v) for v in wf.intensity.shape]
    wd = lentil.propagate_dft(wavefront(), pixelscale=du, shape=(m, n), oversample=os_)
    res['dft'] = float(np.sum(wd.intensity))
    res['dft_grid'] = [int(v) for v in wd.intensity.shape]
    res['min'] = float(min(np.min(wf.intensity), np.min(wd.intensity)))
    return res


def oracle_tight(c, impl):
    m, n = c['shape']
    os_ = c['os']
    pin = impl['pin_amp']
    where = (f'{m}x{n} pupil, wavelength {c["wl"]}, z {c["z"]}, D {c["D"]}, oversample {os_}: one period is exactly '
             f'{m * os_}x{n * os_} output samples (float quotient {"/".join(tight_side(c))} the integer)')
    if not close(pin, impl['pin_field'], 1e-12):
        return f'{where}: sum|Wavefront.field|^2 = {impl["pin_field"]!r}, sum|amplitude*phasor|^2 = {pin!r}'
    if impl['min'] < 0:
        return f'{where}: negative intensity sample {impl["min"]!r}'
    if impl['fft_grid'][0] < m or impl['fft_grid'][1] < n:
        return (f'{where}: propagate_fft used a grid of {impl["fft_grid"]} samples, smaller than the pupil - the field is '
                f'cropped (total {impl["fft"]!r}, input power {pin!r})')
    if not close(impl['fft'], pin):
        return f'{where}: propagate_fft total {impl["fft"]!r} (grid {impl["fft_grid"]}) differs from the input power {pin!r}'
    if impl['dft_grid'] != [m * os_, n * os_]:
        return f'{where}: propagate_dft output shape {impl["dft_grid"]}'
    if not close(impl['dft'], pin):
        return f'{where}: propagate_dft total over one period {impl["dft"]!r} differs from the input power {pin!r}'
    return None


def run_masks(lentil, c, wavefront, fdu, os_):
    full_shape = (int(c['npix'][0]), int(c['npix'][1]))
    full = lentil.propagate_dft(wavefront(), pixelscale=fdu, shape=full_shape, oversample=os_).intensity
    out = {'full': float(np.sum(full)), 'E': [], 'restricted': [], 'maxdiff': [], 'min': float(np.min(full))}
    for r0, r1, c0, c1 in c['masks']:
        mask = np.zeros(full.shape)
        mask[r0:r1 + 1, c0:c1 + 1] = 1
        img = lentil.propagate_dft(wavefront(), pixelscale=fdu, shape=full_shape, oversample=os_, mask=mask).intensity
        out['E'].append(float(np.sum(img)))
        out['restricted'].append(float(np.sum(full * mask)))
        out['maxdiff'].append(float(np.max(np.abs(img - full * mask))) if img.shape == full.shape else None)
        out['min'] = min(out['min'], float(np.min(img)))
    return out


def oracle_masks(c, r, pin):
    if r['min'] < 0:
        return f'masked windows: negative intensity sample {r["min"]!r}'
    if not close(r['full'], pin):
        return f'masked windows: the unmasked full-period image totals {r["full"]!r}, input power {pin!r}'
    tol = TOL * pin
    rects = c['masks']
    for k, rc in enumerate(rects):
        e = r['E'][k]
        if r['maxdiff'][k] is None or r['maxdiff'][k] > tol:
            return (f'window rows {rc[0]}..{rc[1]} cols {rc[2]}..{rc[3]} (mask=) is not the full-period image restricted to '
                    f'the mask: max difference {r["maxdiff"][k]!r}, captured {e!r}, restriction holds {r["restricted"][k]!r}')
        if e < -tol or e > pin + tol:
            return f'window rows {rc[0]}..{rc[1]} cols {rc[2]}..{rc[3]} captures {e!r}, input power {pin!r}'
    for i, a in enumerate(rects):
        for j, b in enumerate(rects):
            if i != j and b[0] <= a[0] and a[1] <= b[1] and b[2] <= a[2] and a[3] <= b[3] and r['E'][i] > r['E'][j] + tol:
                return (f'window rows {b[0]}..{b[1]} cols {b[2]}..{b[3]} captures {r["E"][j]!r}, less than the window '
                        f'rows {a[0]}..{a[1]} cols {a[2]}..{a[3]} it contains ({r["E"][i]!r})')
    return None


def run_segtilt(lentil, c):
    dx, du, z, lam = sampling(c)
    fdx, fdu, z, lam = (float(dx[0]), float(dx[1])), (float(du[0]), float(du[1])), float(z), float(lam)
    os_ = c['os']
    nr, nc = c['grid']
    amp = np.array(c['amp'], dtype=float) * (float(c['ampscale']) if c.get('ampscale') else 1.0)
    mask = np.zeros((len(c['segs']), nr, nc))
    for j, (r0, r1, c0, c1) in enumerate(c['segs']):
        mask[j, r0:r1, c0:c1] = 1
    rr = (np.arange(nr) - nr // 2) * fdx[0]
    cc = (np.arange(nc) - nc // 2) * fdx[1]
    opd = np.zeros((nr, nc))
    for m_, (tr, tc) in zip(mask, c['tilts']):       # a linear OPD ramp per segment: tr / tc output samples of image motion
        opd += m_ * ((float(Fraction(tr)) * fdu[0] / (os_ * z)) * rr[:, None] + (float(Fraction(tc)) * fdu[1] / (os_ * z)) * cc[None, :])
    shape = tuple(c['shape'])
    if c.get('transpose'):
        amp, mask, opd, shape = amp.T, mask.transpose(0, 2, 1), opd.T, shape[::-1]
    pupil = lentil.Pupil(amplitude=amp, opd=opd, mask=mask, pixelscale=fdx, focal_length=z)
    pupil.fit_tilt(inplace=True)
    w = lentil.Wavefront(lam) * pupil
    pin = float(np.sum(np.abs(amp * mask.sum(axis=0)) ** 2))
    res = {'pin_amp': pin, 'pin_field': float(np.sum(np.abs(w.field) ** 2)), 'n_fields': len(w.data),
           'n_tilted': sum(1 for f in w.data if f.tilt), 'E': [], 'Efield': [], 'min': 0.0, 'offsets': []}
    for ps in c['props']:
        o = lentil.propagate_dft(w, pixelscale=fdu, shape=shape, prop_shape=ps, oversample=os_)
        img = o.intensity
        res['E'].append(float(np.sum(img)))
        res['Efield'].append(float(np.sum(np.abs(o.field) ** 2)))      # the power of the complex image field
        res['min'] = min(res['min'], float(np.min(img)))
        res['offsets'].append([[int(v) for v in f.offset] for f in o.data])
    return res


def oracle_segtilt(c, impl):
    pin = impl['pin_amp']
    where = (f'{len(c["segs"])} segments (stack order {[s[2] for s in c["segs"]]} by first column) with fitted tilts '
             f'{c["tilts"]} output samples, shape {c["shape"]}, oversample {c["os"]}')
    if not close(pin, impl['pin_field'], 1e-12):
        return f'{where}: sum|Wavefront.field|^2 = {impl["pin_field"]!r}, sum|amplitude*mask*phasor|^2 = {pin!r}'
    if impl['n_fields'] != len(c['segs']):
        return f'{where}: the pupil-plane wavefront has {impl["n_fields"]} fields'
    if impl['min'] < 0:
        return f'{where}: negative intensity sample {impl["min"]!r}'
    for ps, e, ef, off in zip(c['props'], impl['E'], impl['Efield'], impl['offsets']):
        if e < 0 or e > pin * (1 + TOL):
            return (f'{where}, prop_shape {ps}: the image holds {e!r}, more than the input power {pin!r} '
                    f'(per-segment windows at offsets {off})')
        if abs(e - ef) > TOL * pin:
            return (f'{where}, prop_shape {ps}: total intensity {e!r} differs from the power of the complex image field '
                    f'sum|Wavefront.field|^2 = {ef!r} (per-segment windows at offsets {off}; input power {pin!r})')
    return None


class MetaArray(np.ndarray):
    """an ndarray subclass that carries metadata"""
    def __array_finalize__(self, obj):
        self.info = getattr(obj, 'info', None)


def in_container(a, cont):
    if cont == 'matrix':
        return np.matrix(a)
    if cont == 'masked':
        return np.ma.MaskedArray(a, mask=np.zeros(a.shape, dtype=bool))
    if cont == 'subclass':
        b = a.view(MetaArray)
        b.info = {'unit': 'sqrt(W)'}
        return b
    if cont == 'fortran':
        return np.asfortranarray(a)
    return a


def div_energy(x, s2):
    """divide every energy-like float of a result by the squared amplitude scale (integers are shapes / counts)"""
    if isinstance(x, float):
        return x / s2
    if isinstance(x, list):
        return [div_energy(v, s2) for v in x]
    if isinstance(x, dict):
        return {k: div_energy(v, s2) for k, v in x.items()}
    return x


def full_totals(lentil, c, w, fdu, os_, fft=True):
    full = (int(c['npix'][0]), int(c['npix'][1]))
    i1 = lentil.propagate_dft(w, pixelscale=fdu, shape=full, oversample=os_).intensity
    i3 = lentil.propagate_fft(w, pixelscale=fdu, shape=full, oversample=os_).intensity if fft else i1   # the FFT path refuses tilt
    return {'dft': float(np.sum(i1)), 'fft': float(np.sum(i3)), 'min': float(min(np.min(i1), np.min(i3)))}


def run_planehist(lentil, c, fdx, fdu, z, lam, os_):
    amp0 = np.array(c['amp'], dtype=float)
    opd0 = lam * np.array(c['ph'], dtype=float) / c['phden']
    kw = {'mask': mask_cube(c['seg'])} if c.get('seg') else {}
    pupil = lentil.Pupil(amplitude=amp0, opd=opd0, pixelscale=fdx, focal_length=z, **kw)
    cover = mask_cube(c['seg']).sum(axis=0) if c.get('seg') else (amp0 != 0)
    out = []
    w = None
    for st in c['steps']:
        r = {'do': st['do']}
        if st['do'] == 'mul':
            w = lentil.Wavefront(lam) * pupil
            r['expected'] = float(np.sum(np.abs(np.asarray(pupil.amplitude) * cover) ** 2))     # from the arrays held NOW
            r['pin_field'] = float(np.sum(np.abs(w.field) ** 2))
            r.update(full_totals(lentil, c, w, fdu, os_))
        elif st['do'] == 'scale_inplace':
            pupil.amplitude[...] *= float(Fraction(st['k']))
        elif st['do'] == 'norm_inplace':
            pupil.amplitude[...] = lentil.normalize_power(pupil.amplitude * cover, float(Fraction(st['p'])))
        elif st['do'] == 'setter':
            pupil.amplitude = np.asarray(pupil.amplitude) * float(Fraction(st['k']))
        elif st['do'] == 'opd_inplace':
            pupil.opd[...] += lam / 8 * ((np.arange(pupil.opd.shape[0])[:, None] + 2 * np.arange(pupil.opd.shape[1])[None, :]) % 8)
        elif st['do'] in ('branch_tilt', 'tilt_twice'):
            tx = float(Fraction(st['fx'])) * fdu[0] / (z * os_)
            ty = float(Fraction(st['fy'])) * fdu[1] / (z * os_)
            before = full_totals(lentil, c, w, fdu, os_)
            t = lentil.Tilt(x=tx, y=ty)
            wt = w * t
            if st['do'] == 'tilt_twice':
                wt = wt * t                     # the same Tilt object applied twice
            r['tilted'] = full_totals(lentil, c, wt, fdu, os_, fft=False)['dft']
            after = full_totals(lentil, c, w, fdu, os_)          # the shared, untilted wavefront reused afterwards
            r['before'], r['after'] = before, after
            r['expected'] = float(np.sum(np.abs(np.asarray(pupil.amplitude) * cover) ** 2))
        out.append(r)
    return {'steps': out}


def oracle_planehist(c, impl):
    for k, (st, r) in enumerate(zip(c['steps'], impl['steps'])):
        hist = [s_['do'] + (':' + s_.get('k', s_.get('p', '')) if s_.get('k') or s_.get('p') else '') for s_ in c['steps'][:k]]
        where = f'step {k + 1} ({st["do"]}) on one Pupil object after {hist}'
        if st['do'] == 'mul':
            e = r['expected']
            if not close(r['pin_field'], e, 1e-12):
                return (f'{where}: the wavefront carries sum|field|^2 = {r["pin_field"]!r}, the arrays the pupil holds now '
                        f'have sum|amplitude*mask|^2 = {e!r}')
            if r['min'] < 0:
                return f'{where}: negative intensity sample {r["min"]!r}'
            for name in ('dft', 'fft'):
                if not close(r[name], e):
                    return f'{where}: {name} total over one full period {r[name]!r} differs from the input power {e!r}'
        elif st['do'] in ('branch_tilt', 'tilt_twice'):
            e = r['expected']
            if r['tilted'] < 0 or r['tilted'] > e * (1 + TOL) or not close(r['tilted'], e):
                return f'{where}: the sub-pixel tilted wavefront images to {r["tilted"]!r} over one full period, input power {e!r}'
            for name in ('dft', 'fft'):
                if not close(r['before'][name], r['after'][name]) or not close(r['after'][name], e):
                    return (f'{where}: the untilted wavefront imaged to {r["before"][name]!r} before and {r["after"][name]!r} '
                            f'after it was branched through a Tilt ({name} path, input power {e!r})')
    return None


def run_impl(c):
    """every case runs under one of the caller-side numpy error states (default / raise / ignore), chosen from the case's
    content, with numeric warnings turned into errors; the library must neither depend on it nor change it (the calls
    whose result is deliberately not finite keep the default state)"""
    import warnings
    mode = ['default', 'raise', 'ignore'][int(C.case_hash({k: v for k, v in c.items() if not k.startswith('_')})[:2], 16) % 3]
    if c.get('checked'):
        mode = 'default'
    before = np.geterr()
    with warnings.catch_warnings():
        if mode != 'default':
            warnings.simplefilter('error', RuntimeWarning)
            warnings.simplefilter('error', np.ComplexWarning)
        with (np.errstate(over=mode, invalid=mode, divide=mode) if mode != 'default' else np.errstate()):
            inside = np.geterr()
            res = run_impl_inner(c)
            changed = np.geterr() != inside
    if isinstance(res, dict):
        if changed or np.geterr() != before:
            res['errstate_changed'] = True
        res['errmode'] = mode
    return res


def run_impl_inner(c):
    lentil = C.import_lentil()
    fresh_state(lentil)
    if c['op'] == 'segtilt':
        try:
            r = run_segtilt(lentil, c)
            return div_energy(r, float(c['ampscale']) ** 2) if c.get('ampscale') else r
        except Exception as e:
            return {'err': type(e).__name__, 'msg': str(e)[:200]}
    if c['op'] == 'tight':
        try:
            return run_tight(lentil, c)
        except Exception as e:
            return {'err': type(e).__name__, 'msg': str(e)[:200]}
    c = expand_big(c)
    try:
        if c['op'] == 'normalize':
            if c.get('dtype'):
                a = np.array([[v[0] for v in row] for row in c['a']]).astype(getattr(np, c['dtype'] + ('_' if c['dtype'] == 'bool' else '')))
            else:
                a = np.array([[complex(v[0], v[1]) for v in row] for row in c['a']], dtype=complex)
            if c.get('checked'):
                import warnings
                with warnings.catch_warnings():
                    warnings.simplefilter('ignore')
                    with np.errstate(all='ignore'):
                        b = np.asarray(lentil.normalize_power(a, float(Fraction(c['power']))))
                fin = bool(np.all(np.isfinite(b)))
                return {'finite': fin, 'arr': b.tolist() if fin else None,
                        'power': float(np.sum(np.abs(b) ** 2)) if fin else None}
            b = lentil.normalize_power(a, float(Fraction(c['power'])))
            return {'arr': np.asarray(b).tolist(), 'power': float(np.sum(np.abs(np.asarray(b)) ** 2))}
        dx, du, z, lam = sampling(c)
        fdx = (float(dx[0]), float(dx[1]))
        fdu = (float(du[0]), float(du[1]))
        lam = float(lam)
        os_ = c['os']
        if c['op'] == 'ffthist':
            r = run_hist(lentil, c, fdx, fdu, float(z), lam, os_)
            return div_energy(r, float(c['ampscale']) ** 2) if c.get('ampscale') else r
        if c['op'] == 'planehist':
            return run_planehist(lentil, c, fdx, fdu, float(z), lam, os_)
        amp = np.array(c['amp'], dtype=float)
        if c.get('power'):
            amp = lentil.normalize_power(amp, float(Fraction(c['power'])))
        s_amp = float(c['ampscale']) if c.get('ampscale') else 1.0
        if s_amp != 1.0:
            amp = amp * s_amp
        amp_given = in_container(amp, c.get('container'))
        amp_keep = np.array(amp, copy=True)
        opd = lam * np.array(c['ph'], dtype=float) / c['phden']

        def wavefront(tilt=None, via='plane'):
            if c.get('seg'):
                pupil = lentil.Pupil(amplitude=amp_given, opd=opd, mask=mask_cube(c['seg']), pixelscale=fdx, focal_length=float(z))
            else:
                pupil = lentil.Pupil(amplitude=amp_given, opd=opd, pixelscale=fdx, focal_length=float(z))
            if tilt is not None and via == 'wavefront':
                return lentil.Wavefront(lam, tilt=list(tilt)) * pupil
            w_ = lentil.Wavefront(lam) * pupil
            if tilt is not None:
                w_ = w_ * lentil.Tilt(x=tilt[0], y=tilt[1])
            return w_

        w = wavefront()
        cover = mask_cube(c['seg']).sum(axis=0) if c.get('seg') else (amp != 0)
        field_in = amp * cover * np.exp(2j * np.pi * opd / lam)
        res = {'pin_amp': float(np.sum(np.abs(field_in) ** 2)), 'pin_field': float(np.sum(np.abs(w.field) ** 2)),
               'pin_intensity': float(np.sum(w.intensity))}
        res.update(window_energies(lentil, c, w, fdu, os_))
        if c.get('masks'):
            res['masks'] = run_masks(lentil, c, wavefront, fdu, os_)
        if c.get('between'):
            res['between'] = [run_between(lentil, c, b, wavefront, fdu, float(z), os_) for b in c['between']]
            res['after'] = window_energies(lentil, c, wavefront(), fdu, os_)
        if c.get('relay'):
            P = (int(c['npix'][0]) * os_, int(c['npix'][1]) * os_)
            wi = lentil.propagate_dft(wavefront(), pixelscale=fdu, shape=tuple(c['npix']), oversample=os_)
            back = lentil.propagate_dft(wi, pixelscale=fdx, shape=P, oversample=1).intensity
            res['relay'] = {'total': float(np.sum(back)), 'min': float(np.min(back)), 'shape': [int(v) for v in back.shape]}
        if not np.array_equal(amp_keep, np.asarray(amp_given)):
            res['input_modified'] = True
        return div_energy(res, s_amp ** 2) if s_amp != 1.0 else res
    except Exception as e:
        return {'err': type(e).__name__, 'msg': str(e)[:200]}


def fresh_state(lentil):
    """every case starts as if it were the first call of the process: memoised helpers of the library are emptied
    (state carried between calls is exercised deliberately, inside the history cases)"""
    import sys
    for name, mod in list(sys.modules.items()):
        if name == 'lentil' or name.startswith('lentil.'):
            for v in list(vars(mod).values()):
                cc = getattr(v, 'cache_clear', None)
                if callable(cc):
                    try:
                        cc()
                    except Exception:
                        pass
            for k, v in list(vars(mod).items()):          # module-level memo tables
                if isinstance(v, dict) and 'cache' in k.lower():
                    v.clear()


def int_args(c, s, os_):
    """shape / prop_shape / oversample as plain ints or as small-width numpy integers (the arithmetic must not wrap)"""
    dt = c.get('intdtype')
    if not dt:
        return s, tuple(c['npix']), os_
    t = getattr(np, dt)
    return np.array(s).astype(t), np.array(c['npix']).astype(t), t(os_)


def window_energies(lentil, c, w, fdu, os_):
    res = {'dft': [], 'dft_prop': [], 'fft': [], 'shapes': [], 'min': 0.0}
    mn = 0.0
    held = []
    for s in c['wins']:
        s = (int(s[0]), int(s[1]))
        s_arg, full_arg, os_arg = int_args(c, s, os_)
        i1 = lentil.propagate_dft(w, pixelscale=fdu, shape=s_arg, oversample=os_arg).intensity
        i2 = lentil.propagate_dft(w, pixelscale=fdu, shape=full_arg, prop_shape=s_arg, oversample=os_arg).intensity
        i3 = lentil.propagate_fft(w, pixelscale=fdu, shape=s_arg, oversample=os_arg).intensity
        held += [(i1, np.array(i1, copy=True)), (i2, np.array(i2, copy=True)), (i3, np.array(i3, copy=True))]
        res['dft'].append(float(np.sum(i1)))
        res['dft_prop'].append(float(np.sum(i2)))
        res['fft'].append(float(np.sum(i3)))
        res['shapes'].append([list(i1.shape), list(i2.shape), list(i3.shape)])
        mn = min(mn, float(np.min(i1)), float(np.min(i2)), float(np.min(i3)))
    res['min'] = mn
    if any(not np.array_equal(a, snap) for a, snap in held):   # an image must not be a view of memory a later call writes to
        res['held_changed'] = True
    return res


def run_between(lentil, c, b, wavefront, fdu, z, os_):
    """one disturbing call (possibly repeated); returns totals and minima of what it produced"""
    s = (int(c['wins'][b['win']][0]), int(c['wins'][b['win']][1]))
    full = (int(c['npix'][0]), int(c['npix'][1]))
    tot, mn = [], 0.0
    if b['kind'] == 'tilt':
        # angles giving fx / fy output samples of image motion
        # (Tilt(x=a, y=b) moves the image by z*a/du_row*os rows and -z*b/du_col*os columns)
        tx = float(Fraction(b['fx'])) * fdu[0] / (z * os_)
        ty = float(Fraction(b['fy'])) * fdu[1] / (z * os_)
        for _ in range(b['repeat']):
            img = lentil.propagate_dft(wavefront((tx, ty), b['via']), pixelscale=fdu, shape=s, oversample=os_).intensity
            tot.append(float(np.sum(img)))
            mn = min(mn, float(np.min(img)))
    elif b['kind'] == 'mask':
        mask = np.zeros((full[0] * os_, full[1] * os_))
        mask[b['r0']:b['r0'] + s[0] * os_, b['c0']:b['c0'] + s[1] * os_] = 1
        img = lentil.propagate_dft(wavefront(), pixelscale=fdu, shape=full, oversample=os_, mask=mask).intensity
        tot.append(float(np.sum(img)))
        mn = min(mn, float(np.min(img)))
    else:
        w = wavefront()
        alpha = (1.0 / (full[0] * os_), 1.0 / (full[1] * os_))
        for _ in range(b['repeat']):
            t = 0.0
            for fld in w.data:
                F = lentil.fourier.dft2(fld.data, alpha, shape=(s[0] * os_, s[1] * os_),
                                        shift=(float(Fraction(b['shr'])), float(Fraction(b['shc']))),
                                        offset=fld.offset, unitary=True)
                t += float(np.sum(np.abs(F) ** 2))
            tot.append(t)
    return {'totals': tot, 'min': mn}


def run_hist(lentil, c, fdx, fdu, z, lam0, os_):
    lams = [lam0 * float(Fraction(cl['lamfac'])) for cl in c['calls']]
    shp = lentil.scratch_shape(max(lams), fdx, fdu, z, os_)
    shp = (int(shp[0]) + c['extra'][0], int(shp[1]) + c['extra'][1])
    if c['dirty']:
        g = np.random.default_rng(12345)
        scratch = (g.normal(size=shp) + 1j * g.normal(size=shp)).astype(complex)
    else:
        scratch = np.zeros(shp, dtype=complex)
    res = {'scratch_shape': list(shp), 'calls': []}

    def wavefront(cl, lam):
        kw = {'mask': mask_cube(cl['seg'])} if cl.get('seg') else {}
        pupil = lentil.Pupil(amplitude=np.array(cl['amp'], dtype=float) * (float(c['ampscale']) if c.get('ampscale') else 1.0),
                             opd=lam * np.array(cl['ph'], dtype=float) / cl['phden'],
                             pixelscale=fdx, focal_length=z, **kw)
        return lentil.Wavefront(lam) * pupil

    for cl, lam in zip(c['calls'], lams):
        w = wavefront(cl, lam)
        pin = float(np.sum(np.abs(w.field) ** 2))
        ref = lentil.propagate_fft(wavefront(cl, lam), pixelscale=fdu, oversample=os_).intensity
        out = lentil.propagate_fft(w, pixelscale=fdu, oversample=os_, scratch=scratch).intensity
        r = {'pin': pin, 'pin_amp': float(np.sum((np.array(cl['amp'], dtype=float) * (float(c['ampscale']) if c.get('ampscale') else 1.0)) ** 2)),
             'ref': float(np.sum(ref)), 'out': float(np.sum(out)),
             'shape_ref': list(ref.shape), 'shape_out': list(out.shape),
             'min': float(min(np.min(ref), np.min(out)))}
        r['maxdiff'] = float(np.max(np.abs(ref - out))) if ref.shape == out.shape else None
        res['calls'].append(r)
    return res


def oracle_hist(c, impl):
    os_ = c['os']
    for k, (cl, r) in enumerate(zip(c['calls'], impl['calls'])):
        pin = r['pin_amp']           # the input power computed from the pupil ARRAYS, not from Wavefront.field
        grid = [int(c['npix'][0] * os_ * Fraction(cl['lamfac'])), int(c['npix'][1] * os_ * Fraction(cl['lamfac']))]
        where = f'propagate_fft call {k + 1} of {len(c["calls"])} (grid {grid[0]}x{grid[1]}, scratch {impl["scratch_shape"]}, ' \
                f'{"dirty" if c["dirty"] else "zeroed"} at the start)'
        if not close(pin, r['pin'], 1e-12):
            return f'{where}: pupil-plane power sum|Wavefront.field|^2 = {r["pin"]!r}, sum|amplitude*mask*phasor|^2 = {pin!r}'
        if r['shape_ref'] != grid or r['shape_out'] != grid:
            return f'{where}: output shapes {r["shape_ref"]} / {r["shape_out"]} instead of one period {grid}'
        if r['min'] < 0:
            return f'{where}: negative intensity sample {r["min"]!r}'
        if not close(r['ref'], pin):
            return f'{where}: without scratch the total intensity {r["ref"]!r} differs from the input power {pin!r}'
        if not close(r['out'], pin):
            return f'{where}: with the shared scratch buffer the total intensity {r["out"]!r} differs from the input power {pin!r}'
        if r['maxdiff'] is None or r['maxdiff'] > 1e-9 * pin:
            return f'{where}: the image differs from the scratch=None image by {r["maxdiff"]!r}'
    return None


def close(a, b, tol=TOL):
    return abs(a - b) <= tol * (1e-300 + max(abs(a), abs(b)))


def compare(c, impl, model):
    if 'err' in model:
        return 'model: ' + model['err']
    if 'err' in impl:
        return f'implementation raised {impl["err"]}, the model returned a value'
    if model.get('root_ok') is False:
        return 'harness: the supplied square root does not match the ratio power/sum|a|^2 computed by the model'
    if c['op'] == 'normalize' and c.get('checked'):
        if impl['finite'] != model['finite']:
            return (f'normalize_power: the implementation returned {"finite" if impl["finite"] else "inf/nan"} samples, '
                    f'the model says {"finite" if model["finite"] else "not finite"}')
        if not impl['finite']:
            return None
    if c['op'] == 'normalize':
        a = np.asarray(impl['arr'], dtype=complex)
        b = np.asarray(model['arr'], dtype=complex)
        if a.shape != b.shape:
            return f'normalize_power: shapes differ {a.shape} vs {b.shape}'
        d = float(np.max(np.abs(a - b)))
        if d > (1e-6 if c.get('dtype') == 'float32' else 1e-12) * (1 + float(np.max(np.abs(b)))):
            return f'normalize_power differs from array*sqrt(power/sum|array|^2): max difference {d:.3g}'
        return None
    if model['imag'] > 1e-9 * (1 + model['pin']):
        return 'harness: model energies are not real'
    if not close(impl['pin_field'], model['pin']):
        return f'input power sum|field|^2: implementation {impl["pin_field"]!r}, model {model["pin"]!r}'
    for phase, r in (('', impl), (' after the intermediate calls', impl.get('after'))):
        if r is None:
            continue
        for name in ('dft', 'dft_prop'):
            for k, (ei, em) in enumerate(zip(r[name], model['E'])):
                if abs(ei - em) > TOL * (abs(model['pin']) + 1e-300):
                    return (f'energy in window {c["wins"][k]} x oversample {c["os"]} ({name} path{phase}): '
                            f'implementation {ei!r}, model {em!r}')
    return None


# ------------------------------------------------------------------ direct oracle: energy predicates on the implementation
def oracle(c, impl):
    if impl.get('errstate_changed'):
        return 'the call changed the caller\'s numpy error state (np.geterr() before != after)'
    if impl.get('held_changed') or (isinstance(impl.get('after'), dict) and impl['after'].get('held_changed')):
        return 'an image returned by an earlier propagation was changed by a later one (the result is a view of shared memory)'
    if 'err' in impl:
        return f'{c["op"]} raised {impl["err"]}: {impl.get("msg", "")}'
    if c['op'] == 'ffthist':
        return oracle_hist(c, impl)
    if c['op'] == 'tight':
        return oracle_tight(c, impl)
    if c['op'] == 'segtilt':
        return oracle_segtilt(c, impl)
    if c['op'] == 'planehist':
        return oracle_planehist(c, impl)
    if c['op'] == 'normalize' and c.get('checked'):
        tot = sum(v[0] ** 2 + v[1] ** 2 for row in c['a'] for v in row)
        p = float(Fraction(c['power']))
        if tot > 0 and p >= 0:
            if not impl['finite']:
                return f'normalize_power(a, {p}) of an array with power {tot} is not finite'
            if abs(impl['power'] - p) > 1e-12 * (1 + p):
                return f'normalize_power(a, {p}) has power {impl["power"]!r}'
        return None                     # zero power / negative target: the property's premise does not hold
    if c['op'] == 'normalize':
        p = float(Fraction(c['power']))
        if abs(impl['power'] - p) > (1e-6 if c.get('dtype') == 'float32' else 1e-12) * (1 + p):
            return f'normalize_power(a, {p}) has power {impl["power"]!r}' + (f' (array dtype {c["dtype"]})' if c.get('dtype') else '')
        return None
    p = float(Fraction(c['power'])) if c.get('power') else None
    pin = impl['pin_amp']            # the input power computed from the pupil ARRAYS: sum|amplitude*mask*phasor|^2
    if p is not None and abs(impl['pin_amp'] - p) > 1e-12 * (1 + p):
        return f'normalize_power(amplitude, {p}) has power {impl["pin_amp"]!r}'
    if not close(pin, impl['pin_field'], 1e-12) or not close(pin, impl['pin_intensity'], 1e-12):
        return (f'pupil-plane power: sum|amplitude*mask*phasor|^2 = {pin!r}, sum|Wavefront.field|^2 = {impl["pin_field"]!r}, '
                f'sum intensity = {impl["pin_intensity"]!r}')
    if impl.get('input_modified'):
        return 'the amplitude array handed to Pupil was modified'
    msg = window_predicates(c, impl, pin, p, '')
    if msg:
        return msg
    if c.get('relay'):
        r = impl['relay']
        if r['min'] < 0 or not close(r['total'], pin):
            return (f'second leg (image plane back to a pupil plane over one period {r["shape"]}): total {r["total"]!r}, '
                    f'minimum {r["min"]!r}, input power {pin!r}')
    if c.get('masks'):
        msg = oracle_masks(c, impl['masks'], pin)
        if msg:
            return msg
    if c.get('between'):
        for b, r in zip(c['between'], impl['between']):
            what = f'intermediate call {b}'
            if r['min'] < 0:
                return f'{what}: negative intensity sample {r["min"]!r}'
            for t in r['totals']:
                if t < 0 or t > pin * (1 + TOL):
                    return f'{what}: a window inside one period captures {t!r}, input power {pin!r}'
                sub = all(abs(Fraction(b.get(k, '0'))) < 1 for k in ('fx', 'fy'))
                if b['win'] == 2 and (b['kind'] == 'dft2' or (b['kind'] == 'tilt' and sub)) and not close(t, pin):
                    return f'{what}: total over one full period {t!r} differs from the input power {pin!r}'
        msg = window_predicates(c, impl['after'], pin, p, ' (same calls repeated after the intermediate calls ' + str(c['between']) + ')')
        if msg:
            return msg
        for name in ('dft', 'dft_prop', 'fft'):
            for k, (ea, eb) in enumerate(zip(impl[name], impl['after'][name])):
                if abs(ea - eb) > TOL * pin:
                    return (f'{name} path: window {c["wins"][k]} captured {ea!r} when called first and {eb!r} when the same '
                            f'call was repeated after the intermediate calls {c["between"]}')
    return None


def window_predicates(c, impl, pin, p, where):
    if impl['min'] < 0:
        return f'negative intensity sample {impl["min"]!r}{where}'
    os_ = c['os']
    for k, sh in enumerate(impl['shapes']):
        exp = [[c['wins'][k][0] * os_, c['wins'][k][1] * os_], [c['npix'][0] * os_, c['npix'][1] * os_],
               [c['wins'][k][0] * os_, c['wins'][k][1] * os_]]
        if sh != exp:
            return f'output shapes {sh} instead of {exp}{where}'
    for name in ('dft', 'dft_prop', 'fft'):
        E = impl[name]
        if not close(E[-1], pin):
            return (f'{name} path: total intensity over one full period {E[-1]!r} differs from the input power {pin!r} '
                    f'(period {c["npix"][0] * os_}x{c["npix"][1] * os_}, oversample {os_}){where}')
        if p is not None and not close(E[-1], p):
            return f'{name} path: normalised amplitude with target {p} images to total {E[-1]!r}{where}'
        slack = 1e-12 * pin
        for k in range(len(E)):
            if E[k] < 0:
                return f'{name} path: negative energy {E[k]!r} in window {c["wins"][k]}{where}'
            if E[k] > pin * (1 + TOL):
                return f'{name} path: window {c["wins"][k]} captures {E[k]!r} > input power {pin!r}{where}'
            if k and E[k - 1] > E[k] + slack:
                return (f'{name} path: window {c["wins"][k - 1]} captures {E[k - 1]!r}, more than the window '
                        f'{c["wins"][k]} containing it ({E[k]!r}){where}')
    return None
