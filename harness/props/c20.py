"""C20 - array geometry helpers share one centre convention (index floor(n/2))."""
import itertools
import math
from fractions import Fraction

import numpy as np

from .. import common as C

ID = 'C20'
MODEL = 'c20'
RUNFUN = 'run'
COQ_TARGETS = ['theories/Properties/C20.vo', 'theories/Extract/RunC20.vo']
DESIGN_REF = 'DESIGN.md section 6, C20'
TECHNIQUE = ('Coq proof (lia, ring-generic BigSum re-indexing, ordered-ring algebra, Reals for the hexagon normals) of '
             'executable models of lentil.util / helper / shape / segmented + differential execution of the extracted '
             'model against the public lentil API (exact on integer/dyadic data, 1e-12 where sqrt/sin/cos enter) + '
             'plain-loop oracle of the floor(n/2) convention')
LEVEL_TEXT = ('Theorems in coq/theories/Properties/C20.v: pad (2-D, cubes, every parity, grow/shrink mix) moves sample i to '
              'i - floor(n/2) + floor(N/2) and pad-then-crop is the identity; subarray / boundary / boundary_slice / '
              'slice_offset / centroid agree with that origin (slice_offset matches array_extent so the sliced field '
              'embeds back); rebin preserves the sum; shapes are in [0,1], binary without antialiasing, translate '
              'exactly, are invariant under the half-turn and mirrors; hex rings have 6r members, 1+3k(k+1) segments, '
              'lattice separation. The executable models are extracted and compared with lentil on every run.')
LEVEL_NOTE = ('Trusted: Coq kernel, extraction, the harness; numpy slicing/reshape semantics are modelled and observed '
              'through the tie; sqrt/sin/cos values are oracle inputs of the executed model (exact real functions in the '
              'theorems). Known finding C20-hex-gap0-shared-edge: with seg_gap = 0 neighbouring binary segment masks '
              'share their common edge row.')
TRUSTED = ['Coq 8.16.1 kernel (coqc; coqchk in the thorough tier)',
           'extraction with ExtrOcamlBasic only; ocaml/driver.ml',
           'harness/props/c20.py: case codec, plain-loop oracles',
           'numpy basic slicing, reshape(...).sum, np.where/np.any, np.clip/np.minimum are modelled and observed through the tie',
           'numpy sqrt/sin/cos/deg2rad: their float values are inputs of the executed shape model']
ASSUMPTIONS = ['array shapes and requested shapes non-negative; rebin factor >= 1; real data',
               'exact regime: integer / dyadic data and parameters (float arithmetic is exact there); '
               'centroid and antialiased shape values compared to 1e-12',
               'slice_offset: a bare Ellipsis or a pair of slice objects with integer bounds',
               'hex_segments border clearance (numeric test): pad >= 2 with antialiasing (the default), pad >= 1 without; '
               'non-overlap is judged on non-antialiased masks and claimed for seg_gap > 0 (known finding for seg_gap = 0)']
RULE = ('corpus first, then random (quick) / exhaustive small-scope (thorough) cases over ops {pad 2-D and cube, '
        'subarray, window, boundary, boundary_slice+slice_offset, centroid, rebin 2-D and cube, circle, rectangle, '
        'hexagon, hex_segments}; non-trivial = shape actually changes / support not the full array / shifted or rotated '
        'shape; distinct by case hash')

GEOM_OPS = ('pad', 'subarray', 'window', 'boundary', 'bslice', 'soff', 'soff_ell', 'centroid', 'rebin')


# ------------------------------------------------------------------ helpers
def is3(a):
    return isinstance(a[0][0], list)


def shape_of(a):
    if is3(a):
        return (len(a), len(a[0]), len(a[0][0]))
    return (len(a), len(a[0]))


def enc_arr(a):
    out = [len(a), len(a[0])]
    for row in a:
        for v in row:
            out += C.enc_q(Fraction(v))
    return out


def enc_cube(a):
    out = [len(a), len(a[0]), len(a[0][0])]
    for sl in a:
        for row in sl:
            for v in row:
                out += C.enc_q(Fraction(v))
    return out


def nparr(a, dtype=None):
    x = np.array([[float(Fraction(v)) for v in row] for row in a]) if not is3(a) else \
        np.array([[[float(Fraction(v)) for v in row] for row in sl] for sl in a])
    return x if dtype is None else x.astype(np.dtype(dtype))


# dtypes an image or a mask can legitimately have, with the value range the generators draw from
DTYPES = {'uint8': (0, 255), 'uint16': (0, 65535), 'int8': (-128, 127), 'bool': (0, 1),
          'float32': (-4, 9), 'int32': (-1000, 1000), 'int64': (-4, 9)}
NARROW = {'uint8': 8, 'uint16': 16, 'int8': 8, 'bool': 1}


def mk_input(c):
    """the object handed to lentil for the array argument: an ndarray of the case's dtype (default
    float64), or the nested list itself (argument form 'list': the functions take array_like)"""
    if c.get('form') == 'list':
        return [list(map(int, row)) for row in c['a']] if not is3(c['a']) else \
            [[list(map(int, row)) for row in sl] for sl in c['a']]
    return with_container(with_layout(nparr(c['a'], c.get('dtype')), c.get('layout')), c.get('container'))


class MetaArray(np.ndarray):
    """an ndarray subclass that only carries metadata along"""
    def __new__(cls, data, info=None):
        obj = np.asarray(data).view(cls)
        obj.info = info
        return obj

    def __array_finalize__(self, obj):
        self.info = getattr(obj, 'info', None)


CONTAINERS = ('matrix', 'masked', 'masked_some', 'subclass', 'memmap')
_MEMMAPS = []


def some_mask(shape):
    idx = np.indices(shape).sum(axis=0)
    return idx % 3 == 1


def with_container(x, kind):
    """the same data handed over as an ndarray SUBCLASS (legal array_like input): np.matrix, a masked array with
    nothing / with something masked, a metadata-carrying subclass, a memory map.  Every helper must return what it
    returns for the plain ndarray with the same data (np.asarray semantics) and leave the caller's object alone."""
    if kind is None:
        return x
    if kind == 'matrix':
        return np.asmatrix(x) if x.ndim == 2 else MetaArray(x, info='cube')
    if kind == 'masked':
        return np.ma.masked_array(x)
    if kind == 'masked_some':
        return np.ma.masked_array(x, mask=some_mask(x.shape))
    if kind == 'subclass':
        return MetaArray(x, info={'unit': 'm'})
    if kind == 'memmap':
        import tempfile
        f = tempfile.NamedTemporaryFile(prefix='lv-c20-', suffix='.dat')
        mm = np.memmap(f, dtype=x.dtype, mode='w+', shape=x.shape if x.size else (1,))
        if x.size:
            mm[...] = x
        else:
            return x
        _MEMMAPS.append(f)
        del _MEMMAPS[:-4]
        return mm
    raise ValueError(kind)


def flag(c, v):
    """a boolean option in the case's spelling: the Python singleton (default), a numpy bool, or 0 / 1"""
    f = c.get('flagform')
    if f == 'np':
        return np.bool_(v)
    if f == 'int':
        return int(v)
    return bool(v)


def scaled(c):
    """the case with its data multiplied by 2**scale2 (exact in binary64): tiny / huge amplitudes"""
    e = c.get('scale2')
    if e is None or 'a' not in c:
        return c
    k = Fraction(2) ** e
    a = c['a']
    a2 = [[[Fraction(v) * k for v in row] for row in sl] for sl in a] if is3(a) else \
        [[Fraction(v) * k for v in row] for row in a]
    return dict(c, a=a2)


LAYOUTS = ('F', 'T', 'strided', 'neg', 'swap', 'ro', 'offset')


def with_layout(x, layout):
    """the SAME logical array (same shape, same values) held differently in memory: Fortran order, the transposed
    view of a C array, a strided view into a larger buffer, a view with negative strides, non-native byte order,
    read-only, a view at a byte offset into a 1-d buffer.  No helper may depend on it."""
    if layout is None or layout == 'C':
        return x
    if layout == 'F':
        y = np.asfortranarray(x)
    elif layout == 'T':
        y = np.ascontiguousarray(x.transpose()).transpose()
    elif layout == 'strided':
        big = np.full(tuple(2 * n + 1 for n in x.shape), 77, dtype=x.dtype)
        big[tuple(slice(1, None, 2) for _ in x.shape)] = x
        y = big[tuple(slice(1, None, 2) for _ in x.shape)]
    elif layout == 'neg':
        rev = tuple(slice(None, None, -1) for _ in x.shape)
        y = np.ascontiguousarray(x[rev])[rev]
    elif layout == 'swap':
        y = x.astype(x.dtype.newbyteorder())
    elif layout == 'ro':
        y = x.copy()
        y.setflags(write=False)
    elif layout == 'offset':
        buf = np.full(x.size + 3, 55, dtype=x.dtype)
        buf[3:] = x.ravel()
        y = buf[3:].reshape(x.shape)
    else:
        raise ValueError(layout)
    assert y.shape == x.shape and np.array_equal(y, x)
    return y


def seq_arg(c, v):
    """a shape / shift argument in the case's argument form: tuple (default), list or ndarray"""
    f = c.get('argform')
    if f == 'list':
        return list(v)
    if f == 'array':
        return np.array(v)
    if f in INT_ARGFORMS:
        # an ndarray of a small-width / unsigned integer dtype (a shape read from a file header, ...)
        lo, hi = np.iinfo(f).min, np.iinfo(f).max
        return np.array(v, dtype=f) if all(lo <= int(x) <= hi for x in v) else np.array(v, dtype='int64')
    return tuple(v)


INT_ARGFORMS = ('uint8', 'uint16', 'uint32', 'uint64', 'int8', 'int16')


def shift_arg(c, sh):
    """the shift of a drawing call: a tuple of floats, or (argument form = integer dtype, whole-number shift) an
    ndarray of that dtype"""
    if c.get('argform') in INT_ARGFORMS and all(float(v).is_integer() for v in sh):
        return seq_arg(c, [int(v) for v in sh])
    return sh


def unchanged(x, c):
    """the caller's array still holds the case's values after the call"""
    if isinstance(x, list):
        return x == mk_input(c)
    ref = nparr(c['a'], c.get('dtype'))
    if isinstance(x, np.ma.MaskedArray):
        want = some_mask(ref.shape) if c.get('container') == 'masked_some' else np.zeros(ref.shape, dtype=bool)
        return bool(np.array_equal(np.ma.getdata(x), ref) and np.array_equal(np.ma.getmaskarray(x), want))
    return bool(np.array_equal(np.asarray(x), ref))


def fresh_lentil():
    """a fresh interpreter state for lentil: every lentil module is executed again, so module-level
    caches, memoised grids and the like start empty"""
    import sys
    for k in list(sys.modules):
        if k == 'lentil' or k.startswith('lentil.'):
            del sys.modules[k]
    return C.import_lentil()


def tolist(x):
    return np.asarray(x, dtype=float).tolist()


def read_arrq(rd):
    n, m = rd.z(), rd.z()
    return [[rd.q() for _ in range(m)] for _ in range(n)]


def read_cubeq(rd):
    d, n, m = rd.z(), rd.z(), rd.z()
    return [[[rd.q() for _ in range(m)] for _ in range(n)] for _ in range(d)]


def flt(x):
    if isinstance(x, list):
        return [flt(v) for v in x]
    return float(x)


# ------------------------------------------------------------------ generation
def rnd_arr(rng, n, m, lo=-4, hi=9):
    return [[rng.randint(lo, hi) for _ in range(m)] for _ in range(n)]


def idx_arr(n, m, base=1):
    return [[base + i * m + j for j in range(m)] for i in range(n)]


def rnd_support(rng, n, m):
    """non-negative array whose support touches a random choice of borders"""
    a = [[0] * m for _ in range(n)]
    t = rng.random()
    if t < 0.15:
        a[rng.randrange(n)][rng.randrange(m)] = rng.randint(1, 5)
    elif t < 0.3:
        r0, r1 = sorted((rng.randrange(n), rng.randrange(n)))
        c0, c1 = sorted((rng.randrange(m), rng.randrange(m)))
        for i in range(r0, r1 + 1):
            for j in range(c0, c1 + 1):
                a[i][j] = rng.randint(1, 5)
    else:
        dens = rng.choice([0.1, 0.3, 0.6])
        for i in range(n):
            for j in range(m):
                if rng.random() < dens:
                    a[i][j] = rng.randint(1, 5)
    if rng.random() < 0.5:       # force touching of some borders
        for side in range(4):
            if rng.random() < 0.5:
                if side == 0:
                    a[0][rng.randrange(m)] = 1
                elif side == 1:
                    a[n - 1][rng.randrange(m)] = 2
                elif side == 2:
                    a[rng.randrange(n)][0] = 3
                else:
                    a[rng.randrange(n)][m - 1] = 4
    return a


def gen_geometry_random(rng, n):
    for _ in range(n):
        t = rng.random()
        if t < 0.2:
            sh = (rng.randint(1, 7), rng.randint(1, 7))
            yield {'op': 'pad', 'a': rnd_arr(rng, *sh), 'shape': [rng.randint(0, 9), rng.randint(0, 9)]}
        elif t < 0.32:
            d, r, c = rng.randint(1, 3), rng.randint(1, 6), rng.randint(1, 6)
            yield {'op': 'pad', 'a': [rnd_arr(rng, r, c) for _ in range(d)],
                   'shape': [rng.randint(1, 8), rng.randint(1, 8)]}
        elif t < 0.44:
            n_, m_ = rng.randint(1, 7), rng.randint(1, 7)
            yield {'op': 'subarray', 'a': rnd_arr(rng, n_, m_), 'shape': [rng.randint(0, 8), rng.randint(0, 8)],
                   'shift': [rng.randint(-3, 3), rng.randint(-3, 3)] if rng.random() < 0.7 else [0, 0]}
        elif t < 0.54:
            n_, m_ = rng.randint(1, 6), rng.randint(1, 6)
            a = rnd_arr(rng, n_, m_)
            u = rng.random()
            if u < 0.3:
                yield {'op': 'window', 'a': a, 'shape': [rng.randint(1, 8), rng.randint(1, 8)], 'slice': None}
            elif u < 0.4:
                yield {'op': 'window', 'a': a, 'shape': None, 'slice': None}
            else:
                s = [rng.randint(-n_ - 1, n_ + 1), rng.randint(-n_ - 1, n_ + 1),
                     rng.randint(-m_ - 1, m_ + 1), rng.randint(-m_ - 1, m_ + 1)]
                if rng.random() < 0.6:
                    s = [min(max(v, 0), lim) for v, lim in zip(s, (n_, n_, m_, m_))]
                    s[0:2] = sorted(s[0:2])
                    s[2:4] = sorted(s[2:4])
                shp = None
                if rng.random() < 0.5:
                    shp = [s[1] - s[0], s[3] - s[2]]
                    if rng.random() < 0.2:
                        shp[rng.randrange(2)] += 1
                yield {'op': 'window', 'a': a, 'shape': shp, 'slice': s}
        elif t < 0.66:
            n_, m_ = rng.randint(1, 7), rng.randint(1, 7)
            a = rnd_support(rng, n_, m_)
            thr = rng.choice(['0', '0', '0', '1', '1/2', '3', '-1'])
            yield {'op': 'boundary', 'a': a, 'thr': thr}
        elif t < 0.78:
            n_, m_ = rng.randint(1, 7), rng.randint(1, 7)
            a = rnd_support(rng, n_, m_)
            yield {'op': 'bslice', 'a': a, 'thr': rng.choice(['0', '0', '1']),
                   'pad': [rng.randint(0, 2), rng.randint(0, 2)] if rng.random() < 0.5 else [0, 0]}
        elif t < 0.82:
            n_, m_ = rng.randint(1, 9), rng.randint(1, 9)
            r0, r1 = sorted((rng.randint(0, n_), rng.randint(0, n_)))
            c0, c1 = sorted((rng.randint(0, m_), rng.randint(0, m_)))
            yield {'op': 'soff', 'slice': [r0, r1, c0, c1], 'shape': [n_, m_]}
        elif t < 0.83:
            yield {'op': 'soff_ell', 'shape': [rng.randint(1, 9), rng.randint(1, 9)]}
        elif t < 0.9:
            n_, m_ = rng.randint(1, 6), rng.randint(1, 6)
            if rng.random() < 0.4:
                a = [[0] * m_ for _ in range(n_)]
                a[rng.randrange(n_)][rng.randrange(m_)] = rng.choice([1, 2, 3, 5, 7])
            else:
                a = rnd_arr(rng, n_, m_, 0, 6)
                a[rng.randrange(n_)][rng.randrange(m_)] += 1
            yield {'op': 'centroid', 'a': a}
        else:
            f = rng.randint(1, 4)
            if rng.random() < 0.75:
                n_, m_ = f * rng.randint(1, 3), f * rng.randint(1, 3)
            else:
                n_, m_ = rng.randint(1, 8), rng.randint(1, 8)
            if rng.random() < 0.35:
                yield {'op': 'rebin', 'a': [rnd_arr(rng, n_, m_) for _ in range(rng.randint(1, 3))], 'f': f}
            else:
                yield {'op': 'rebin', 'a': rnd_arr(rng, n_, m_), 'f': f}


def gen_geometry_exhaustive():
    # every source shape <= 7 to every target shape <= 9 (2-D), index-valued data
    for n, m in itertools.product(range(1, 8), repeat=2):
        a = idx_arr(n, m)
        for N, M in itertools.product(range(0, 10), repeat=2):
            if (n, N) in ((m, M), ) or (n + m + N + M) % 2 == 0 or n == m:
                yield {'op': 'pad', 'a': a, 'shape': [N, M]}
    # cubes: depth 2, every shape <= 5 to every shape <= 7
    for n, m in itertools.product(range(1, 6), repeat=2):
        a = [idx_arr(n, m), idx_arr(n, m, 100)]
        for N, M in itertools.product(range(1, 8), repeat=2):
            yield {'op': 'pad', 'a': a, 'shape': [N, M]}
    # subarray: every window of every shape in arrays <= 5, shifts -3..3
    for n, m in itertools.product(range(1, 6), repeat=2):
        a = idx_arr(n, m)
        for sr, sc in itertools.product(range(0, 7), repeat=2):
            for shr, shc in ((0, 0), (1, 0), (0, -1), (-1, 1), (2, -2), (-3, 0), (0, 3)):
                yield {'op': 'subarray', 'a': a, 'shape': [sr, sc], 'shift': [shr, shc]}
    # boundary / boundary_slice: every box in arrays <= 5
    for n, m in itertools.product(range(1, 6), repeat=2):
        for r0 in range(n):
            for r1 in range(r0, n):
                for c0 in range(m):
                    for c1 in range(c0, m):
                        a = [[0] * m for _ in range(n)]
                        a[r0][c0] = 1
                        a[r1][c1] = 2
                        a[r0][c1] = 1
                        yield {'op': 'bslice', 'a': a, 'thr': '0', 'pad': [(r0 + c1) % 3, (r1 + c0) % 2]}
                        yield {'op': 'boundary', 'a': a, 'thr': '1' if (r0 + c0) % 2 else '0'}
    # slice_offset: every in-range slice in arrays <= 6
    for n, m in itertools.product(range(1, 7), repeat=2):
        for r0 in range(n + 1):
            for r1 in range(r0, n + 1):
                for c0, c1 in ((0, m), (0, 1), (m // 2, m), (m - 1, m), (1 % m, m)):
                    if c0 <= c1:
                        yield {'op': 'soff', 'slice': [r0, r1, c0, c1], 'shape': [n, m]}
    # centroid of every unit impulse in arrays <= 5
    for n, m in itertools.product(range(1, 6), repeat=2):
        for i in range(n):
            for j in range(m):
                a = [[0] * m for _ in range(n)]
                a[i][j] = 1 + (i + 2 * j) % 5
                yield {'op': 'centroid', 'a': a}
    # rebin: every shape <= 8, factors 1..4
    for n, m in itertools.product(range(1, 9), repeat=2):
        for f in range(1, 5):
            yield {'op': 'rebin', 'a': idx_arr(n, m), 'f': f}
            if n <= 4:
                yield {'op': 'rebin', 'a': [idx_arr(n, m), idx_arr(n, m, -7)], 'f': f}


ANGLES = ['0', '0', '0', '30', '45', '60', '90', '120', '180', '270', '-60', '37', '25/2', '360']


def dy(rng, lo, hi, den=4):
    return str(Fraction(rng.randint(lo * den, hi * den), den))


def rnd_shift(rng):
    t = rng.random()
    if t < 0.3:
        return ['0', '0']
    if t < 0.55:
        return [str(rng.randint(-4, 4)), str(rng.randint(-4, 4))]
    return [dy(rng, -4, 4), dy(rng, -4, 4)]


def gen_shapes(rng, n, maxn):
    for _ in range(n):
        shape = [rng.randint(1, maxn), rng.randint(1, maxn)]
        if rng.random() < 0.3:
            shape[1] = shape[0]
        base = {'shape': shape, 'shift': rnd_shift(rng), 'aa': rng.random() < 0.5,
                'd': [rng.randint(-3, 3), rng.randint(-3, 3)]}
        t = rng.random()
        # near-ties: an edge a hair (2**-47 .. 2**-40: the radius AND radius + 0.5 stay exact in binary64 below 16)
        # outside / inside sample centres
        eps = Fraction(rng.choice([1, -1]), 2 ** rng.choice([47, 45, 43, 40])) if rng.random() < 0.2 else 0
        if t < 0.33:
            r = Fraction(dy(rng, 0, 10))
            if eps:
                r = Fraction(2 * rng.randint(0, 9) + 1, 2) + eps
                base['shift'] = [str(rng.randint(-2, 2)), str(rng.randint(-2, 2))]
            yield dict(base, op='circle', radius=str(r))
        elif t < 0.66:
            w, h = Fraction(dy(rng, 0, 12)), Fraction(dy(rng, 0, 12))
            if eps:
                w, h = 2 * rng.randint(0, 5) + 1 + 2 * eps, 2 * rng.randint(0, 5) + 1 - 2 * eps
                base['shift'] = [str(rng.randint(-2, 2)), str(rng.randint(-2, 2))]
            yield dict(base, op='rect', width=str(w), height=str(h), angle='0' if eps else rng.choice(ANGLES))
        else:
            yield dict(base, op='hexagon', radius=dy(rng, 0, 10), rotate=rng.random() < 0.5)


def gen_hexseg(rng, n, maxrings):
    for _ in range(n):
        rings = rng.randint(1, maxrings)
        total = 1 + 3 * rings * (rings + 1)
        t = rng.random()
        if t < 0.35:
            drop = [0]
        elif t < 0.5:
            drop = []
        else:
            drop = sorted(set(rng.randrange(total + 2) for _ in range(rng.randint(1, 4))))
        yield {'op': 'hexseg', 'rings': rings, 'radius': dy(rng, 3, 7 if rings > 3 else 9),
               'gap': rng.choice(['0', '0', '1/2', '1', '2', '3/4', '1/4', '3']),
               'rotate': rng.random() < 0.5, 'aa': rng.random() < 0.5, 'pad': rng.choice([0, 1, 2, 2, 3]), 'drop': drop}


def rnd_val(rng, dt):
    lo, hi = DTYPES[dt]
    if dt in ('uint8', 'uint16', 'int8') and rng.random() < 0.6:
        span = max(1, (hi - lo) // 5)
        return rng.randint(hi - span, hi) if rng.random() < 0.75 or lo == 0 else rng.randint(lo, lo + span)
    return rng.randint(lo, hi)


def rnd_arr_dt(rng, n, m, dt, nonneg=False):
    a = [[rnd_val(rng, dt) for _ in range(m)] for _ in range(n)]
    if nonneg:
        a = [[abs(v) if v > -128 else 127 for v in row] for row in a]
    return a


def gen_dtypes(rng, n):
    """every helper on every dtype an image or mask can have (values must not depend on the dtype), and on the
    documented argument forms (array_like input as a nested list, shape / shift as list or ndarray, pad as int)"""
    dts = list(DTYPES)
    for k in range(n):
        dt = dts[k % len(dts)]
        t = rng.random()
        if t < 0.4:
            f = rng.randint(1, 4)
            n_, m_ = f * rng.randint(1, 3), f * rng.randint(1, 3)
            if rng.random() < 0.1:
                n_ += 1
            a = [rnd_arr_dt(rng, n_, m_, dt) for _ in range(rng.randint(1, 3))] if rng.random() < 0.4 \
                else rnd_arr_dt(rng, n_, m_, dt)
            yield {'op': 'rebin', 'a': a, 'f': f, 'dtype': dt}
        elif t < 0.55:
            n_, m_ = rng.randint(1, 6), rng.randint(1, 6)
            a = [rnd_arr_dt(rng, n_, m_, dt) for _ in range(2)] if rng.random() < 0.3 else rnd_arr_dt(rng, n_, m_, dt)
            yield {'op': 'pad', 'a': a, 'shape': [rng.randint(1, 8), rng.randint(1, 8)], 'dtype': dt}
        elif t < 0.68:
            n_, m_ = rng.randint(1, 6), rng.randint(1, 6)
            yield {'op': 'subarray', 'a': rnd_arr_dt(rng, n_, m_, dt), 'shape': [rng.randint(0, n_), rng.randint(0, m_)],
                   'shift': [rng.randint(-1, 1), rng.randint(-1, 1)], 'dtype': dt}
        elif t < 0.84:
            n_, m_ = rng.randint(1, 6), rng.randint(1, 6)
            hi = DTYPES[dt][1]
            a = [[(v and (hi if v % 2 else 1)) for v in row] for row in rnd_support(rng, n_, m_)]
            if rng.random() < 0.5:
                yield {'op': 'boundary', 'a': a, 'thr': '0', 'dtype': dt}
            else:
                pr = rng.randint(0, 2)
                yield {'op': 'bslice', 'a': a, 'thr': '0', 'pad': [pr, pr], 'dtype': dt,
                       'padform': 'int' if rng.random() < 0.5 else 'tuple'}
        else:
            n_, m_ = rng.randint(1, 5), rng.randint(1, 5)
            if rng.random() < 0.35:
                a = [[0] * m_ for _ in range(n_)]
                a[rng.randrange(n_)][rng.randrange(m_)] = DTYPES[dt][1] if rng.random() < 0.5 else 1
            else:
                a = rnd_arr_dt(rng, n_, m_, dt, nonneg=True)
                a[rng.randrange(n_)][rng.randrange(m_)] = 1
            yield {'op': 'centroid', 'a': a, 'dtype': dt}
    for k in range(max(8, n // 6)):
        n_, m_ = rng.randint(2, 6), rng.randint(2, 6)
        a = rnd_arr(rng, n_, m_, 0, 9)
        a[0][0] += 1
        form = {'form': 'list'} if k % 2 else {}
        argf = {'argform': rng.choice(['list', 'array'])}
        u = k % 5
        if u == 0:
            yield dict({'op': 'pad', 'a': a, 'shape': [rng.randint(1, 8), rng.randint(1, 8)]}, **form, **argf)
        elif u == 1:
            yield dict({'op': 'subarray', 'a': a, 'shape': [rng.randint(1, n_), rng.randint(1, m_)], 'shift': [0, 0]},
                       **form, **argf)
        elif u == 2:
            yield dict({'op': 'boundary', 'a': a, 'thr': '3'}, **form)
        elif u == 3:
            yield dict({'op': 'centroid', 'a': a}, **form)
        else:
            yield dict({'op': 'rebin', 'a': [[v for v in row for _ in range(2)] for row in a for _ in range(2)], 'f': 2},
                       **form)


def rnd_draw(rng, kind, centred, rotated, aa=None):
    shift = ['0', '0'] if centred else [str(rng.choice([-5, -4, -3, -2, 2, 3, 4, 6])), str(rng.choice([-4, -3, 0, 2, 3, 5]))]
    if not centred and rng.random() < 0.25:
        shift = [dy(rng, -3, 3), dy(rng, -3, 3)]
    aa = (rng.random() < 0.5) if aa is None else aa
    if kind == 'circle':
        return {'kind': 'circle', 'radius': dy(rng, 1, 6), 'shift': shift, 'aa': aa}
    if kind == 'rect':
        return {'kind': 'rect', 'width': dy(rng, 1, 9), 'height': dy(rng, 1, 9), 'shift': shift,
                'angle': rng.choice(['30', '45', '90', '-60', '37']) if rotated else '0', 'aa': aa}
    return {'kind': 'hexagon', 'radius': dy(rng, 1, 6), 'shift': shift, 'rotate': rotated, 'aa': aa}


def gen_histories(rng, n, maxn):
    """2-4 draws in one interpreter state on the SAME array shape: every ordered pair of kinds with the first draw
    centred/unrotated and the second shifted (state carried by a grid keyed on too little, or written in place,
    shows up in the second), then random mixtures of centred / shifted, rotated / unrotated draws"""
    kinds = ['rect', 'circle', 'hexagon']
    pairs = [(a, b) for a in kinds for b in kinds]
    for k in range(n):
        shape = [rng.randint(9, maxn), rng.randint(9, maxn)]
        if rng.random() < 0.3:
            shape[1] = shape[0]
        if k < 2 * len(pairs):
            a, b = pairs[k % len(pairs)]
            draws = [rnd_draw(rng, a, True, False), rnd_draw(rng, b, False, k >= len(pairs))]
            if rng.random() < 0.5:
                draws.append(rnd_draw(rng, rng.choice(kinds), rng.random() < 0.5, rng.random() < 0.5))
        else:
            draws = [rnd_draw(rng, rng.choice(kinds), rng.random() < 0.5, rng.random() < 0.4)
                     for _ in range(rng.randint(2, 4))]
            if rng.random() < 0.4:       # the same draw twice, one argument varied
                d = dict(draws[0])
                d['shift'] = [str(rng.randint(-3, 3)), str(rng.randint(1, 4))]
                draws.append(d)
            elif rng.random() < 0.5:     # ... or varied past the 6th decimal only (2**-24 is exact in binary64)
                d = dict(draws[-1])
                d['shift'] = [str(Fraction(d['shift'][0]) + Fraction(1, 2 ** 24)), d['shift'][1]]
                d['aa'] = True
                draws.append(d)
        yield {'op': 'shist', 'shape': shape, 'draws': draws}


def gen_layouts(rng, n):
    """every geometry helper on every memory layout of its array argument (C is what all other cases use)"""
    ops = ('centroid', 'centroid', 'pad', 'pad3', 'subarray', 'window', 'window3', 'boundary', 'bslice', 'rebin', 'rebin3')
    for k in range(n):
        lay = LAYOUTS[k % len(LAYOUTS)]
        op = ops[(k // len(LAYOUTS)) % len(ops)]
        dt = rng.choice([None, None, 'float32', 'int32', 'uint8', 'uint16', 'bool'])
        n_, m_ = rng.randint(1, 6), rng.randint(1, 7)
        if rng.random() < 0.7 and n_ == m_:
            m_ += 1

        def arr(nonneg=False):
            if dt is None:
                return rnd_arr(rng, n_, m_, 0 if nonneg else -4, 9)
            return rnd_arr_dt(rng, n_, m_, dt, nonneg=nonneg)
        extra = {'layout': lay}
        if dt:
            extra['dtype'] = dt
        if op == 'centroid':
            a = arr(nonneg=True)
            a[rng.randrange(n_)][rng.randrange(m_)] = 1
            if rng.random() < 0.3:
                a = [[0] * m_ for _ in range(n_)]
                a[rng.randrange(n_)][rng.randrange(m_)] = 1
            yield dict({'op': 'centroid', 'a': a}, **extra)
        elif op == 'pad':
            yield dict({'op': 'pad', 'a': arr(), 'shape': [rng.randint(1, 8), rng.randint(1, 8)]}, **extra)
        elif op == 'pad3':
            yield dict({'op': 'pad', 'a': [arr() for _ in range(rng.randint(1, 3))],
                        'shape': [rng.randint(1, 8), rng.randint(1, 8)]}, **extra)
        elif op == 'subarray':
            yield dict({'op': 'subarray', 'a': arr(), 'shape': [rng.randint(1, n_), rng.randint(1, m_)], 'shift': [0, 0]},
                       **extra)
        elif op == 'window':
            r0, r1 = sorted((rng.randint(0, n_), rng.randint(0, n_)))
            c0, c1 = sorted((rng.randint(0, m_), rng.randint(0, m_)))
            if rng.random() < 0.5:
                yield dict({'op': 'window', 'a': arr(), 'shape': None, 'slice': [r0, r1, c0, c1]}, **extra)
            else:
                yield dict({'op': 'window', 'a': arr(), 'shape': [rng.randint(1, 8), rng.randint(1, 8)], 'slice': None},
                           **extra)
        elif op == 'window3':
            yield dict({'op': 'window', 'a': [arr() for _ in range(rng.randint(2, 3))],
                        'shape': [rng.randint(1, 7), rng.randint(1, 7)], 'slice': None}, **extra)
        elif op in ('boundary', 'bslice'):
            hi = DTYPES[dt][1] if dt else 5
            a = [[(v and (hi if v % 2 else 1)) for v in row] for row in rnd_support(rng, n_, m_)]
            if op == 'boundary':
                yield dict({'op': 'boundary', 'a': a, 'thr': '0'}, **extra)
            else:
                yield dict({'op': 'bslice', 'a': a, 'thr': '0', 'pad': [rng.randint(0, 1), rng.randint(0, 2)]}, **extra)
        else:
            f = rng.randint(1, 3)
            n_, m_ = f * rng.randint(1, 3), f * rng.randint(1, 3)
            a = [arr() for _ in range(rng.randint(1, 3))] if op == 'rebin3' else arr()
            yield dict({'op': 'rebin', 'a': a, 'f': f}, **extra)


def gen_containers(rng, n):
    """every geometry helper on ndarray subclasses (np.matrix, masked arrays, a metadata subclass, np.memmap) and on
    data scaled over many decades (no absolute threshold may enter: centroid is scale free, the others linear)"""
    ops = ('boundary', 'bslice', 'centroid', 'pad', 'subarray', 'window', 'rebin', 'pad3', 'rebin3', 'window3')
    for k in range(n):
        kind = CONTAINERS[k % len(CONTAINERS)]
        op = ops[(k // len(CONTAINERS)) % len(ops)]
        n_, m_ = rng.randint(1, 6), rng.randint(2, 7)
        if n_ == m_:
            m_ += 1
        extra = {'container': kind}
        if rng.random() < 0.3:
            extra['dtype'] = rng.choice(['float32', 'int32', 'uint8', 'bool'])
        dt = extra.get('dtype')

        def arr(nonneg=False):
            return rnd_arr_dt(rng, n_, m_, dt, nonneg=nonneg) if dt else rnd_arr(rng, n_, m_, 0 if nonneg else -4, 9)
        if op in ('boundary', 'bslice'):
            hi = DTYPES[dt][1] if dt else 5
            a = [[(v and (hi if v % 2 else 1)) for v in row] for row in rnd_support(rng, n_, m_)]
            if op == 'boundary':
                yield dict({'op': 'boundary', 'a': a, 'thr': '0'}, **extra)
            else:
                yield dict({'op': 'bslice', 'a': a, 'thr': '0', 'pad': [rng.randint(0, 1), rng.randint(0, 2)]}, **extra)
        elif op == 'centroid':
            a = arr(nonneg=True)
            a[rng.randrange(n_)][rng.randrange(m_)] = 1
            yield dict({'op': 'centroid', 'a': a}, **extra)
        elif op == 'pad':
            yield dict({'op': 'pad', 'a': arr(), 'shape': [rng.randint(1, 8), rng.randint(1, 8)]}, **extra)
        elif op == 'pad3':
            yield dict({'op': 'pad', 'a': [arr() for _ in range(2)], 'shape': [rng.randint(1, 8), rng.randint(1, 8)]},
                       **extra)
        elif op == 'subarray':
            yield dict({'op': 'subarray', 'a': arr(), 'shape': [rng.randint(1, n_), rng.randint(1, m_)], 'shift': [0, 0]},
                       **extra)
        elif op == 'window':
            r0, r1 = sorted((rng.randint(0, n_), rng.randint(0, n_)))
            c0, c1 = sorted((rng.randint(0, m_), rng.randint(0, m_)))
            yield dict({'op': 'window', 'a': arr(), 'shape': None, 'slice': [r0, r1, c0, c1]}, **extra)
        elif op == 'window3':
            yield dict({'op': 'window', 'a': [arr() for _ in range(2)], 'shape': [rng.randint(1, 7), rng.randint(1, 7)],
                        'slice': None}, **extra)
        else:
            f = rng.randint(1, 3)
            n_, m_ = f * rng.randint(1, 3), f * rng.randint(1, 3)
            a = [arr() for _ in range(2)] if op == 'rebin3' else arr()
            yield dict({'op': 'rebin', 'a': a, 'f': f}, **extra)
    for k in range(max(10, n // 5)):
        e = rng.choice([-43, -40, -33, -27, 30, 45])
        n_, m_ = rng.randint(1, 5), rng.randint(2, 6)
        u = k % 5
        if u == 0:
            a = rnd_arr(rng, n_, m_, 0, 9)
            a[0][0] += 1
            yield {'op': 'centroid', 'a': a, 'scale2': e}
        elif u == 1:
            yield {'op': 'boundary', 'a': rnd_support(rng, n_, m_), 'thr': '0', 'scale2': e}
        elif u == 2:
            yield {'op': 'bslice', 'a': rnd_support(rng, n_, m_), 'thr': '0', 'pad': [1, 0], 'scale2': e}
        elif u == 3:
            yield {'op': 'rebin', 'a': rnd_arr(rng, 2 * n_, 2 * m_), 'f': 2, 'scale2': e}
        else:
            yield {'op': 'pad', 'a': rnd_arr(rng, n_, m_), 'shape': [rng.randint(1, 7), rng.randint(1, 7)], 'scale2': e}


def gen_flags(rng, n):
    """boolean options spelled as numpy bools or as 0 / 1 (truthy, but not the singleton True)"""
    k = 0
    for c in gen_hexseg(rng, n // 3, 2):
        k += 1
        c['rotate'] = bool(k % 2) if k > 2 else True
        yield dict(c, flagform='np' if k % 2 else 'int')
    for c in gen_shapes(rng, n - n // 3, 14):
        k += 1
        yield dict(c, flagform='np' if k % 2 else 'int')


def gen_deepen(rng, n):
    """entry points and helpers moved into the model by the deepen work item: helper.mesh itself, spider, the complex
    refusal of rebin, sanitize_shape in every argument form, slice_offset on the Ellipsis forms, flatten=True"""
    for k in range(n):
        u = k % 8
        shape = [rng.randint(1, 14), rng.randint(1, 14)]
        if u in (0, 1):
            yield {'op': 'mesh', 'shape': shape, 'shift': rnd_shift(rng), 'angle': rng.choice(ANGLES),
                   'd': [rng.randint(-3, 3), rng.randint(-3, 3)], 'argform': rng.choice(['list', 'array', None])}
        elif u in (2, 3, 4):
            yield {'op': 'spider', 'shape': [rng.randint(4, 16), rng.randint(4, 16)], 'width': dy(rng, 0, 4),
                   'angle': rng.choice(ANGLES), 'shift': rnd_shift(rng), 'aa': rng.random() < 0.5,
                   'd': [rng.randint(-2, 2), rng.randint(-2, 2)]}
        elif u == 5:
            f = rng.randint(1, 3)
            n_, m_ = f * rng.randint(1, 3), f * rng.randint(1, 3)
            a = [rnd_arr(rng, n_, m_) for _ in range(2)] if rng.random() < 0.4 else rnd_arr(rng, n_, m_)
            yield {'op': 'rebin', 'a': a, 'f': f, 'complex': rng.choice(['real-valued', 'complex'])}
        elif u == 6:
            form = rng.choice(['int', 'array0', 'list', 'tuple', 'array'])
            arg = rng.randint(0, 9) if form in ('int', 'array0') else [rng.randint(0, 9) for _ in range(rng.choice([0, 2, 2, 3]))]
            yield {'op': 'sanitize', 'arg': arg, 'form': form}
        else:
            yield {'op': 'soff_ellform', 'form': rng.choice(['bare', 'all', 'index', 'range']),
                   'shape': [rng.randint(1, 9), rng.randint(1, 9)]}
    for c in gen_hexseg(rng, max(3, n // 25), 2):
        yield dict(c, flatten=True)


def gen_int_args(rng, n):
    """shape / shift arguments handed over as ndarrays of small-width or unsigned integer dtypes: no arithmetic on
    them may wrap (uint64 only where the unchanged library accepts it: slice_offset, mesh and the drawings)"""
    for k in range(n):
        dt = INT_ARGFORMS[k % len(INT_ARGFORMS)]
        u = (k // len(INT_ARGFORMS)) % 7
        n_, m_ = rng.randint(1, 7), rng.randint(1, 7)
        if u == 0 or (dt == 'uint64' and u in (1, 2, 3)):
            r0, r1 = sorted((rng.randint(0, n_), rng.randint(0, n_)))
            c0, c1 = sorted((rng.randint(0, m_), rng.randint(0, m_)))
            yield {'op': 'soff', 'slice': [r0, r1, c0, c1], 'shape': [n_, m_], 'argform': dt}
        elif u == 1:
            yield {'op': 'pad', 'a': rnd_arr(rng, n_, m_), 'shape': [rng.randint(1, 9), rng.randint(1, 9)], 'argform': dt}
        elif u == 2:
            yield {'op': 'subarray', 'a': rnd_arr(rng, n_, m_), 'shape': [rng.randint(1, n_), rng.randint(1, m_)],
                   'shift': [0, 0] if dt.startswith('u') else [rng.randint(-1, 1), 0], 'argform': dt}
        elif u == 3:
            yield {'op': 'window', 'a': rnd_arr(rng, n_ + 1, m_), 'shape': [rng.randint(1, 8), rng.randint(1, 8)],
                   'slice': None, 'argform': dt}
        elif u == 4:
            yield {'op': 'mesh', 'shape': [n_ + 2, m_ + 2], 'shift': ['0', '0'], 'angle': rng.choice(['0', '30', '90']),
                   'd': [rng.randint(-2, 2), rng.randint(-2, 2)], 'argform': dt}
        else:
            for c in gen_shapes(rng, 1, 12):
                c['shift'] = [str(rng.randint(0, 3)), str(rng.randint(0, 3))]
                yield dict(c, argform=dt)


def cube_of(d, n, m, base=1):
    return [[[base + (k * n + i) * m + j for j in range(m)] for i in range(n)] for k in range(d)]


def gen_window_cubes(rng, n):
    """window on cubes (depth, rows, cols): shape= (pad on the image axes), slice=, both, neither; one case in
    three has (depth, rows) equal to the requested (rows, cols) while the image axes differ"""
    for k in range(n):
        d, r, c_ = rng.randint(1, 5), rng.randint(1, 5), rng.randint(1, 6)
        a = cube_of(d, r, c_) if k % 2 else [rnd_arr(rng, r, c_) for _ in range(d)]
        u = k % 6
        if u in (0, 3):
            tgt = [d, r]
            if c_ == r:
                a = [[row + [7] for row in sl] for sl in a]
            yield {'op': 'window', 'a': a, 'shape': tgt, 'slice': None}
        elif u == 1:
            yield {'op': 'window', 'a': a, 'shape': [rng.randint(1, 7), rng.randint(1, 7)], 'slice': None}
        elif u == 2:
            yield {'op': 'window', 'a': a, 'shape': None, 'slice': None}
        else:
            r0, r1 = sorted((rng.randint(0, min(d, r)), rng.randint(0, min(d, r))))
            c0, c1 = sorted((rng.randint(0, min(r, c_)), rng.randint(0, min(r, c_))))
            if rng.random() < 0.2:
                r0, r1, c0, c1 = rng.randint(-3, 6), rng.randint(-3, 6), rng.randint(-3, 7), rng.randint(-3, 7)
            shp = [r1 - r0, c1 - c0] if u == 5 else None
            if shp and rng.random() < 0.25:
                shp[rng.randrange(2)] += 1
            yield {'op': 'window', 'a': a, 'shape': shp, 'slice': [r0, r1, c0, c1]}


def gen_window_cubes_exhaustive():
    for d, r, c_ in itertools.product(range(1, 5), repeat=3):
        a = cube_of(d, r, c_)
        for N, M in itertools.product(range(1, 6), repeat=2):
            yield {'op': 'window', 'a': a, 'shape': [N, M], 'slice': None}


def generate(rng, tier):
    if tier == 'quick':
        yield from gen_geometry_random(rng, 700)
        yield from gen_dtypes(rng, 210)
        yield from gen_window_cubes(rng, 90)
        yield from gen_layouts(rng, 231)
        yield from gen_containers(rng, 200)
        yield from gen_flags(rng, 36)
        yield from gen_deepen(rng, 120)
        yield from gen_int_args(rng, 126)
        yield from gen_shapes(rng, 150, 16)
        yield from gen_histories(rng, 40, 20)
        yield from gen_hexseg(rng, 14, 3)
    else:
        yield from gen_geometry_random(rng, 4000)
        yield from gen_geometry_exhaustive()
        yield from gen_dtypes(rng, 2100)
        yield from gen_window_cubes(rng, 600)
        yield from gen_layouts(rng, 2310)
        yield from gen_containers(rng, 2000)
        yield from gen_flags(rng, 300)
        yield from gen_deepen(rng, 1200)
        yield from gen_int_args(rng, 1260)
        yield from gen_window_cubes_exhaustive()
        yield from gen_shapes(rng, 900, 24)
        yield from gen_histories(rng, 300, 24)
        yield from gen_hexseg(rng, 60, 5)


def classify(c):
    op = c['op']
    if op in ('pad', 'rebin', 'window') and is3(c['a']):
        op = op + '3'
    if c.get('dtype'):
        return f'{op}:{c["dtype"]}'
    if c.get('container'):
        return f'{op}:{c["container"]}'
    if c.get('flagform'):
        return f'{op}:flag-{c["flagform"]}'
    if c.get('scale2') is not None:
        return f'{op}:scaled'
    if c.get('layout'):
        return f'{op}:layout-{c["layout"]}'
    if c.get('form') or c.get('argform'):
        return f'{op}:argform'
    return op


def nontrivial(c):
    op = c['op']
    if op == 'pad':
        return list(shape_of(c['a'])[-2:]) != list(c['shape'])
    if op == 'subarray':
        return list(shape_of(c['a'])) != list(c['shape']) or c['shift'] != [0, 0]
    if op == 'window':
        return c['shape'] is not None or c['slice'] is not None
    if op in ('boundary', 'bslice'):
        return any(v == 0 for row in c['a'] for v in row)
    if op == 'rebin':
        return c['f'] > 1
    if op in ('circle', 'rect', 'hexagon'):
        return c['shift'] != ['0', '0'] or c.get('angle', '0') != '0' or c['shape'][0] != c['shape'][1]
    if op == 'shist':
        return len(c['draws']) > 1
    return True


# ------------------------------------------------------------------ model side
def encode(c):
    c = scaled(c)
    op = c['op']
    if op == 'pad':
        if is3(c['a']):
            return [2] + enc_cube(c['a']) + list(c['shape'])
        return [1] + enc_arr(c['a']) + list(c['shape'])
    if op == 'subarray':
        return [3] + enc_arr(c['a']) + list(c['shape']) + list(c['shift'])
    if op == 'window':
        if is3(c['a']):
            return [12] + enc_cube(c['a']) + C.enc_opt(c['shape'], list) + C.enc_opt(c['slice'], list)
        return [4] + enc_arr(c['a']) + C.enc_opt(c['shape'], list) + C.enc_opt(c['slice'], list)
    if op == 'boundary':
        return [5] + enc_arr(c['a']) + C.enc_q(Fraction(c['thr']))
    if op == 'bslice':
        return [6] + enc_arr(c['a']) + C.enc_q(Fraction(c['thr'])) + list(c['pad'])
    if op == 'soff':
        return [7] + list(c['slice']) + list(c['shape'])
    if op == 'soff_ell':
        return [8] + list(c['shape'])
    if op == 'centroid':
        return [9] + enc_arr(c['a'])
    if op == 'rebin' and c.get('complex'):
        if is3(c['a']):
            return [28, 1] + enc_cube(c['a']) + [c['f']]
        return [27, 1] + enc_arr(c['a']) + [c['f']]
    if op == 'rebin':
        if is3(c['a']):
            return [11] + enc_cube(c['a']) + [c['f']]
        return [10] + enc_arr(c['a']) + [c['f']]
    if op == 'mesh':
        co, si = rot_params(c['angle'])
        return [25] + list(c['shape']) + C.enc_q(Fraction(c['shift'][0])) + C.enc_q(Fraction(c['shift'][1])) + \
            C.enc_q(co) + C.enc_q(si)
    if op == 'spider':
        co, si = rot_params(c['angle'])
        return [26] + list(c['shape']) + C.enc_q(Fraction(c['width'])) + C.enc_q(float(np.sqrt(2))) + \
            C.enc_q(Fraction(c['shift'][0])) + C.enc_q(Fraction(c['shift'][1])) + C.enc_q(co) + C.enc_q(si) + [int(c['aa'])]
    if op == 'sanitize':
        if c['form'] in ('int', 'array0'):
            return [29, 0, c['arg']]
        return [29, 1, len(c['arg'])] + list(c['arg'])
    if op == 'soff_ellform':
        return [30, {'bare': 0, 'all': 1}.get(c['form'], 2)]
    if op in ('circle', 'rect', 'hexagon'):
        return [{'circle': 20, 'rect': 21, 'hexagon': 22}[op]] + list(c['shape']) + enc_draw(c)
    if op == 'shist':
        e = [24] + list(c['shape']) + [len(c['draws'])]
        for d in c['draws']:
            e += [{'circle': 0, 'rect': 1, 'hexagon': 2}[d['kind']]] + enc_draw(draw_case(c, d))
        return e
    if op == 'hexseg':
        return [23, c['rings'], c['pad']] + C.enc_q(Fraction(c['radius'])) + C.enc_q(Fraction(c['gap'])) + \
            C.enc_q(float(np.sqrt(3))) + [int(c['rotate']), len(c['drop'])] + list(c['drop'])
    raise ValueError(op)


def enc_draw(c):
    """parameters of one drawing call (without op code and array shape)"""
    op = c['op']
    sh = C.enc_q(Fraction(c['shift'][0])) + C.enc_q(Fraction(c['shift'][1]))
    if op == 'circle':
        return C.enc_q(Fraction(c['radius'])) + sh + [int(c['aa'])]
    if op == 'rect':
        co, si = rot_params(c['angle'])
        return C.enc_q(Fraction(c['width'])) + C.enc_q(Fraction(c['height'])) + sh + C.enc_q(co) + C.enc_q(si) + \
            [int(c['aa'])]
    ns = hex_normals(c['rotate'])
    e = C.enc_q(Fraction(c['radius'])) + C.enc_q(float(np.sqrt(3))) + sh + [len(ns)]
    for sn, cs in ns:
        e += C.enc_q(sn) + C.enc_q(cs)
    return e + [int(c['aa'])]


def rot_params(angle):
    """cos / sin of deg2rad(angle) as numpy computes them (inputs of the executed model)"""
    a = np.deg2rad(float(Fraction(angle)))
    return float(np.cos(a)), float(np.sin(a))


def hex_normals(rotate):
    """(sin theta, cos theta) of the six normals as lentil.hexagon uses them"""
    out = []
    for n in range(3):
        theta = n * np.pi / 3 if rotate else n * np.pi / 3 + np.pi / 6
        out.append((float(np.sin(theta)), float(np.cos(theta))))
    # since fix 41858ae the code evaluates three normals and tests |rho|: the other three are the exact negatives
    return out + [(-sn, -cs) for sn, cs in out]


def decode(c, ints):
    rd = C.Reader(ints, 1)
    st = rd.z()
    if st == 1:
        return {'err': C.ERRNAMES[rd.z()]}
    op = c['op']
    if op in ('pad', 'rebin'):
        return {'arr': flt(read_cubeq(rd) if is3(c['a']) else read_arrq(rd))}
    if op == 'window' and is3(c['a']):
        return {'arr': flt(read_cubeq(rd))}
    if op in ('subarray', 'window'):
        return {'arr': flt(read_arrq(rd))}
    if op == 'boundary':
        return {'box': [rd.z() for _ in range(4)]}
    if op == 'bslice':
        return {'slice': [rd.z() for _ in range(4)], 'offset': [rd.z(), rd.z()]}
    if op in ('soff', 'soff_ell'):
        return {'offset': [rd.z(), rd.z()]}
    if op == 'centroid':
        return {'rc': [rd.q(), rd.q()]}
    if op in ('circle', 'rect', 'hexagon'):
        return {'arr': flt(read_arrq(rd))}
    if op == 'mesh':
        return {'r': flt(read_arrq(rd)), 'c': flt(read_arrq(rd))}
    if op == 'spider':
        return {'arr': flt(read_arrq(rd))}
    if op == 'sanitize':
        return {'shape': rd.lst(rd.z)}
    if op == 'soff_ellform':
        return {'offset': [rd.z(), rd.z()]}
    if op == 'shist':
        return {'arrs': rd.lst(lambda: flt(read_arrq(rd)))}
    if op == 'hexseg':
        size = rd.z()
        segs = rd.lst(lambda: [rd.z(), rd.q(), rd.q()])
        return {'size': size, 'segs': segs}
    raise ValueError(op)


# ------------------------------------------------------------------ implementation side
def run_impl(c):
    c = scaled(c)
    lentil = C.import_lentil()
    op = c['op']
    try:
        if op == 'pad':
            a = mk_input(c)
            res = lentil.pad(a, seq_arg(c, c['shape']))
            out = {'arr': tolist(res), 'shape': list(res.shape), 'mutated': not unchanged(a, c)}
            sh = shape_of(c['a'])[-2:]
            if c['shape'][0] >= sh[0] and c['shape'][1] >= sh[1]:
                out['back'] = tolist(lentil.pad(res, sh))
            return out
        if op == 'subarray':
            a = mk_input(c)
            res = lentil.subarray(a, seq_arg(c, c['shape']), seq_arg(c, c['shift']))
            return {'arr': tolist(res), 'shape': list(res.shape), 'mutated': not unchanged(a, c)}
        if op == 'window':
            a = mk_input(c)
            res = lentil.window(a, shape=None if c['shape'] is None else seq_arg(c, c['shape']),
                                slice=None if c['slice'] is None else seq_arg(c, c['slice']))
            return {'arr': tolist(res), 'shape': list(np.shape(res)), 'mutated': not unchanged(a, c)}
        if op == 'boundary':
            a = mk_input(c)
            res = lentil.boundary(a, float(Fraction(c['thr'])))
            return {'box': [int(v) for v in res], 'mutated': not unchanged(a, c)}
        if op == 'bslice':
            x = mk_input(c)
            padarg = c['pad'][0] if c.get('padform') == 'int' else tuple(c['pad'])
            s = lentil.helper.boundary_slice(x, float(Fraction(c['thr'])), padarg)
            off = lentil.helper.slice_offset(s, x.shape)
            sub = x[s]
            ext = lentil.extent.array_extent(sub.shape, off)
            return {'slice': [int(s[0].start), int(s[0].stop), int(s[1].start), int(s[1].stop)],
                    'offset': [int(off[0]), int(off[1])], 'sub': tolist(sub), 'extent': [int(v) for v in ext],
                    'mutated': not unchanged(x, c)}
        if op == 'soff':
            s = c['slice']
            off = lentil.helper.slice_offset((slice(s[0], s[1]), slice(s[2], s[3])), seq_arg(c, c['shape']))
            return {'offset': [int(off[0]), int(off[1])]}
        if op == 'soff_ell':
            off = lentil.helper.slice_offset(Ellipsis, tuple(c['shape']))
            return {'offset': [int(off[0]), int(off[1])]}
        if op == 'centroid':
            a = mk_input(c)
            r, cc = lentil.centroid(a)
            return {'rc': [float(r), float(cc)], 'mutated': not unchanged(a, c)}
        if op == 'rebin' and c.get('complex'):
            res = lentil.rebin(nparr(c['a']).astype(complex) * (1 + 0j if c['complex'] == 'real-valued' else 1 + 1j),
                               c['f'])
            return {'arr': np.asarray(res).real.tolist(), 'shape': list(res.shape)}
        if op == 'mesh':
            sh = (float(Fraction(c['shift'][0])), float(Fraction(c['shift'][1])))
            r, q = lentil.helper.mesh(seq_arg(c, c['shape']), sh, float(Fraction(c['angle'])))
            r2, q2 = lentil.helper.mesh(seq_arg(c, c['shape']), (sh[0] + c['d'][0], sh[1] + c['d'][1]),
                                        float(Fraction(c['angle'])))
            return {'r': tolist(r), 'c': tolist(q), 'r_shift': tolist(r2), 'c_shift': tolist(q2)}
        if op == 'spider':
            sh = (float(Fraction(c['shift'][0])), float(Fraction(c['shift'][1])))
            kw = dict(angle=float(Fraction(c['angle'])), antialias=flag(c, c['aa']))
            w = float(Fraction(c['width']))
            a = lentil.spider(tuple(c['shape']), w, shift=sh, **kw)
            b = lentil.spider(tuple(c['shape']), w, shift=(sh[0] + c['d'][0], sh[1] + c['d'][1]), **kw)
            ln, sh2 = spider_arm(c, sh)
            arm = lentil.rectangle(tuple(c['shape']), ln, w, shift=sh2, **kw)
            return {'arr': tolist(a), 'arr_shift': tolist(b), 'arm': tolist(arm)}
        if op == 'sanitize':
            arg = {'int': lambda v: int(v), 'array0': lambda v: np.array(v), 'list': list, 'tuple': tuple,
                   'array': lambda v: np.array(v, dtype=int)}[c['form']](c['arg'])
            return {'shape': [int(v) for v in lentil.util.sanitize_shape(arg)]}
        if op == 'soff_ellform':
            sl = {'bare': Ellipsis, 'all': (Ellipsis, slice(None, None, None)), 'index': (Ellipsis, 2),
                  'range': (Ellipsis, slice(2, 4, None))}[c['form']]
            off = lentil.helper.slice_offset(sl, tuple(c['shape']))
            return {'offset': [int(off[0]), int(off[1])]}
        if op == 'rebin':
            a = mk_input(c)
            res = lentil.rebin(a, c['f'])
            return {'arr': tolist(res), 'shape': list(res.shape), 'mutated': not unchanged(a, c),
                    'out_dtype': str(res.dtype)}
        if op == 'shist':
            return run_history(c)
        if op in ('circle', 'rect', 'hexagon'):
            sh = (float(Fraction(c['shift'][0])), float(Fraction(c['shift'][1])))
            sh2 = (sh[0] + c['d'][0], sh[1] + c['d'][1])
            return {'arr': tolist(draw(lentil, c, sh)), 'arr_shift': tolist(draw(lentil, c, sh2))}
        if op == 'hexseg':
            kw = dict(rings=c['rings'], seg_radius=float(Fraction(c['radius'])), seg_gap=float(Fraction(c['gap'])),
                      rotate=flag(c, c['rotate']), flatten=flag(c, False), pad=c['pad'], drop=tuple(c['drop']))
            m = np.asarray(lentil.hex_segments(antialias=flag(c, c['aa']), **kw), dtype=float)
            mb = m if not c['aa'] else np.asarray(lentil.hex_segments(antialias=flag(c, False), **kw), dtype=float)
            out = {'shape': list(m.shape), '_mask': Blob(m)}
            if c.get('flatten') and m.ndim == 3:
                kwf = dict(kw, flatten=flag(c, True))
                fl = np.asarray(lentil.hex_segments(antialias=flag(c, c['aa']), **kwf), dtype=float)
                out['flatten_ok'] = bool(fl.shape == m.shape[1:] and np.array_equal(fl, m.sum(axis=0)))
            if mb.ndim == 3 and mb.shape[0]:
                cover = mb.sum(axis=0)
                out['overlap'] = int((cover > 1).sum())
                out['overlap_max_cover'] = int(cover.max())
                out['overlap_depth'] = overlap_depth(c, mb, cover)
                out['binary'] = bool(np.all((mb == 0) | (mb == 1)))
                out['areas'] = [float(v) for v in m.reshape(m.shape[0], -1).sum(axis=1)]
                out['border'] = float(max(np.abs(m[:, 0, :]).max(), np.abs(m[:, -1, :]).max(),
                                          np.abs(m[:, :, 0]).max(), np.abs(m[:, :, -1]).max()))
                out['range_ok'] = bool(m.min() >= 0.0 and m.max() <= 1.0)
            return out
    except Exception as e:
        return {'err': type(e).__name__}
    raise ValueError(op)


def draw_case(c, d):
    return dict(d, op=d['kind'], shape=c['shape'])


def int_shift(d):
    sh = [Fraction(v) for v in d['shift']]
    return all(v.denominator == 1 for v in sh) and any(v != 0 for v in sh)


def run_history(c):
    """the draws of the case in ONE interpreter state, one after the other; then every draw again as the
    first call of a fresh state; then, for integer shifts, the centred version of the draw in a fresh state"""
    draws = [draw_case(c, d) for d in c['draws']]
    shifts = [(float(Fraction(d['shift'][0])), float(Fraction(d['shift'][1]))) for d in draws]
    lentil = fresh_lentil()
    hist = [tolist(draw(lentil, d, sh)) for d, sh in zip(draws, shifts)]
    fresh, centred = [], []
    for d, sh in zip(draws, shifts):
        fresh.append(tolist(draw(fresh_lentil(), d, sh)))
        centred.append(tolist(draw(fresh_lentil(), d, (0.0, 0.0))) if int_shift(d) else None)
    fresh_lentil()
    return {'hist': hist, 'fresh': fresh, 'centred': centred}


def hex_centres(c):
    """(row, col) centres of the kept segments, recomputed with plain loops from the lattice walk of the property
    (centre, then ring by ring, six sides of r steps starting at (-r, r)); independent of lentil and of the model"""
    s3 = math.sqrt(3.0)
    rad = float(Fraction(c['radius'])) + float(Fraction(c['gap'])) / 2
    pts = [(0, 0)]
    for ring in range(1, c['rings'] + 1):
        q, r = -ring, ring
        for dq, dr in ((1, 0), (1, -1), (0, -1), (-1, 0), (-1, 1), (0, 1)):
            for _ in range(ring):
                pts.append((q, r))
                q, r = q + dq, r + dr
    out = []
    for seg, (q, r) in enumerate(pts):
        if seg in c['drop']:
            continue
        if c['rotate']:
            x, y = rad * (s3 * q + s3 / 2 * r), rad * (1.5 * r)
        else:
            x, y = rad * (1.5 * q), rad * (s3 / 2 * q + s3 * r)
        out.append((-y, x))
    return out


def overlap_depth(c, mb, cover):
    """how far inside a hexagon (in samples, measured with the lattice centres above) the deepest doubly covered
    sample lies: ~0 for samples ON a common edge (the recorded seg_gap = 0 design fact), clearly positive for real
    overlap.  None when the masks cannot be matched to the lattice."""
    cen = hex_centres(c)
    if len(cen) != mb.shape[0] or not (cover > 1).any():
        return None
    inner = float(Fraction(c['radius'])) * math.sqrt(3.0) / 2
    ci, cj = mb.shape[1] // 2, mb.shape[2] // 2
    worst = 0.0
    for i, j in np.argwhere(cover > 1):
        depths = []
        for k in np.nonzero(mb[:, i, j])[0]:
            rr, cc = i - ci - cen[k][0], j - cj - cen[k][1]
            depths.append(inner - max(rr * sn + cc * cs for sn, cs in hex_normals(c['rotate'])))
        worst = max(worst, min(depths))
    return float(worst)


def spider_arm(c, sh):
    """length and shifted centre of the rectangle lentil.spider subtracts from 1, computed as the code does"""
    n, m = c['shape']
    ln = np.sqrt(2) * np.max((n, m)) / 2
    dist = ln / 2
    ang = np.deg2rad(float(Fraction(c['angle'])))
    return ln, (sh[0] + -dist * np.sin(ang), sh[1] + dist * np.cos(ang))


class Blob:
    """keeps a big array out of evidence / replay files"""
    def __init__(self, a):
        self.a = a

    def __repr__(self):
        return f'<array {self.a.shape}>'


def draw(lentil, c, sh):
    op = c['op']
    if op == 'circle':
        return lentil.circle(seq_arg(c, c['shape']), float(Fraction(c['radius'])), shift=shift_arg(c, sh),
                             antialias=flag(c, c['aa']))
    if op == 'rect':
        return lentil.rectangle(seq_arg(c, c['shape']), float(Fraction(c['width'])), float(Fraction(c['height'])),
                                shift=shift_arg(c, sh), angle=float(Fraction(c['angle'])), antialias=flag(c, c['aa']))
    return lentil.hexagon(seq_arg(c, c['shape']), float(Fraction(c['radius'])), shift=shift_arg(c, sh),
                          rotate=flag(c, c['rotate']),
                          antialias=flag(c, c['aa']))


def edge_margin(c, shape, sh):
    """per-sample distance (float) of the drawing inequalities from equality: binary values of samples
    closer than 1e-9 to an edge are decided by rounding and are not compared"""
    n, m = shape
    rr = (np.arange(n) - np.floor(n / 2.0) - sh[0])[:, None] * np.ones((1, m))
    cc = np.ones((n, 1)) * (np.arange(m) - np.floor(m / 2.0) - sh[1])[None, :]
    op = c['op']
    if op == 'circle':
        return np.abs(float(Fraction(c['radius'])) + 0.5 - np.sqrt(rr ** 2 + cc ** 2))
    if op == 'spider':
        ln, sh2 = spider_arm(c, sh)
        return edge_margin({'op': 'rect', 'width': Fraction(ln), 'height': c['width'], 'angle': c['angle']}, shape, sh2)
    if op == 'rect':
        co, si = rot_params(c['angle'])
        r = rr * co + cc * si
        q = rr * -si + cc * co
        return np.minimum(np.abs(0.5 + float(Fraction(c['width'])) / 2 - np.abs(q)),
                          np.abs(0.5 + float(Fraction(c['height'])) / 2 - np.abs(r)))
    inner = float(Fraction(c['radius'])) * np.sqrt(3) / 2
    mg = np.full((n, m), np.inf)
    for sn, cs in hex_normals(c['rotate']):
        mg = np.minimum(mg, np.abs(inner - (rr * sn + cc * cs)))
    return mg


def close_arrays(a, b, aa, margin, tol=1e-12):
    """None if equal in the sense the property pins, else a message"""
    a = np.asarray(a, dtype=float)
    b = np.asarray(b, dtype=float)
    if a.shape != b.shape:
        return f'shapes differ: {a.shape} vs {b.shape}'
    if a.size == 0:
        return None
    if aa:
        bad = np.abs(a - b) > tol
    else:
        bad = (a != b) & (margin > 1e-9)
    if bad.any():
        i, j = [int(v) for v in np.argwhere(bad)[0]]
        return f'sample ({i},{j}): {a[i, j]!r} vs {b[i, j]!r}'
    return None


# ------------------------------------------------------------------ comparison
def compare(c, impl, model):
    op = c['op']
    if ('err' in impl) != ('err' in model):
        return (f'implementation {impl if "err" in impl else "returned a value"}, '
                f'model {model if "err" in model else "returned a value"}')
    if 'err' in impl:
        return None if impl['err'] == model['err'] else f'error kinds differ: impl {impl["err"]} model {model["err"]}'
    if op in ('pad', 'subarray', 'window', 'rebin'):
        return None if impl['arr'] == model['arr'] else f'{op}: arrays differ: impl {impl["arr"]} model {model["arr"]}'
    if op == 'boundary':
        return None if impl['box'] == model['box'] else f'boundary: impl {impl["box"]} model {model["box"]}'
    if op == 'bslice':
        if impl['slice'] != model['slice'] or impl['offset'] != model['offset']:
            return f'boundary_slice/slice_offset: impl {impl["slice"]} {impl["offset"]} model {model["slice"]} {model["offset"]}'
        return None
    if op in ('soff', 'soff_ell'):
        return None if impl['offset'] == model['offset'] else f'slice_offset: impl {impl["offset"]} model {model["offset"]}'
    if op == 'centroid':
        tol = centroid_tol(c)
        for x, y in zip(impl['rc'], model['rc']):
            if not abs(x - float(y)) <= tol * (1 + abs(float(y))):
                return f'centroid: impl {impl["rc"]} model {[str(v) for v in model["rc"]]}'
        return None
    if op in ('circle', 'rect', 'hexagon'):
        msg = cmp_draw(c, impl['arr'], model['arr'])
        return None if msg is None else f'{op}: impl vs model: {msg}'
    if op == 'mesh':
        exact = Fraction(c['angle']) == 0
        for key in ('r', 'c'):
            msg = close_arrays(impl[key], model[key], True, None, 0.0 if exact else 1e-12)
            if msg:
                return f'mesh: grid {key}: impl vs model: {msg}'
        return None
    if op == 'spider':
        sh = (float(Fraction(c['shift'][0])), float(Fraction(c['shift'][1])))
        msg = close_arrays(impl['arr'], model['arr'], c['aa'], edge_margin(c, c['shape'], sh))
        return None if msg is None else f'spider: impl vs model: {msg}'
    if op == 'sanitize':
        return None if impl['shape'] == model['shape'] else f'sanitize_shape: impl {impl["shape"]} model {model["shape"]}'
    if op == 'soff_ellform':
        return None if impl['offset'] == model['offset'] else f'slice_offset: impl {impl["offset"]} model {model["offset"]}'
    if op == 'shist':
        if len(model['arrs']) != len(c['draws']):
            return 'history: model returned a different number of drawings'
        for k, d in enumerate(c['draws']):
            msg = cmp_draw(draw_case(c, d), impl['hist'][k], model['arrs'][k])
            if msg:
                return f'history: draw {k} ({d["kind"]}) impl vs model: {msg}'
        return None
    if op == 'hexseg':
        lentil = C.import_lentil()
        m = impl['_mask'].a
        k = len(model['segs'])
        exp_shape = [k, model['size'], model['size']] if k else [0]
        if impl['shape'] != exp_shape:
            return f'hex_segments: result shape {impl["shape"]}, model {exp_shape}'
        R = float(Fraction(c['radius']))
        hc = {'op': 'hexagon', 'radius': c['radius'], 'rotate': c['rotate']}
        for idx, (seg, r, cc) in enumerate(model['segs']):
            sh = (float(r), float(cc))
            exp = lentil.hexagon((model['size'], model['size']), R, shift=sh, rotate=c['rotate'], antialias=c['aa'])
            msg = close_arrays(m[idx], exp, c['aa'], edge_margin(hc, (model['size'], model['size']), sh), 1e-9)
            if msg:
                return f'hex_segments: mask {idx} is not hexagon(shift of segment {seg} = {sh}): {msg}'
        return None
    raise ValueError(op)


def centroid_tol(c):
    # float32 data are divided in float32 by lentil.centroid (relative rounding 6e-8 per sample)
    return 2e-6 if c.get('dtype') == 'float32' else 1e-12


def cmp_draw(c, impl_arr, model_arr):
    op = c['op']
    sh = (float(Fraction(c['shift'][0])), float(Fraction(c['shift'][1])))
    exact = op == 'circle' and not c['aa'] or (op == 'rect' and Fraction(c['angle']) == 0)
    if exact:
        return None if impl_arr == model_arr else close_arrays(impl_arr, model_arr, True, None, 0.0)
    return close_arrays(impl_arr, model_arr, c['aa'], edge_margin(c, c['shape'], sh))


# ------------------------------------------------------------------ direct property oracle (plain loops, no model)
def pad_oracle_2d(a, out, N, M):
    n, m = len(a), len(a[0])
    if len(out) != N or (N and len(out[0]) != M):
        return 'padded shape is not the requested shape'
    hit = set()
    for i in range(n):
        for j in range(m):
            ti, tj = i - n // 2 + N // 2, j - m // 2 + M // 2
            if 0 <= ti < N and 0 <= tj < M:
                hit.add((ti, tj))
                if out[ti][tj] != a[i][j]:
                    return (f'sample ({i},{j}) does not land on ({ti},{tj}) = (i - n//2 + N//2, j - m//2 + M//2): '
                            f'{out[ti][tj]} != {a[i][j]}')
    for ti in range(N):
        for tj in range(M):
            if (ti, tj) not in hit and out[ti][tj] != 0:
                return f'padding at ({ti},{tj}) is not zero'
    return None


def oracle(c, impl):
    c = scaled(c)
    op = c['op']
    if impl.get('mutated'):
        return f'{op} modified the array it was given'
    if op == 'shist':
        return history_oracle(c, impl)
    if op == 'rebin' and c.get('complex'):
        return None if impl.get('err') == 'ValueError' else f'rebin of complex data was not refused with ValueError: {str(impl)[:80]}'
    if op in ('mesh', 'spider', 'sanitize', 'soff_ellform'):
        return deepen_oracle(c, impl)
    if op == 'pad':
        if 'err' in impl:
            return f'pad raised {impl["err"]}'
        a = flt([[Fraction(v) for v in row] for row in c['a']]) if not is3(c['a']) else None
        N, M = c['shape']
        if is3(c['a']):
            if impl['shape'] != [len(c['a']), N, M]:
                return f'padded cube has shape {impl["shape"]}'
            for k, sl in enumerate(c['a']):
                msg = pad_oracle_2d(flt(sl), impl['arr'][k], N, M) if N and M else None
                if msg:
                    return f'cube slice {k}: {msg}'
            if 'back' in impl and impl['back'] != flt(c['a']):
                return 'pad(pad(cube, big), shape) is not the cube'
            return None
        if impl['shape'] != [N, M]:
            return f'padded array has shape {impl["shape"]}'
        msg = pad_oracle_2d(a, impl['arr'], N, M) if N and M else None
        if msg:
            return msg
        if 'back' in impl and impl['back'] != a:
            return 'pad(pad(a, big), a.shape) is not a'
        return None
    if op == 'subarray':
        a = c['a']
        n, m = len(a), len(a[0])
        sr, sc = c['shape']
        shr, shc = c['shift']
        rmin, cmin = n // 2 - sr // 2 + shr, m // 2 - sc // 2 + shc
        outside = rmin < 0 or cmin < 0 or rmin + sr > n or cmin + sc > m
        if outside:
            return None if impl.get('err') == 'ValueError' else f'window outside the array was not refused with ValueError: {impl}'
        if 'err' in impl:
            return f'subarray raised {impl["err"]} for a window inside the array'
        if impl['shape'] != [sr, sc]:
            return f'subarray shape {impl["shape"]}'
        for i in range(sr):
            for j in range(sc):
                if impl['arr'][i][j] != a[i - sr // 2 + n // 2 + shr][j - sc // 2 + m // 2 + shc]:
                    return f'subarray sample ({i},{j}) is not the source sample at the same coordinate relative to the origin (+shift)'
        return None
    if op == 'window' and is3(c['a']):
        return window_cube_oracle(c, impl)
    if op == 'window':
        a = c['a']
        n, m = len(a), len(a[0])
        if n * m == 1 or (c['shape'] is None and c['slice'] is None):
            return None if impl.get('arr') == flt(a) else 'window without shape/slice (or of a single value) is not the input'
        if c['slice'] is not None:
            s = c['slice']
            if c['shape'] is not None and (s[1] - s[0] != c['shape'][0] or s[3] - s[2] != c['shape'][1]):
                return None if impl.get('err') == 'AssertionError' else 'inconsistent shape/slice not refused'
            exp = [row[s[2]:s[3]] for row in a[s[0]:s[1]]]
            if 'err' in impl:
                return f'window raised {impl["err"]}'
            got = impl['arr'] if impl['shape'][0] and impl['shape'][1] else []
            exp = exp if exp and exp[0] else []
            return None if got == flt(exp) else 'window slice is not the requested view'
        if 'err' in impl:
            return f'window raised {impl["err"]}'
        N, M = c['shape']
        return pad_oracle_2d(flt(a), impl['arr'], N, M)
    if op in ('boundary', 'bslice'):
        a = c['a']
        n, m = len(a), len(a[0])
        thr = Fraction(c['thr'])
        pts = [(i, j) for i in range(n) for j in range(m) if a[i][j] > thr]
        if not pts:
            return None if impl.get('err') == 'IndexError' else f'no sample above the threshold: expected IndexError, got {impl}'
        if 'err' in impl:
            return f'{op} raised {impl["err"]}'
        box = [min(p[0] for p in pts), max(p[0] for p in pts), min(p[1] for p in pts), max(p[1] for p in pts)]
        if op == 'boundary':
            return None if impl['box'] == box else f'boundary {impl["box"]} is not the bounding box {box}'
        pr, pc = c['pad']
        exp = [max(box[0] - pr, 0), min(box[1] + pr + 1, n), max(box[2] - pc, 0), min(box[3] + pc + 1, m)]
        if impl['slice'] != exp:
            return f'boundary_slice {impl["slice"]} is not the (padded, clipped) bounding box {exp}'
        s = impl['slice']
        off = impl['offset']
        if off != [s[0] + (s[1] - s[0]) // 2 - n // 2, s[2] + (s[3] - s[2]) // 2 - m // 2]:
            return f'slice_offset {off} is not (origin sample of the slice) - (origin sample of the array)'
        # Field(x[s], offset) embeds back onto x, with the extent lentil.extent.array_extent gives it
        e = impl['extent']
        sub = impl['sub']
        if thr == 0 and all(v >= 0 for row in a for v in row):
            for i in range(n):
                for j in range(m):
                    r, cc = i - n // 2, j - m // 2
                    inside = e[0] <= r <= e[1] and e[2] <= cc <= e[3]
                    v = sub[r - e[0]][cc - e[2]] if inside else 0.0
                    if v != a[i][j]:
                        return f'Field(x[boundary_slice], slice_offset) does not embed back onto x at ({i},{j})'
        return None
    if op == 'soff':
        s = c['slice']
        n, m = c['shape']
        if 'err' in impl:
            return f'slice_offset raised {impl["err"]}'
        exp = [s[0] + (s[1] - s[0]) // 2 - n // 2, s[2] + (s[3] - s[2]) // 2 - m // 2]
        return None if impl['offset'] == exp else f'slice_offset {impl["offset"]} != {exp}'
    if op == 'soff_ell':
        return None if impl.get('offset') == [0, 0] else f'slice_offset(Ellipsis) = {impl}'
    if op == 'centroid':
        a = c['a']
        if 'err' in impl:
            return f'centroid raised {impl["err"]}'
        tot = sum(Fraction(v) for row in a for v in row)
        if tot == 0:
            return None
        r = sum(Fraction(i) * Fraction(v) for i, row in enumerate(a) for v in row) / tot
        cc = sum(Fraction(j) * Fraction(v) for row in a for j, v in enumerate(row)) / tot
        nz = [(i, j) for i, row in enumerate(a) for j, v in enumerate(row) if v != 0]
        if len(nz) == 1:
            return None if impl['rc'] == [float(nz[0][0]), float(nz[0][1])] else \
                f'centroid of an impulse at {nz[0]} is {impl["rc"]}'
        tol = centroid_tol(c)
        ok = abs(impl['rc'][0] - float(r)) <= tol * (1 + abs(float(r))) and \
            abs(impl['rc'][1] - float(cc)) <= tol * (1 + abs(float(cc)))
        return None if ok else f'centroid {impl["rc"]} is not ({r}, {cc})'
    if op == 'rebin':
        a = c['a']
        f = c['f']
        cube = a if is3(a) else [a]
        n, m = len(cube[0]), len(cube[0][0])
        if n % f or m % f:
            return None if impl.get('err') == 'ValueError' else f'non-divisible shape not refused: {impl.get("shape")}'
        if 'err' in impl:
            return f'rebin raised {impl["err"]}'
        out = impl['arr'] if is3(a) else [impl['arr']]
        if len(out) != len(cube):
            return 'rebin changed the number of slices'
        for sl, o in zip(cube, out):
            if len(o) != n // f or len(o[0]) != m // f:
                return f'rebinned shape is not ({n // f}, {m // f})'
            if sum(v for row in o for v in row) != sum(v for row in sl for v in row):
                return (f'rebin does not preserve the sum: {sum(v for row in sl for v in row)} -> '
                        f'{sum(v for row in o for v in row)} (input dtype {c.get("dtype", "float64")}, '
                        f'result dtype {impl.get("out_dtype")})')
            for i in range(n // f):
                for j in range(m // f):
                    if o[i][j] != sum(sl[i * f + u][j * f + v] for u in range(f) for v in range(f)):
                        return f'rebinned sample ({i},{j}) is not the sum of its {f}x{f} block'
        return None
    if op in ('circle', 'rect', 'hexagon'):
        return shape_oracle(c, impl)
    if op == 'hexseg':
        return hexseg_oracle(c, impl)
    return None


def slice_axes(a, s, axes):
    """plain-list slicing of a cube along the image axes (1, 2) or along the leading axes (0, 1)"""
    if axes == 'image':
        return [[row[s[2]:s[3]] for row in sl[s[0]:s[1]]] for sl in a]
    return [[list(row) for row in sl[s[2]:s[3]]] for sl in a[s[0]:s[1]]]


def window_cube_oracle(c, impl):
    a = c['a']
    d, n, m = shape_of(a)
    if d * n * m == 1 or (c['shape'] is None and c['slice'] is None):
        return None if impl.get('arr') == flt(a) else 'window without shape/slice (or of a single value) is not the input'
    if c['slice'] is not None:
        s = c['slice']
        if c['shape'] is not None and (s[1] - s[0] != c['shape'][0] or s[3] - s[2] != c['shape'][1]):
            return None if impl.get('err') == 'AssertionError' else 'inconsistent shape/slice not refused'
        if 'err' in impl:
            return f'window raised {impl["err"]}'
        # (r_start, r_end, c_start, c_end) index the image axes, the axes shape= and pad use
        exp = np.array(flt(a))[:, s[0]:s[1], s[2]:s[3]]
        got = np.array(impl['arr'], dtype=float).reshape(impl['shape'])
        if got.shape != exp.shape or not np.array_equal(got, exp):
            return (f'window(cube {(d, n, m)}, slice={s}) has shape {list(got.shape)}: it is not the slice of the image '
                    f'axes (rows, cols) of every layer, shape {list(exp.shape)}')
        return None
    if 'err' in impl:
        return f'window raised {impl["err"]}'
    N, M = c['shape']
    if impl['shape'] != [d, N, M]:
        return f'window(cube {(d, n, m)}, shape={c["shape"]}) has shape {impl["shape"]}, expected {[d, N, M]} (= pad)'
    for k, sl in enumerate(a):
        msg = pad_oracle_2d(flt(sl), impl['arr'][k], N, M)
        if msg:
            return f'window(cube, shape=): layer {k}: {msg}'
    return None


def shape_oracle(c, impl, strict=True):
    """strict=False forgives symmetry mismatches of binary hexagon samples that sit within 1e-9 of an edge (float
    ties); strict=True (what the check uses) reports them after everything else has been checked"""
    op = c['op']
    ties = []
    if 'err' in impl:
        return f'{op} raised {impl["err"]}'
    a = impl['arr']
    n, m = c['shape']
    if len(a) != n or len(a[0]) != m:
        return f'{op}: result shape is not {c["shape"]}'
    for i in range(n):
        for j in range(m):
            v = a[i][j]
            if not (0.0 <= v <= 1.0):
                return f'{op}: value {v!r} at ({i},{j}) outside [0, 1]'
            if not c['aa'] and v not in (0.0, 1.0):
                return f'{op}: non-binary value {v!r} at ({i},{j}) without antialiasing'
    # exact translation under the integer shift d
    b = impl['arr_shift']
    d0, d1 = c['d']
    for i in range(n):
        for j in range(m):
            if 0 <= i + d0 < n and 0 <= j + d1 < m and b[i + d0][j + d1] != a[i][j]:
                return (f'{op}: shifting the centre by {c["d"]} does not translate the drawing exactly: '
                        f'sample ({i},{j}) = {a[i][j]!r} but shifted sample = {b[i + d0][j + d1]!r}')
    # symmetries about the origin sample (zero shift)
    if c['shift'] == ['0', '0']:
        mg = edge_margin(c, c['shape'], (0.0, 0.0))
        unrot = op == 'circle' or op == 'hexagon' or Fraction(c['angle']) == 0
        exact = op != 'hexagon'
        ci, cj = n // 2, m // 2

        def same(x, y, i, j, i2, j2):
            if exact:
                return x == y
            if c['aa']:
                return abs(x - y) <= 1e-12
            # binary hexagon: since fix 41858ae (three normals, |rho|) the half-turn is exact in floats; under the
            # mirrors only a sample exactly on the outline could differ (cos(pi/2) is 6e-17, not 0), and with the
            # half-turn exact the only such samples, the two vertices, agree: any mismatch is reported
            if x == y:
                return True
            if mg[i][j] <= 1e-9 or mg[i2][j2] <= 1e-9:
                ties.append(((i - ci, j - cj), x, (i2 - ci, j2 - cj), y))
                return not strict
            return False
        for i in range(n):
            for j in range(m):
                i2, j2 = 2 * ci - i, 2 * cj - j
                # exact for every shape, antialiased or not: (-r)*s + (-c)*co == -(r*s + c*co) in floats, and every
                # drawing depends on the sign of its coordinates only through |.| or squares (hexagon since 41858ae)
                if 0 <= i2 < n and 0 <= j2 < m and a[i][j] != a[i2][j2]:
                    return (f'{op}: not invariant under the half-turn about the origin sample: ({i},{j}) = {a[i][j]!r} vs '
                            f'({i2},{j2}) = {a[i2][j2]!r}')
                if unrot:
                    if 0 <= i2 < n and not same(a[i][j], a[i2][j], i, j, i2, j):
                        return f'{op}: not invariant under the row mirror: ({i},{j}) vs ({i2},{j})'
                    if 0 <= j2 < m and not same(a[i][j], a[i][j2], i, j, i, j2):
                        return f'{op}: not invariant under the column mirror: ({i},{j}) vs ({i},{j2})'
    if ties and strict:
        p, x, q, y = ties[0]
        return (f'{op}: not invariant under the half-turn / mirror about the origin sample: the sample at {p} (relative '
                f'to the origin sample) is {x!r}, its image at {q} is {y!r}; both lie exactly on the hexagon outline '
                f'(a vertex), where the six float normals break the tie differently')
    return None


def deepen_oracle(c, impl):
    op = c['op']
    if op == 'soff_ellform':
        if c['form'] in ('bare', 'all'):
            return None if impl.get('offset') == [0, 0] else f'slice_offset({c["form"]} Ellipsis form) is not (0, 0): {impl}'
        return None if impl.get('err') == 'ValueError' else \
            f'slice_offset of a tuple with an Ellipsis it cannot interpret was not refused with ValueError: {impl}'
    if 'err' in impl:
        return f'{op} raised {impl["err"]}'
    if op == 'sanitize':
        a = c['arg']
        exp = [a, a] if c['form'] in ('int', 'array0') else list(a)
        return None if impl['shape'] == exp else f'sanitize_shape({a!r} as {c["form"]}) = {impl["shape"]}, expected {exp}'
    n, m = c['shape']
    if op == 'mesh':
        r, q = impl['r'], impl['c']
        if len(r) != n or len(r[0]) != m or len(q) != n or len(q[0]) != m:
            return 'mesh: grids do not have the requested shape'
        s = [Fraction(v) for v in c['shift']]
        if all(v.denominator == 1 for v in s):
            i0, j0 = n // 2 + int(s[0]), m // 2 + int(s[1])
            if 0 <= i0 < n and 0 <= j0 < m and (r[i0][j0] != 0 or q[i0][j0] != 0):
                return f'mesh: coordinates at the origin sample + shift ({i0},{j0}) are ({r[i0][j0]!r}, {q[i0][j0]!r}), not 0'
        d0, d1 = c['d']
        for i in range(n):
            for j in range(m):
                if 0 <= i + d0 < n and 0 <= j + d1 < m and \
                        (impl['r_shift'][i + d0][j + d1] != r[i][j] or impl['c_shift'][i + d0][j + d1] != q[i][j]):
                    return f'mesh: shifting by {c["d"]} does not move the grid by {c["d"]} samples (at ({i},{j}))'
                if s == [0, 0]:
                    i2, j2 = 2 * (n // 2) - i, 2 * (m // 2) - j
                    if 0 <= i2 < n and 0 <= j2 < m and (r[i2][j2] != -r[i][j] or q[i2][j2] != -q[i][j]):
                        return f'mesh: not odd under the half-turn about the origin sample: ({i},{j}) vs ({i2},{j2})'
        return None
    a, b, arm = impl['arr'], impl['arr_shift'], impl['arm']
    sh = (float(Fraction(c['shift'][0])), float(Fraction(c['shift'][1])))
    mg = edge_margin(c, c['shape'], sh)
    d0, d1 = c['d']
    mg2 = edge_margin(c, c['shape'], (sh[0] + d0, sh[1] + d1))
    for i in range(n):
        for j in range(m):
            v = a[i][j]
            if not (0.0 <= v <= 1.0):
                return f'spider: value {v!r} at ({i},{j}) outside [0, 1]'
            if not c['aa'] and v not in (0.0, 1.0):
                return f'spider: non-binary value {v!r} at ({i},{j}) without antialiasing'
            if v != 1 - arm[i][j]:
                return f'spider: sample ({i},{j}) = {v!r} is not 1 - rectangle(len, width, shifted centre) = {1 - arm[i][j]!r}'
            if 0 <= i + d0 < n and 0 <= j + d1 < m:
                w = b[i + d0][j + d1]
                # the shifted centre is (shift + d) + offset in floats: 1 ulp from (shift + offset) + d
                ok = abs(w - v) <= 1e-12 if c['aa'] else (w == v or mg[i][j] <= 1e-9 or mg2[i + d0][j + d1] <= 1e-9)
                if not ok:
                    return f'spider: shifting by {c["d"]} does not translate the drawing: ({i},{j}) = {v!r}, shifted = {w!r}'
    return None


def history_oracle(c, impl):
    if 'err' in impl:
        return f'drawing history raised {impl["err"]}'
    n, m = c['shape']
    for k, d in enumerate(c['draws']):
        a = impl['hist'][k]
        what = f'draw {k} ({d["kind"]}, shift {d["shift"]}) after {[x["kind"] for x in c["draws"][:k]]}'
        for i in range(n):
            for j in range(m):
                v = a[i][j]
                if not (0.0 <= v <= 1.0):
                    return f'{what}: value {v!r} at ({i},{j}) outside [0, 1]'
                if not d['aa'] and v not in (0.0, 1.0):
                    return f'{what}: non-binary value {v!r} at ({i},{j}) without antialiasing'
        # exact translation: the drawing with the integer shift s is the centred drawing moved by s samples
        z = impl['centred'][k]
        if z is not None:
            s0, s1 = int(Fraction(d['shift'][0])), int(Fraction(d['shift'][1]))
            for i in range(n):
                for j in range(m):
                    if 0 <= i + s0 < n and 0 <= j + s1 < m and a[i + s0][j + s1] != z[i][j]:
                        return (f'{what}: is not the translate by ({s0},{s1}) of the centred drawing: sample '
                                f'({i + s0},{j + s1}) = {a[i + s0][j + s1]!r}, centred sample ({i},{j}) = {z[i][j]!r}')
        if a != impl['fresh'][k]:
            bad = [(i, j) for i in range(n) for j in range(m) if a[i][j] != impl['fresh'][k][i][j]][0]
            return (f'{what}: differs from the same call made first in a fresh interpreter state at {bad}: '
                    f'{a[bad[0]][bad[1]]!r} vs {impl["fresh"][k][bad[0]][bad[1]]!r}')
    return None


def cast_like(v, dt):
    """value of the exact integer v after numpy casts it to the narrow dtype dt"""
    if dt == 'bool':
        return 1 if v else 0
    bits = NARROW[dt]
    w = v % (1 << bits)
    return w - (1 << bits) if dt.startswith('int') and w >= (1 << (bits - 1)) else w


def hexseg_expected_count(c):
    total = 1 + 3 * c['rings'] * (c['rings'] + 1)
    return total - len({d for d in c['drop'] if 0 <= d < total})


def hexseg_oracle(c, impl):
    if 'err' in impl:
        return f'hex_segments raised {impl["err"]}'
    k = hexseg_expected_count(c)
    got = impl['shape'][0] if len(impl['shape']) == 3 else 0
    if got != k:
        return f'hex_segments returned {got} segments, expected 1+3k(k+1) minus dropped = {k}'
    if k == 0:
        return None
    if impl['shape'][1] != impl['shape'][2]:
        return 'hex_segments masks are not square'
    if not impl['range_ok']:
        return 'hex_segments values outside [0, 1]'
    if not impl['binary']:
        return 'hex_segments masks without antialiasing are not binary'
    if impl.get('flatten_ok') is False:
        return 'hex_segments(flatten=True) is not the sum of the segment masks'
    if impl['overlap'] > 0:
        return (f'{impl["overlap"]} samples are covered by more than one non-antialiased segment mask '
                f'(seg_gap = {c["gap"]})')
    return None


def known_match(f, c, impl):
    c = scaled(c)
    if f['id'] == 'C20-window-slice-cube-axes':
        # exactly: a cube, slice= given, and the result is the numpy slice of the LEADING two axes
        if not (c['op'] == 'window' and is3(c['a']) and c['slice'] is not None and 'err' not in impl):
            return False
        s = c['slice']
        lead = np.array(flt(c['a']))[s[0]:s[1], s[2]:s[3]]
        got = np.array(impl['arr'], dtype=float).reshape(impl['shape'])
        return got.shape == lead.shape and bool(np.array_equal(got, lead))
    if f['id'] == 'C20-hex-gap0-shared-edge':
        # exactly: gap 0, every multiply covered sample lies ON the common edge of its hexagons (within 1e-6 sample,
        # measured from the lattice centres); a sample on a lattice vertex belongs to three closed hexagons
        return (c['op'] == 'hexseg' and Fraction(c['gap']) == 0 and 'err' not in impl and impl.get('overlap', 0) > 0
                and len(impl['shape']) == 3 and impl['shape'][0] == hexseg_expected_count(c)
                and impl.get('binary') and impl.get('range_ok') and impl.get('overlap_max_cover') in (2, 3)
                and impl.get('overlap_depth') is not None and impl['overlap_depth'] <= 1e-6)
    return False


def replay_known(f):
    if f['id'] == 'C20-window-slice-cube-axes':
        lentil = C.import_lentil()
        out = lentil.window(np.arange(24.0).reshape(2, 3, 4), slice=(0, 1, 0, 2))
        return out.shape == (1, 2, 4)
    if f['id'] == 'C20-hex-gap0-shared-edge':
        lentil = C.import_lentil()
        m = lentil.hex_segments(rings=1, seg_radius=8, seg_gap=0, antialias=False)
        return int((m.sum(axis=0) > 1).sum()) > 0
    return False


def extra(tier, rng):
    """numeric tests (labelled as tests, not theorems): border clearance and equal areas up to edge sampling"""
    lentil = C.import_lentil()
    report = {'kind': 'numeric tests', 'configs': 0, 'max_area_spread_rel': 0.0, 'max_border_value': 0.0}
    violations = []
    configs = [(1, 8, 0, False, 2), (1, 8, 1, True, 1), (2, 6, 2, False, 2), (2, 7.5, 0.5, True, 3), (1, 12, 0, False, 1)]
    if tier != 'quick':
        configs += [(3, 6, 1, False, 2), (3, 5, 0, True, 1), (4, 5, 1.5, False, 2), (2, 16, 3, True, 2)]
    for rings, R, gap, rot, pad in configs:
        case = {'op': 'hexseg-test', 'rings': rings, 'radius': R, 'gap': gap, 'rotate': rot, 'pad': pad}
        for aa in (True, False):
            m = np.asarray(lentil.hex_segments(rings, R, gap, rotate=rot, antialias=aa, pad=pad, drop=()), dtype=float)
            report['configs'] += 1
            border = max(m[:, 0, :].max(), m[:, -1, :].max(), m[:, :, 0].max(), m[:, :, -1].max())
            report['max_border_value'] = max(report['max_border_value'], float(border))
            # the antialiased skirt reaches half a sample past the edge and an even-sized array has its origin
            # half a sample off the middle: clearance needs pad >= 2 with antialiasing (the default), pad >= 1 without
            if border != 0 and pad >= (2 if aa else 1):
                violations.append({'case': dict(case, aa=aa), 'impl': {'border': float(border)},
                                   'what': 'test: a segment touches the array border although pad >= 2 '
                                           '(antialiased) / pad >= 1 (binary)'})
            areas = m.reshape(m.shape[0], -1).sum(axis=1)
            ideal = 3 * math.sqrt(3) / 2 * R * R
            # edge sampling: the antialiased area is within a fraction of the perimeter, the binary one within the perimeter
            tol = (0.5 if aa else 1.0) * 6 * R
            spread = float(areas.max() - areas.min())
            report['max_area_spread_rel'] = max(report['max_area_spread_rel'], spread / ideal)
            if spread > tol or abs(float(areas.mean()) - ideal) > tol + 3 * R:
                violations.append({'case': dict(case, aa=aa), 'impl': {'areas': [float(v) for v in areas]},
                                   'what': f'test: segment areas differ by {spread} (> edge sampling {tol}) '
                                           f'or are far from the ideal {ideal}'})
    big = large_size_tests(lentil)
    report['large_size_tests'] = big['n']
    violations += big['violations']
    return {'report': report, 'violations': violations}


def large_size_tests(lentil):
    """numeric tests on arrays with more than 2**20 samples / more than 1000 rows (vectorised index-rule references;
    the rational model is not run at this size), and on a 0-d input of window"""
    v = []
    n = 0

    def bad(case, impl, what):
        v.append({'case': dict(case, op='large-size-test'), 'impl': impl, 'what': 'test: ' + what})
    # pad: sample i -> i - n//2 + N//2 on each axis
    for (nr, nc), (N, M) in (((1025, 1031), (1100, 1000)), ((1100, 1000), (1025, 1031)), ((1024, 1100), (1025, 1101))):
        a = (np.arange(nr * nc, dtype=np.int64).reshape(nr, nc) % 9973) + 1
        out = np.asarray(lentil.pad(a, (N, M)))
        ref = np.zeros((N, M), dtype=np.int64)
        i = np.arange(nr)
        j = np.arange(nc)
        ti, tj = i - nr // 2 + N // 2, j - nc // 2 + M // 2
        ki, kj = (ti >= 0) & (ti < N), (tj >= 0) & (tj < M)
        ref[np.ix_(ti[ki], tj[kj])] = a[np.ix_(i[ki], j[kj])]
        n += 1
        if out.shape != ref.shape or not np.array_equal(out, ref):
            bad({'pad': [nr, nc], 'to': [N, M]}, {'shape': list(out.shape)}, f'pad {(nr, nc)} -> {(N, M)} breaks the floor(n/2) index rule')
    # rebin: block sums and total
    for (nr, nc), f in (((1026, 2052), 2), ((1026, 2052), 3), ((2048, 1024), 4)):
        a = (np.arange(nr * nc, dtype=np.int64).reshape(nr, nc) % 251)
        out = np.asarray(lentil.rebin(a, f))
        ref = sum(a[u::f, w::f] for u in range(f) for w in range(f))
        n += 1
        if out.shape != ref.shape or not np.array_equal(out, ref) or int(out.sum()) != int(a.sum()):
            bad({'rebin': [nr, nc], 'f': f}, {'sum': float(out.sum())}, f'rebin {(nr, nc)} by {f}: block sums / total differ')
    # centroid of an impulse, boundary of two samples
    for (nr, nc), (i0, j0) in (((1100, 1000), (1099, 0)), ((1000, 1100), (3, 1098)), ((1025, 1025), (512, 512))):
        a = np.zeros((nr, nc))
        a[i0, j0] = 3.0
        r, c_ = lentil.centroid(a)
        n += 1
        if (float(r), float(c_)) != (float(i0), float(j0)):
            bad({'centroid': [nr, nc], 'impulse': [i0, j0]}, {'rc': [float(r), float(c_)]}, 'centroid of an impulse is not its index')
        a[nr - 1 - i0, nc - 1 - j0] = 1e-30
        box = [int(x) for x in lentil.boundary(a)]
        exp = [min(i0, nr - 1 - i0), max(i0, nr - 1 - i0), min(j0, nc - 1 - j0), max(j0, nc - 1 - j0)]
        n += 1
        if box != exp:
            bad({'boundary': [nr, nc]}, {'box': box}, f'boundary {box} is not the bounding box {exp}')
    # documented: a single value is returned whatever shape / slice say (0-d and 1x1)
    for x in (np.array(5.0), np.array([[5.0]])):
        out = np.asarray(lentil.window(x, shape=(3, 3)))
        n += 1
        if out.shape != x.shape or float(out.ravel()[0]) != 5.0:
            bad({'window': 'single value', 'ndim': int(x.ndim)}, {'shape': list(out.shape)}, 'window of a single value is not that value')
    return {'n': n, 'violations': v}



# ------------------------------------------------------------------ WP-T2: translation layer (source -> Gallina)
# An ADDITIONAL tie: harness/gen_src.py (suite 'C20') translates the shape arithmetic of lentil/util.py:rebin (2-d and cube) from the CURRENT source
# text into coq/theories/Gen/GeometrySrc.v; Proofs/GeometrySrcP.v proves every translated term equal to the model for all integers;
# Properties/C20Src.v states it.  Policy (as for C06): a function the translator refuses is only reported
# (coverage.extra.source_translation.refused); a translated function whose equivalence lemma no longer compiles is a
# VIOLATION with a witness searched on an exhaustive small box (replayable: op 'src').  The build of C20Src happens
# here, never in COQ_TARGETS.  The checks of the `extra` defined above are kept unchanged; their report is extended.
_extra_before_src_layer = extra


def extra(tier, rng):
    from .. import gen_src as G
    try:
        base = _extra_before_src_layer(tier, rng)
    except Exception as e:          # keep the translation layer's verdict when the other checks cannot even run
        import traceback
        base = {'report': {'error': traceback.format_exc()[-800:]},
                'violations': [{'case': None, 'impl': None,
                                'what': f'extra: the checks preceding the translation layer raised {type(e).__name__}: {e}'}]}
    layer = G.run_layer('C20', ID, tier, rng, C)
    report = dict(base.get('report', {}))
    report['source_translation'] = layer['report']
    return {'report': report, 'violations': list(base.get('violations', [])) + layer['violations']}


def _wrap_src_replay():
    from .. import gen_src as G
    return G.wrap_replay(run_impl, oracle, C)


run_impl, oracle = _wrap_src_replay()
