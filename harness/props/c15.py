"""C15 - Spectrum integration, binning and resizing keep the spectrum well-formed."""
import bisect
import math
import warnings
from fractions import Fraction

import numpy as np

from .. import common as C

ID = 'C15'
MODEL = 'c15'
RUNFUN = 'run'
COQ_TARGETS = ['theories/Properties/C15.vo', 'theories/Extract/RunC15.vo']
DESIGN_REF = 'DESIGN.md section 6, C15'
TECHNIQUE = ('Coq proof (exact rationals Qc, induction over call sequences and sessions) about an executable model of '
             'Spectrum.integrate/bin/ends/trim/crop/pad/append/resample + exact differential execution of the extracted '
             'model against lentil.radiometry.Spectrum on one live object per call sequence + a model-free Fraction oracle')
LEVEL_TEXT = ('Theorems in coq/theories/Properties/C15.v over all rational spectra (every float is a rational): integrate is '
              'linear in the values (trapezoid and scipy-Simpson, any bounds), trapezoid integrate is additive at a sample point '
              'and equals the integral of the piecewise-linear interpolant (antiderivative spec, arbitrary bounds) when the '
              'bounds are samples or lie beyond the grid; bins: one per centre, sum = integrate(min centre, max centre) under '
              'power preservation, non-negative (trapezoid: any increasing centres; Simpson: uniformly sampled data, or any data '
              'without power preservation), exact for a straight-line spectrum (trapezoid: any centres; Simpson: uniform '
              'centres); by induction over call sequences: EVERY sequence of crop/trim/pad/append/resample calls, accepted or '
              'refused, leaves a positive strictly increasing grid with one value per wavelength, retained samples unaltered, '
              'a refused call leaves the object untouched (crop above the range: emptied), crop = closed range, '
              'trim = first..last above tolerance. The executable model is extracted and compared with lentil on every run.')
LEVEL_NOTE = ('Trusted: Coq kernel, extraction, the harness; numpy/scipy primitives (np.interp, np.trapz, np.delete, np.linspace, '
              'np.insert, broadcasting, scipy.integrate.simpson) are modelled and observed through the tie, not verified. '
              'Fixed in the tree: resample validates its grid before assigning the values (732bed0). Known finding: bin with '
              'integer-typed centres truncates the Simpson mid-points (C15-bin-integer-centres, pinned by two tests). '
              'Known finding: sampling a ONE-sample spectrum held in a dtype other than float64/int64 gives nan '
              '(C15-one-sample-other-dtype, fix proposed). '
              'Documented, not a violation: integrate moves a bound lying between two samples inward to the next sample.')
TRUSTED = ['Coq 8.16.1 kernel (coqc; coqchk in the thorough tier)',
           'extraction with ExtrOcamlBasic only; ocaml/driver.ml',
           'harness/props/c15.py: case codec, Fraction oracle (trapezoid, interpolant integral, set predicates)',
           'numpy/scipy primitives are modelled from their documented behaviour and source (np.interp, np.trapz, np.delete, '
           'np.linspace, np.insert, broadcasting of <=, scipy.integrate.simpson 1.17) and observed through the tie']
ASSUMPTIONS = ['integrate(start, end): C15 pins the quadrature on the samples inside the closed range (linear, additive where '
               'intervals meet at a sample point, exact for data linear between those samples); a bound strictly between two '
               'samples is moved inward to the next sample by the code - modelled and proved (C15_integrate_any_bounds), '
               'not claimed as a defect',
               '1-d float wave/value arrays, waveunit nm, valueunit None; linear sampling with fill_value 0; float centres',
               'exact regime for equality comparison: dyadic wavelengths, small dyadic values, interpolation only across '
               'power-of-two gaps; everything else (Simpson, power-preserved bins, other gaps) is compared to 1e-12 and a call '
               'sequence is no longer compared once it leaves the exact regime',
               'pad: sampling is "min" or a positive number; method/ends/mode strings are the documented ones']
RULE = ('corpus first, then random sessions (length <= 8 quick / <= 25 thorough) on ONE live Spectrum object mixing '
        'accepted and refused crop/trim/pad/append/resample calls with value assignments on the same grid (scaled, shifted, '
        'reversed; value-unit conversions photlam/flam/wlam), and integrate / bin queries repeated with the same bounds and '
        'centres (state, exception class and answer compared with the model after every call; every query also put to a '
        'brand-new object with the same wave and value); wave/value arrays and the array arguments of the editing calls in '
        'float64, int64, uint8/16/32/64 and float32 (unsigned and float32 sessions judged by the oracle and against a '
        'float64 twin run of the same calls); constructor on bad grids in every dtype; several argument forms; short '
        'histories (query, new values, same query); '
        'integrate with bounds inside/outside/at samples plus linear-combination and additivity companions, bins with uniform, '
        'non-uniform and shuffled centres, both ends, both rules, with and without power preservation, ends(), sample(); '
        'non-trivial = non-uniform grid or at least three calls/samples; distinct by case hash')

F = Fraction
TOL = 1e-12


def fr(x):
    return x if isinstance(x, Fraction) else Fraction(x)


def fs(xs):
    return [str(fr(x)) for x in xs]


def fl(xs):
    return [float(Fraction(x)) for x in xs]


def arr(xs):
    return np.array(fl(xs), dtype=float)


# ------------------------------------------------------------------ generator-side bookkeeping (never judges)
def g_interp(w, v, x):
    if not w or x < w[0] or x > w[-1]:
        return F(0)
    j = bisect.bisect_right(w, x) - 1
    if j >= len(w) - 1:
        return v[-1]
    return v[j] + (v[j + 1] - v[j]) / (w[j + 1] - w[j]) * (x - w[j])


def g_wave_ok(w):
    return all(x > 0 for x in w) and all(a < b for a, b in zip(w, w[1:]))


class Sim:
    """tracks the expected state so that the generator can aim its calls; a wrong guess only makes a case dull"""

    def __init__(self, w, v, vu=None, qrate=0.3):
        self.w, self.v = list(w), list(v)
        self.vu, self.qrate, self.pool = vu, qrate, []
        self.gaps = GAPS      # IGAPS in sessions on integer grids, so that typed (integer) arguments are possible

    def crop(self, a, b):
        if not self.w:
            return
        keep = [i for i, x in enumerate(self.w) if a <= x <= b]
        self.w = [self.w[i] for i in keep]
        self.v = [self.v[i] for i in keep]

    def trim(self, tol):
        if not any(self.v):
            return
        m = max(self.v)
        if m <= 0:
            return
        idx = [i for i, y in enumerate(self.v) if y / m > tol]
        if not idx:
            return
        self.w = self.w[idx[0]:idx[-1] + 1]
        self.v = self.v[idx[0]:idx[-1] + 1]

    def pad(self, e0, e1, samp, mode):
        if mode == 'edge' and not self.v:
            return
        if samp is None:
            if len(self.w) < 2:
                return
            dw = min(b - a for a, b in zip(self.w, self.w[1:]))
        else:
            dw = samp
        if not self.w:
            return
        nl = math.ceil((self.w[0] - e0) / dw) + 1
        nr = math.ceil((e1 - self.w[-1]) / dw) + 1
        if nl <= 0 or nr <= 0:
            return
        left = [e0 + i * (self.w[0] - e0) / (nl - 1) for i in range(nl - 1)] if nl > 1 else []
        right = [self.w[-1] + i * (e1 - self.w[-1]) / (nr - 1) for i in range(1, nr)] if nr > 1 else []
        if not g_wave_ok(left + self.w + right):
            return
        if mode == 'edge':
            v0, v1 = self.v[0], self.v[-1]
        elif mode == 'default':
            v0, v1 = F(0), F(0)
        elif mode[0] == 'scalar':
            v0 = v1 = F(mode[1])
        else:
            v0, v1 = F(mode[1]), F(mode[2])
        self.w = left + self.w + right
        self.v = [v0] * len(left) + self.v + [v1] * len(right)

    def append(self, ow, ov):
        a, b = ow, self.w
        if len(a) == len(b):
            bad = any(x <= y for x, y in zip(a, b))
        elif len(a) == 1:
            bad = any(a[0] <= y for y in b)
        elif len(b) == 1:
            bad = any(x <= b[0] for x in a)
        else:
            return
        if bad or not g_wave_ok(self.w + ow):
            return
        self.w = self.w + ow
        self.v = self.v + ov

    def setvalue(self, how, par):
        if how in ('scale', 'inplace'):
            self.v = [F(par) * y for y in self.v]
        elif how == 'shift':
            self.v = [y + F(par) for y in self.v]
        elif how == 'reverse':
            self.v = self.v[::-1]

    def resample(self, g):
        if not self.w:
            return
        nv = [g_interp(self.w, self.v, x) for x in g]
        if not g_wave_ok(g):
            return
        self.w, self.v = list(g), nv


GAPS = [F(1, 4), F(1, 2), F(1), F(2)]


IGAPS = [F(1), F(1), F(2)]


def rnd_grid(rng, n, start=None, uniform=False, gaps=GAPS):
    x = start if start is not None else F(rng.randint(1, 24), 4)
    out = []
    g = rng.choice(gaps)
    for _ in range(n):
        out.append(x)
        if not uniform:
            g = rng.choice(gaps)
        x += g
    return out


def rnd_values(rng, n, nonneg=False, zeros_at_ends=False):
    lo = 0 if nonneg or rng.random() < 0.7 else -3
    v = [F(rng.randint(lo, 8)) for _ in range(n)]
    if rng.random() < 0.3:
        v = [x / 2 for x in v]
    if zeros_at_ends and n >= 3:
        for i in range(rng.randint(0, 2)):
            v[i] = F(0)
        for i in range(rng.randint(0, 2)):
            v[n - 1 - i] = F(0)
    return v


def rnd_spectrum(rng, nmax=8, nonneg=False, uniform=False, integer=False):
    t = rng.random()
    n = 0 if t < 0.02 else 1 if t < 0.06 else rng.randint(2, nmax)
    if integer:
        w, x = [], F(rng.randint(1, 6))
        for _ in range(n):
            w.append(x)
            x += rng.choice([1, 1, 2])
        return w, [F(rng.randint(0, 8)) for _ in range(n)]
    return rnd_grid(rng, n, uniform=uniform), rnd_values(rng, n, nonneg, zeros_at_ends=rng.random() < 0.5)


def rnd_point(rng, w, wide=True):
    """a wavelength at, between or outside the samples"""
    if not w:
        return F(rng.randint(1, 40), 4)
    if rng.random() < 0.07:
        # a near-tie: a few parts in 1e7 away from a sample, on either side
        return rng.choice(w) * (1 + rng.choice([1, -1]) * F(1, 2 ** 23))
    t = rng.random()
    if t < 0.45:
        return rng.choice(w)
    if t < 0.7 and len(w) > 1:
        i = rng.randrange(len(w) - 1)
        return (w[i] + w[i + 1]) / 2
    if t < 0.85:
        return w[0] - F(rng.randint(0, 6), 4) if wide else w[0]
    return w[-1] + F(rng.randint(0, 6), 4)


def gen_query(rng, sim, pool):
    """integrate / bin / value assignment / value-unit conversion as a step of a session; bounds and centres are
    re-used from the pool so that the same query is asked again after the object has changed"""
    w = sim.w
    t = rng.random()
    if t < 0.04:
        return {'k': 'asarray'}
    if t < 0.42:
        qs = [q for q in pool if q['k'] == 'integrate']
        if qs and rng.random() < 0.6:
            return dict(rng.choice(qs))
        a = None if rng.random() < 0.25 else str(rnd_point(rng, w))
        b = None if rng.random() < 0.25 else str(rnd_point(rng, w))
        if a is not None and b is not None and F(a) > F(b) and rng.random() < 0.9:
            a, b = b, a
        q = {'k': 'integrate', 'a': a, 'b': b, 'rule': 'trapz' if rng.random() < 0.6 else 'simps', 'form': rng.randrange(4),
             'pos': rng.random() < 0.3}
        pool.append(q)
        return dict(q)
    if t < 0.65:
        qs = [q for q in pool if q['k'] == 'bin']
        if qs and rng.random() < 0.6:
            return dict(rng.choice(qs))
        c = rnd_grid(rng, rng.randint(2, 5), start=rnd_point(rng, w, wide=False), uniform=rng.random() < 0.5)
        c = [x if x > 0 else F(1, 4) for x in c]
        q = {'k': 'bin', 'c': fs(c), 'rule': 'trapz' if rng.random() < 0.55 else 'simps',
             'ends': 'symmetric' if rng.random() < 0.5 else 'inside', 'pp': rng.random() < 0.65, 'form': rng.randrange(2),
             'flag': rng.randrange(3), 'pos': rng.random() < 0.3}
        pool.append(q)
        return dict(q)
    if t < 0.93 or not sim.vu:
        u = rng.random()
        if u < 0.5:
            return {'k': 'setvalue', 'how': 'scale' if rng.random() < 0.7 else 'inplace',
                    'par': str(rng.choice([F(2), F(3), F(1, 2), F(-1), F(4), F(3, 2)]))}
        if u < 0.8:
            return {'k': 'setvalue', 'how': 'shift', 'par': str(F(rng.randint(-2, 3)))}
        return {'k': 'setvalue', 'how': 'reverse', 'par': None}
    return {'k': 'to', 'unit': rng.choice([x for x in ('photlam', 'flam', 'wlam') if x != sim.vu])}


def gen_op(rng, sim, budget):
    w, v = sim.w, sim.v
    if rng.random() < sim.qrate:
        return gen_query(rng, sim, sim.pool)
    t = rng.random()
    if t < 0.22:
        a, b = rnd_point(rng, w), rnd_point(rng, w)
        if a > b and rng.random() < 0.8:
            a, b = b, a
        if rng.random() < 0.06 and w:
            a = w[-1] + F(1, 2)
            b = a + 2
        return {'k': 'crop', 'a': str(a), 'b': str(b), 'form': rng.randrange(4)}
    if t < 0.38:
        tol = rng.choice([F(0), F(1, 8), F(1, 4), F(1, 2), F(1), F(-1), F(1e-4), F(3, 4)])
        return {'k': 'trim', 'tol': str(tol)}
    if t < 0.62:
        samp = None if rng.random() < 0.6 else rng.choice([F(1, 4), F(1, 2), F(1)])
        if samp is None:
            dw = min((b - a for a, b in zip(w, w[1:])), default=F(1))
        else:
            dw = samp

        def end(base, sign):
            u = rng.random()
            if u < 0.5:
                return base + sign * rng.randint(0, 3) * dw
            if u < 0.65:
                return base + sign * dw / 2
            if u < 0.75:
                return base + sign * dw / 4
            if u < 0.9:
                return base - sign * rng.choice([dw / 2, dw, 2 * dw, 5 * dw / 2])       # inside: no-op or refused
            return F(0) if sign < 0 else base                                             # non-positive end
        e0 = end(w[0] if w else F(2), -1)
        e1 = end(w[-1] if w else F(4), 1)
        u = rng.random()
        mode = 'default' if u < 0.4 else 'edge' if u < 0.6 else ['scalar', str(F(rng.randint(0, 5)))] if u < 0.75 \
            else ['const', str(F(rng.randint(0, 5))), str(F(rng.randint(-1, 5)))]
        return {'k': 'pad', 'e0': str(e0), 'e1': str(e1), 'samp': None if samp is None else str(samp), 'mode': mode,
                'form': rng.randrange(3)}
    if t < 0.8:
        u = rng.random()
        n = len(w) if u < 0.45 else 1 if u < 0.8 else rng.randint(0, 4)
        if rng.random() < 0.75 or not w:
            start = (w[-1] if w else F(1)) + rng.choice(sim.gaps)
        else:
            start = rnd_point(rng, w)
            if start.denominator > 64:
                start = F(round(start * 4), 4)      # near-ties are for bounds, not for new samples (ppm-wide gaps would make
                                                    # the 'min' sampling of a later pad ask for millions of samples)
            if sim.gaps is IGAPS:
                start = F(math.floor(start))
            if start <= 0:
                start = F(1, 4) if sim.gaps is GAPS else F(1)
        ow = rnd_grid(rng, n, start=start, gaps=sim.gaps)
        return {'k': 'append', 'w': fs(ow), 'v': fs(rnd_values(rng, n)), 'copy': rng.random() < 0.15, 'flag': rng.randrange(3)}
    # resample
    u = rng.random()
    if u < 0.2 or budget <= 0:
        # on the nodes of the current grid (plus points outside): values stay on the lattice
        pts = sorted(set([x for x in w if rng.random() < 0.7] +
                         ([w[0] - F(1, 2)] if w and w[0] > F(1, 2) and rng.random() < 0.5 else []) +
                         ([w[-1] + 1] if w and rng.random() < 0.5 else [])))
        return {'k': 'resample', 'g': fs(pts)}
    if u < 0.29:
        st0 = rnd_point(rng, w) if w else None
        if st0 is not None and st0.denominator > 64:
            st0 = F(round(st0 * 4), 4)
        if st0 is not None and sim.gaps is IGAPS:
            st0 = F(max(1, math.floor(st0)))
        bad = rnd_grid(rng, rng.randint(1, 5), start=st0, gaps=sim.gaps)
        bad = [x if x > 0 else F(1, 4) for x in bad]
        kind = rng.random()
        if kind < 0.4 and len(bad) >= 2:
            i = rng.randrange(len(bad) - 1)
            bad[i], bad[i + 1] = bad[i + 1], bad[i]
        elif kind < 0.7:
            bad.insert(rng.randrange(len(bad) + 1), rng.choice(bad))
            bad.sort()
        else:
            bad = [F(rng.choice([0, -1]))] + [x for x in bad]
        return {'k': 'resample', 'g': fs(bad)}
    if u < 0.33:
        return {'k': 'resample', 'g': []}
    lo = (w[0] if w else F(2)) - F(rng.randint(-2, 3), 2)
    if sim.gaps is IGAPS:
        lo = F(math.floor(lo))
    if lo <= 0:
        lo = F(1, 4) if sim.gaps is GAPS else F(1)
    g = rnd_grid(rng, rng.randint(1, 7), start=lo, gaps=sim.gaps)
    return {'k': 'resample', 'g': fs(g), 'offnode': True}


def apply_sim(sim, o):
    k = o['k']
    if k == 'crop':
        sim.crop(F(o['a']), F(o['b']))
    elif k == 'trim':
        sim.trim(F(o['tol']))
    elif k == 'pad':
        sim.pad(F(o['e0']), F(o['e1']), None if o['samp'] is None else F(o['samp']), o['mode'])
    elif k == 'append':
        if not o.get('copy'):
            sim.append([F(x) for x in o['w']], [F(x) for x in o['v']])
    elif k == 'resample':
        sim.resample([F(x) for x in o['g']])
    elif k == 'setvalue':
        sim.setvalue(o['how'], o['par'])
    elif k == 'to':
        sim.vu = o['unit']


def all_int(xs):
    return all(F(x).denominator == 1 for x in xs)


def gen_history(rng):
    """2-4 calls on one object with ONE thing varied: the same query before and after new values on the same grid"""
    integer = rng.random() < 0.2
    w, v = rnd_spectrum(rng, nmax=9, integer=integer)
    while len(w) < 3:
        w, v = rnd_spectrum(rng, nmax=9, integer=integer)
    vu = 'photlam' if rng.random() < 0.25 and not integer else None
    sim = Sim(w, v, vu)
    if integer:
        sim.gaps = IGAPS
    q = gen_query(rng, sim, [])
    while q['k'] not in ('integrate', 'bin'):
        q = gen_query(rng, sim, [])
    if q['k'] == 'bin':
        q['pp'] = rng.random() < 0.8
    ch = gen_query(rng, sim, [])
    while ch['k'] not in ('setvalue', 'to'):
        ch = gen_query(rng, sim, [])
    ops = [dict(q), ch, dict(q)]
    if rng.random() < 0.4:
        ops = ops + [{'k': 'setvalue', 'how': 'scale', 'par': '3'}, dict(q)]
    if rng.random() < 0.3:
        ops = [dict(q)] + ops
    c = {'op': 'seq', 'w': fs(w), 'v': fs(v), 'ops': ops}
    if vu:
        c['vu'] = vu
    else:
        pick_dtype(rng, c)
    return c


INT_DTYPES = ['int', 'uint8', 'uint16', 'uint32', 'uint64']


def has_near_tie(x):
    if isinstance(x, dict):
        return any(has_near_tie(v) for v in x.values())
    if isinstance(x, list):
        return any(has_near_tie(v) for v in x)
    if isinstance(x, str) and '/' in x:
        try:
            return F(x).denominator > 2 ** 16
        except ValueError:
            return False
    return False


def pick_dtype(rng, c):
    """the representation of the wave/value arrays and of the array arguments of the editing calls: every dtype must
    behave like its float64 twin; or (float64 only) a power-of-two rescaling of all wavelengths / values, or numpy
    subclasses as containers"""
    if all_int(c['w'] + c['v']) and all(F(x) >= 0 for x in c['w'] + c['v']):
        if rng.random() < 0.85:
            c['dtype'] = rng.choice(INT_DTYPES)
            return
    elif rng.random() < 0.08 and not has_near_tie(c):
        c['dtype'] = 'float32'      # (a near-tie of 2**-23 relative is below float32 resolution: not combined with it)
        return
    pick_presentation(rng, c)


def pick_presentation(rng, c):
    if rng.random() < 0.4:
        c['scribble'] = True      # the caller writes into every array it gets back
    u = rng.random()
    if u < 0.14:
        c['ws'] = rng.choice([-30, -30, -20, -33, 10])      # 2**-30 ~ 1e-9: nanometre numbers held in metres
        if rng.random() < 0.6:
            c['vs'] = rng.choice([-40, -30, 40, 20])
    elif u < 0.28:
        c['box'] = rng.choice(['masked', 'masked', 'masked0', 'sub'])


def bad_start(rng, w, v):
    """an initial grid the constructor must refuse"""
    w = list(w)
    u = rng.random()
    if u < 0.45 and len(w) >= 2:
        w = w[::-1] if rng.random() < 0.5 else w[1:] + w[:1]
    elif u < 0.75 and w:
        w.insert(rng.randrange(len(w)), rng.choice(w))
        w.sort()
        v = v + v[:1]
    elif w:
        w[0] = F(0)
    return w, v


def gen_seq(rng, maxlen):
    integer = rng.random() < 0.22
    w, v = rnd_spectrum(rng, integer=integer)
    if rng.random() < 0.03 and len(w) >= 2:
        w, v = bad_start(rng, w, v)
        c = {'op': 'seq', 'w': fs(w), 'v': fs(v), 'ops': []}
        pick_dtype(rng, c)
        return c
    vu = 'photlam' if rng.random() < 0.12 and not integer else None
    sim = Sim(w, v, vu, qrate=rng.choice([0.0, 0.25, 0.4]))
    if integer:
        sim.gaps = IGAPS
    ops = []
    budget = 3
    n = rng.randint(1, maxlen)
    for _ in range(n):
        o = gen_op(rng, sim, budget)
        if o.pop('offnode', False):
            budget -= 1
        ops.append(o)
        apply_sim(sim, o)
    c = {'op': 'seq', 'w': fs(w), 'v': fs(v), 'ops': ops}
    if vu:
        c['vu'] = vu
    else:
        pick_dtype(rng, c)
    return c


def gen_integrate(rng):
    w, v = rnd_spectrum(rng, nmax=9, uniform=rng.random() < 0.3)
    u = rnd_values(rng, len(w))

    def bound():
        return None if rng.random() < 0.15 else str(rnd_point(rng, w))
    a, b = bound(), bound()
    if a is not None and b is not None and F(a) > F(b) and rng.random() < 0.85:
        a, b = b, a
    mid = str(rng.choice(w)) if w else None
    c = {'op': 'integrate', 'w': fs(w), 'v': fs(v), 'u': fs(u), 'ca': str(F(rng.randint(-3, 4), rng.choice([1, 2]))),
         'cb': str(F(rng.randint(-3, 4))), 'a': a, 'b': b, 'mid': mid, 'rule': 'trapz' if rng.random() < 0.7 else 'simps'}
    pick_presentation(rng, c)
    return c


def gen_bin(rng):
    t = rng.random()
    uniform_data = rng.random() < 0.4
    n = rng.randint(2, 9)
    w = rnd_grid(rng, n, uniform=uniform_data)
    if t < 0.25:
        # a spectrum that is one straight line (exactness clause)
        al, be = F(rng.randint(-2, 3), 2), F(rng.randint(0, 8))
        v = [al * x + be for x in w]
    else:
        v = rnd_values(rng, n, nonneg=rng.random() < 0.7)
    nc = rng.randint(2, 6)
    u = rng.random()
    if u < 0.45:
        c = rnd_grid(rng, nc, start=rnd_point(rng, w, wide=False), uniform=True)
    elif u < 0.9:
        c = rnd_grid(rng, nc, start=rnd_point(rng, w, wide=False))
    else:
        c = rnd_grid(rng, nc, start=rnd_point(rng, w))
        rng.shuffle(c)
    if rng.random() < 0.04:
        c = c[:1]
    c = [x if x > 0 else F(1, 4) for x in c]
    c = {'op': 'bin', 'w': fs(w), 'v': fs(v), 'c': fs(c), 'rule': 'trapz' if rng.random() < 0.55 else 'simps',
         'ends': 'symmetric' if rng.random() < 0.5 else 'inside', 'pp': rng.random() < 0.5}
    pick_presentation(rng, c)
    return c


def g_edges(c, ends):
    h = [(b - a) / 2 for a, b in zip(c, c[1:])]
    mid = [a + e for a, e in zip(c, h)]
    return ([c[0] - h[0]] if ends == 'symmetric' else [c[0]]) + mid + ([c[-1] + h[-1]] if ends == 'symmetric' else [c[-1]])


def g_nodes(c, ends):
    h = [(b - a) / 2 for a, b in zip(c, c[1:])]
    x = []
    for i, a in enumerate(c):
        x.append(a)
        if i < len(h):
            x.append(a + h[i])
    if ends == 'symmetric':
        return [c[0] - h[0]] + x + [c[-1] + h[-1]]
    x = [x[0], x[0] + (x[1] - x[0]) / 2] + x[1:]
    return x[:-1] + [x[-1] + (x[-2] - x[-1]) / 2, x[-1]]


def same_span_grid(rng, x):
    """another strictly increasing grid with the SAME number of points and the SAME first and last point"""
    lo, hi, n = min(x), max(x), len(x)
    for _ in range(50):
        inner = sorted({lo + (hi - lo) * F(rng.randint(1, 63), 64) for _ in range(n - 2)})
        if len(inner) == n - 2 and [lo] + inner + [hi] != sorted(x):
            return [lo] + inner + [hi]
    return None


def gen_coincide(rng):
    """requests that coincide with the stored grid in COUNT and END POINTS only: whatever the code may key a shortcut
    on (length, first, last, span), the answer must come from interpolation at the points actually asked for"""
    t = rng.random()
    nc = rng.randint(2, 5)
    c = rnd_grid(rng, nc, uniform=rng.random() < 0.3)
    rule = 'trapz' if rng.random() < 0.6 else 'simps'
    ends = 'symmetric' if rng.random() < 0.5 else 'inside'
    x = g_edges(c, ends) if rule == 'trapz' else g_nodes(c, ends)
    if min(x) <= 0:
        sh = F(1) - min(x)
        c, x = [a + sh for a in c], [a + sh for a in x]
    w = same_span_grid(rng, x)
    if w is None:
        return gen_bin(rng)
    v = rnd_values(rng, len(w), nonneg=rng.random() < 0.6)
    if t < 0.45:
        cs = {'op': 'bin', 'w': fs(w), 'v': fs(v), 'c': fs(c), 'rule': rule, 'ends': ends, 'pp': rng.random() < 0.4}
    elif t < 0.6:
        cs = {'op': 'sample', 'w': fs(w), 'v': fs(v), 'x': fs(sorted(x))}
    else:
        g = same_span_grid(rng, w) or sorted(x)
        ops = [{'k': 'resample', 'g': fs(g)}] if rng.random() < 0.5 else \
            [{'k': 'bin', 'c': fs(c), 'rule': rule, 'ends': ends, 'pp': rng.random() < 0.4, 'form': 0},
             {'k': 'resample', 'g': fs(g)}, {'k': 'integrate', 'a': None, 'b': None, 'rule': 'trapz', 'form': 0}]
        cs = {'op': 'seq', 'w': fs(w), 'v': fs(v), 'ops': ops}
    return cs


def gen_large(rng, n):
    """a long table (sizes behind typical thresholds, not divisible by round block counts): a few calls only"""
    w = rnd_grid(rng, n, start=F(rng.randint(1, 8)), uniform=rng.random() < 0.5)
    v = [F(rng.randint(0, 7)) for _ in range(n)]
    a, b = w[n // 5], w[-(n // 7)]
    ops = [{'k': 'integrate', 'a': str(a), 'b': str(b), 'rule': 'trapz', 'form': 0},
           {'k': 'crop', 'a': str(a), 'b': str(b + F(1, 8))},
           {'k': 'trim', 'tol': '1/8'},
           {'k': 'integrate', 'a': None, 'b': None, 'rule': 'simps', 'form': 0},
           {'k': 'bin', 'c': fs(rnd_grid(rng, 6, start=w[n // 3], uniform=True)), 'rule': 'trapz', 'ends': 'inside', 'pp': True, 'form': 0},
           {'k': 'pad', 'e0': str(a - 3), 'e1': str(b + 5), 'samp': None, 'mode': 'edge', 'form': 0},
           {'k': 'resample', 'g': fs(w[n // 4: n // 4 + 40])}]
    return {'op': 'seq', 'w': fs(w), 'v': fs(v), 'ops': ops}


def gen_zerosum(rng):
    """degenerate but legal: signed values that sum to exactly zero (a difference of two filters), with wings at or below
    tolerance - such a spectrum is not 'all zero' and must be trimmed like any other"""
    n = rng.randint(3, 7)
    core = [F(rng.randint(-6, 6)) for _ in range(n - 1)]
    core.append(-sum(core))
    if max(core) <= 0:
        core[0], core[-1] = core[0] + 5, core[-1] - 5
    lead, trail = rng.randint(0, 2), rng.randint(0, 2)
    v = [F(0)] * lead + core + [F(0)] * trail
    w = rnd_grid(rng, len(v))
    ops = [{'k': 'trim', 'tol': str(rng.choice([F(0), F(1, 8), F(1e-4)]))}]
    if rng.random() < 0.5:
        ops = [{'k': 'pad', 'e0': str(w[0] - 1) if w[0] > 1 else str(w[0]), 'e1': str(w[-1] + 2), 'samp': None, 'mode': 'default',
                'form': 0}] + ops
    if rng.random() < 0.5:
        ops += [{'k': 'integrate', 'a': None, 'b': None, 'rule': 'trapz', 'form': 0}, {'k': 'trim', 'tol': '1/4'}]
    c = {'op': 'seq', 'w': fs(w), 'v': fs(v), 'ops': ops}
    pick_presentation(rng, c)
    return c


def gen_ends(rng):
    w, v = rnd_spectrum(rng)
    return {'op': 'ends', 'w': fs(w), 'v': fs(v),
            'tol': str(rng.choice([F(0), F(1, 8), F(1, 4), F(1, 2), F(1), F(-1), F(1e-4)]))}


def gen_sample(rng):
    w, v = rnd_spectrum(rng)
    x = [rnd_point(rng, w) for _ in range(rng.randint(0, 6))]
    x = [p for p in x if p > 0]
    return {'op': 'sample', 'w': fs(w), 'v': fs(v), 'x': fs(x)}


def generate(rng, tier):
    quick = tier == 'quick'
    nseq, maxlen = (450, 8) if quick else (12000, 25)
    for _ in range(nseq):
        yield gen_seq(rng, maxlen)
    for _ in range(200 if quick else 3000):
        yield gen_history(rng)
    for _ in range(120 if quick else 2500):
        yield gen_coincide(rng)
    for _ in range(60 if quick else 1000):
        yield gen_zerosum(rng)
    for n in ([1025, 1201] if quick else [1025, 1201, 2049, 3001, 4097 + 3]):
        yield gen_large(rng, n)
    for _ in range(350 if quick else 10000):
        yield gen_integrate(rng)
    for _ in range(400 if quick else 12000):
        yield gen_bin(rng)
    for _ in range(60 if quick else 600):
        yield gen_ends(rng)
    for _ in range(60 if quick else 600):
        yield gen_sample(rng)


def classify(c):
    if c['op'] == 'seq':
        q = 'session' if any(o['k'] in ('integrate', 'bin', 'setvalue', 'to', 'asarray') for o in c['ops']) else 'seq'
        return f'{q}<=4' if len(c['ops']) <= 4 else f'{q}<=8' if len(c['ops']) <= 8 else f'{q}>8'
    if c['op'] == 'bin':
        return f"bin/{c['rule']}/{c['ends']}/{'pp' if c['pp'] else 'raw'}"
    if c['op'] == 'integrate':
        return f"integrate/{c['rule']}"
    return c['op']


def nonuniform(ws):
    w = [F(x) for x in ws]
    d = {b - a for a, b in zip(w, w[1:])}
    return len(d) > 1


def nontrivial(c):
    if c['op'] == 'seq':
        return len(c['ops']) >= 3 or nonuniform(c['w'])
    if c['op'] == 'bin':
        return nonuniform(c['w']) or nonuniform(c['c'])
    return nonuniform(c['w']) or len(c['w']) >= 3


# ------------------------------------------------------------------ model side
RULES = {'trapz': 0, 'simps': 1}
ENDS = {'symmetric': 0, 'inside': 1}
_IMPL = {}


def run_impl_cached(c):
    h = C.case_hash({k: v for k, v in c.items() if not k.startswith('_')})
    if h not in _IMPL:
        if len(_IMPL) > 20000:
            _IMPL.clear()
        _IMPL[h] = run_impl_raw(c)
    return _IMPL[h]


def enc_lq(xs):
    return C.enc_list([F(x) for x in xs], C.enc_q)


def enc_op(o):
    k = o['k']
    if k == 'crop':
        return [1] + C.enc_q(F(o['a'])) + C.enc_q(F(o['b']))
    if k == 'trim':
        return [2] + C.enc_q(F(o['tol']))
    if k == 'pad':
        m = o['mode']
        if m == 'edge':
            em = [1]
        elif m == 'default':
            em = [0] + C.enc_q(F(0)) + C.enc_q(F(0))
        elif m[0] == 'scalar':
            em = [0] + C.enc_q(F(m[1])) + C.enc_q(F(m[1]))
        else:
            em = [0] + C.enc_q(F(m[1])) + C.enc_q(F(m[2]))
        return [3] + C.enc_q(F(o['e0'])) + C.enc_q(F(o['e1'])) + C.enc_opt(None if o['samp'] is None else F(o['samp']), C.enc_q) + em
    if k == 'append':
        return [9 if o.get('copy') else 4] + enc_lq(o['w']) + enc_lq(o['v'])
    if k == 'asarray':
        return [10]
    if k == 'resample':
        return [5] + enc_lq(o['g'])
    if k == 'integrate':
        q = lambda x: C.enc_opt(None if x is None else F(x), C.enc_q)
        return [7] + q(o['a']) + q(o['b']) + [RULES[o['rule']]]
    if k == 'bin':
        return [8] + enc_lq(o['c']) + [RULES[o['rule']], ENDS[o['ends']], 1 if o['pp'] else 0]
    raise ValueError(k)




def encode(c):
    op = c['op']
    if op == 'seq':
        if c.get('dtype') not in (None, 'int'):
            return None      # unsigned / float32 representations: judged by the oracle and against the float64 twin
        out = [1] + enc_lq(c['w']) + enc_lq(c['v']) + [len(c['ops'])]
        impl = None
        if len(c['w']) <= 6000:
            probe = run_impl_cached(c)
            if any(len(st['w']) > 20000 for st in probe.get('steps', [])):
                return None      # a pad asked for an enormous number of samples: left to the oracle
        for k, o in enumerate(c['ops']):
            if o['k'] in ('setvalue', 'to'):
                # the new values are whatever the assignment / conversion produced on the live object (the conversion
                # formulas are C14's business): the model is told the values and must then agree on everything after
                impl = impl or run_impl_cached(c)
                if 'steps' not in impl:
                    return None
                if not all(math.isfinite(x) for x in impl['steps'][k]['v']):
                    return None      # non-finite values on the live object: nothing to tell the model, the oracle reports it
                out += [6] + C.enc_list([F(x) for x in impl['steps'][k]['v']], C.enc_q)
            else:
                out += enc_op(o)
        return out
    sp = enc_lq(c['w']) + enc_lq(c['v'])
    if op == 'integrate':
        q = lambda x: C.enc_opt(None if x is None else F(x), C.enc_q)
        return [2] + sp + q(c['a']) + q(c['b']) + [RULES[c['rule']]]
    if op == 'bin':
        return [3] + sp + enc_lq(c['c']) + [RULES[c['rule']], ENDS[c['ends']], 1 if c['pp'] else 0]
    if op == 'ends':
        return [4] + sp + C.enc_q(F(c['tol']))
    if op == 'sample':
        return [5] + sp + enc_lq(c['x'])
    raise ValueError(op)


def decode(c, ints):
    rd = C.Reader(ints, 1)
    st = rd.z()
    if st == 1:
        return {'err': C.ERRNAMES[rd.z()]}
    op = c['op']
    if op == 'seq':
        def outcome():
            e = rd.z()
            st = {'err': C.ERRNAMES[e] if e else None, 'w': rd.lst(rd.q), 'v': rd.lst(rd.q)}
            t = rd.z()
            if t == 1:
                st['ans'] = rd.q()
            elif t == 2:
                st['ans'] = rd.opt(lambda: rd.lst(rd.q))
                st['bins'] = True
            elif t == 3:
                st['spec'] = {'w': rd.lst(rd.q), 'v': rd.lst(rd.q)}
            alt = rd.z()
            st['alt'] = C.ERRNAMES[alt] if alt else None
            return st
        return {'steps': rd.lst(outcome)}
    if op == 'integrate':
        return {'I': rd.q()}
    if op == 'bin':
        return {'bins': rd.opt(lambda: rd.lst(rd.q))}
    if op == 'ends':
        return {'ij': [rd.z(), rd.z()]}
    if op == 'sample':
        return {'f': rd.lst(rd.q)}
    raise ValueError(op)


# ------------------------------------------------------------------ implementation side
NP_DTYPES = {'int': np.int64, 'uint8': np.uint8, 'uint16': np.uint16, 'uint32': np.uint32, 'uint64': np.uint64,
             'float32': np.float32}


def typed(xs, dtype):
    """the numbers as an array of the requested dtype when every one of them is representable there, else float64"""
    a = arr(xs)
    if dtype is None:
        return a
    t = NP_DTYPES[dtype]
    if dtype != 'float32':
        info = np.iinfo(t)
        if not all(F(x).denominator == 1 and info.min <= F(x) <= min(info.max, 2 ** 53) for x in xs):
            return a
        return np.array([int(F(x)) for x in xs], dtype=t)
    b = a.astype(t)
    return b if np.array_equal(b.astype(float), a) else a


# ---- per-case presentation of the numbers to the implementation (the model and the oracle always see the plain case):
#   ws / vs : every wavelength is multiplied by 2**ws and every value by 2**vs on the way in and divided again on the
#             way out. Powers of two scale every float operation exactly, so the answers must be bit-identical: any
#             absolute threshold in the code (np.isclose's atol, an eps used as a length) breaks this scale covariance
#   box     : arrays handed over as numpy subclasses (masked arrays with and without masked entries, a subclass that
#             carries metadata): legal array_like input, must behave like the plain ndarray of the same data, and the
#             caller's arrays must be left alone
_CTX = {'ws': 0, 'vs': 0, 'box': None, 'held': []}


class TaggedArray(np.ndarray):
    """an ndarray subclass carrying metadata"""
    def __new__(cls, a, tag='spectral'):
        obj = np.asarray(a).view(cls)
        obj.tag = tag
        return obj

    def __array_finalize__(self, obj):
        self.tag = getattr(obj, 'tag', None)


def set_ctx(c):
    _CTX.update(ws=int(c.get('ws', 0)), vs=int(c.get('vs', 0)), box=c.get('box'), held=[], ret=[],
                scribble=bool(c.get('scribble')))


def hold(label, a):
    """keep an array the library RETURNED (bins, asarray(), the arrays of a copy) for the rest of the history: it is the
    caller's now. Optionally the caller scribbles over it at once (later calls must not care); at the end of the
    history it must still hold what the caller last saw in it"""
    if not isinstance(a, np.ndarray):
        return
    if _CTX['scribble'] and a.flags.writeable and a.dtype.kind == 'f' and a.size:
        a += 977.0
        a[0] = -3.0
    _CTX['ret'].append((label, a, np.array(a, copy=True)))


def returned_arrays_intact():
    for label, a, snap in _CTX['ret']:
        if not np.array_equal(np.asarray(a), snap, equal_nan=True):
            return f'{label}: the returned array read {snap.tolist()} when the caller last looked and reads {np.asarray(a).tolist()} after the later calls'
    return None


def SW(x):
    return x if _CTX['ws'] == 0 or x is None else x * 2.0 ** _CTX['ws']


def SV(x):
    return x if _CTX['vs'] == 0 or x is None else x * 2.0 ** _CTX['vs']


def boxed(a):
    kind = _CTX['box']
    if kind is None:
        return a
    if kind == 'masked':
        n = a.size
        mask = np.array([(i % 3 == 1) if n >= 2 else True for i in range(n)], dtype=bool)
        b = np.ma.MaskedArray(a.copy(), mask=mask)
    elif kind == 'masked0':
        b = np.ma.masked_invalid(a.copy())
    else:
        b = TaggedArray(a.copy())
    _CTX['held'].append((b, np.array(np.ma.getdata(b), copy=True), np.array(np.ma.getmaskarray(b), copy=True)))
    return b


def caller_arrays_intact():
    return all(np.array_equal(np.ma.getdata(b), d) and np.array_equal(np.ma.getmaskarray(b), m) for b, d, m in _CTX['held'])


def mk(w, v, vu=None, dtype=None):
    lentil = C.import_lentil()
    return lentil.radiometry.Spectrum(boxed(SW(typed(w, dtype))), boxed(SV(typed(v, dtype))), valueunit=vu)


def num(x, form):
    """a bound in one of the argument forms a caller may use: float, numpy scalar, int when it is an integer"""
    q = F(x)
    if form == 1:
        return np.float64(float(q))
    if form == 2 and q.denominator == 1:
        return int(q)
    if form == 3 and q.denominator == 1 and 0 <= q <= 255:
        return np.uint8(int(q))      # a small-width integer scalar: comparisons and differences must not wrap
    return float(q)


def query(s, o):
    if o['k'] == 'integrate':
        f = o.get('form', 0)
        a_, b_ = None if o['a'] is None else SW(num(o['a'], f)), None if o['b'] is None else SW(num(o['b'], f))
        r = s.integrate(a_, b_, o['rule']) if o.get('pos') else s.integrate(a_, b_, method=o['rule'])
        return float(r) / 2.0 ** (_CTX['ws'] + _CTX['vs'])
    c = SW(arr(o['c'])) if o.get('form', 0) == 0 else [SW(x) for x in fl(o['c'])]
    pp = o['pp']
    pp = np.bool_(pp) if o.get('flag') == 1 else int(pp) if o.get('flag') == 2 else pp      # truthy is as good as True
    raw = s.bin(c, o['rule'], o['ends'], pp) if o.get('pos') else s.bin(c, interp_method=o['rule'], ends=o['ends'], preserve_power=pp)
    out = [float(x) / 2.0 ** (_CTX['ws'] + _CTX['vs']) for x in np.ma.getdata(raw)]
    hold(f"bin({o['rule']}, {o['ends']}, preserve_power={o['pp']})", raw)
    return out


def bystander_make(c):
    """another object of the class, built before the session and never touched by it: nothing the session does to ITS
    object (accepted or refused) may show on this one"""
    if len(c['w']) < 2:
        return None
    lentil = C.import_lentil()
    b = lentil.radiometry.Spectrum(arr(c['w']), arr(c['v'])[::-1].copy() + 1.0)
    cen = arr(c['w'])[:3] if len(c['w']) >= 3 else arr(c['w'])
    snap = (b.wave.copy(), b.value.copy(), float(b.integrate(method='trapz')),
            np.array(b.bin(cen, interp_method='trapz', ends='inside', preserve_power=False), copy=True))
    return b, cen, snap


def bystander_check(by):
    if by is None:
        return None
    b, cen, (w0, v0, i0, b0) = by
    if not (np.array_equal(b.wave, w0) and np.array_equal(b.value, v0)):
        return 'a second Spectrum object, never touched by the session, changed'
    i1 = float(b.integrate(method='trapz'))
    b1 = np.asarray(b.bin(cen, interp_method='trapz', ends='inside', preserve_power=False))
    if i1 != i0 or not np.array_equal(b1, b0, equal_nan=True):
        return f'a second Spectrum object, never touched by the session, now answers integrate {i1!r} (was {i0!r}) / bin {b1.tolist()} (was {b0.tolist()})'
    return None


def state(s):
    return {'w': [float(x) / 2.0 ** _CTX['ws'] for x in np.asarray(s.wave).ravel()],
            'v': [float(x) / 2.0 ** _CTX['vs'] for x in np.asarray(s.value).ravel()]}


def call_op(s, o, dtype=None):
    k = o['k']
    if k == 'crop':
        if _CTX['ws'] == 0:
            return s.crop(num(o['a'], o.get('form', 0)), num(o['b'], o.get('form', 0)))
        return s.crop(SW(float(F(o['a']))), SW(float(F(o['b']))))
    if k == 'trim':
        return s.trim(float(F(o['tol'])))
    if k == 'pad':
        kw = {}
        if o['samp'] is not None:
            kw['sampling'] = SW(float(F(o['samp'])))
        m = o['mode']
        if m == 'edge':
            kw['mode'] = 'edge'
        elif m != 'default':
            kw['values'] = SV(float(F(m[1]))) if m[0] == 'scalar' else (SV(float(F(m[1]))), SV(float(F(m[2]))))
        ends = [SW(float(F(o['e0']))), SW(float(F(o['e1'])))]
        te = typed([o['e0'], o['e1']], dtype)
        if dtype is not None and te.dtype != np.float64 and np.size(s.wave) and \
                (te.dtype.kind != 'u' or (ends[0] <= float(np.min(s.wave)) and ends[1] >= float(np.max(s.wave)))):
            # ends given in the dtype under test; an unsigned end INSIDE the grid is not passed typed: the caller's own
            # unsigned subtraction would wrap to ~2**32 requested samples before lentil has a say
            return s.pad(te, **kw)
        ends = tuple(ends) if o.get('form') == 1 else np.array(ends) if o.get('form') == 2 else ends
        return s.pad(ends, **kw)
    if k == 'append':
        other = mk(o['w'], o['v'], dtype=dtype)
        if o.get('copy'):
            return s.append(other, copy=1 if o.get('flag') == 2 else np.True_ if o.get('flag') == 1 else True)
        return s.append(other)
    if k == 'resample':
        g = SW(typed(o['g'], dtype))
        # scipy refuses masked arrays as evaluation points ('masked arrays are not supported'): a legitimate refusal,
        # so a grid is only ever handed over as a plain or metadata-carrying array
        return s.resample(boxed(g) if _CTX['box'] == 'sub' else g)
    if k == 'setvalue':
        old = np.asarray(s.value)
        if o['how'] == 'inplace' and old.dtype == np.float64 and old.flags.writeable and _CTX['box'] is None:
            live = s.value
            live *= num(o['par'], 2)          # the caller edits the array the object holds; no setter is involved
            return None
        if o['how'] in ('scale', 'inplace'):
            new = num(o['par'], 2) * old.astype(float) if old.dtype != np.float64 else num(o['par'], 2) * old
        elif o['how'] == 'shift':
            new = old.astype(float) + SV(num(o['par'], 2)) if old.dtype != np.float64 else old + SV(num(o['par'], 2))
        else:
            new = old[::-1].copy()
        if old.dtype != np.float64 and new.dtype == np.float64:
            # back to the dtype under test when the new values are small and representable there (the arithmetic of the
            # assignment itself is the caller's, not lentil's: done in float64 so that it cannot wrap)
            back = new.astype(old.dtype)
            if np.array_equal(back.astype(float), new) and (old.dtype.kind == 'f' or np.all(np.abs(new) <= 16)):
                new = back
        s.value = boxed(new)
        return None
    if k == 'to':
        return s.to(o['unit'])
    raise ValueError(k)


def run_impl(c):
    return run_impl_cached(c)


def run_impl_raw(c):
    op = c['op']
    set_ctx(c)
    with warnings.catch_warnings():
        warnings.simplefilter('ignore')
        try:
            s = mk(c['w'], c['v'], c.get('vu'), c.get('dtype'))
        except Exception as e:
            return {'err': type(e).__name__}
        if op == 'seq':
            lentil = C.import_lentil()
            steps = []
            dt = c.get('dtype')
            err0 = np.geterr()
            by = bystander_make(c)
            for o in c['ops']:
                err, ret, ans, fresh = None, None, None, None
                try:
                    if o['k'] in ('integrate', 'bin'):
                        ans = query(s, o)
                    elif o['k'] == 'asarray':
                        r0 = s.asarray()
                        r = np.array(r0, copy=True)
                        hold('asarray()', r0)
                        ret = {'w': [float(x) / 2.0 ** _CTX['ws'] for x in r[0]], 'v': [float(x) / 2.0 ** _CTX['vs'] for x in r[1]]}
                    else:
                        r = call_op(s, o, dt)
                        if o['k'] == 'append' and o.get('copy'):
                            ret = state(r)
                            hold('wave of append(copy=True)', r.wave)
                            hold('value of append(copy=True)', r.value)
                except Exception as e:
                    err = type(e).__name__
                st = state(s)
                st['err'] = err
                if ret is not None:
                    st['ret'] = ret
                if o['k'] in ('integrate', 'bin'):
                    # the same question put to a brand-new object holding the same wave and value
                    try:
                        f = lentil.radiometry.Spectrum(np.array(s.wave, dtype=float), np.array(s.value, dtype=float),
                                                       valueunit=s.valueunit)
                        fresh = query(f, o)
                    except Exception as e:
                        fresh = {'err': type(e).__name__}
                    st['ans'], st['fresh'] = ans, fresh
                steps.append(st)
            res = {'steps': steps, 'init': state(mk(c['w'], c['v'], c.get('vu'), dt)), 'caller_ok': caller_arrays_intact(),
                   'returned': returned_arrays_intact(), 'bystander': bystander_check(by), 'errstate_ok': np.geterr() == err0}
            if dt is not None:
                # the float64 twin: same calls, float64 arrays everywhere
                twin = run_impl_raw({k: v for k, v in c.items() if k != 'dtype'})
                res['twin'] = twin.get('steps') if 'steps' in twin else twin
            return res
        if op == 'integrate':
            def integ(sp, a, b):
                try:
                    return float(sp.integrate(None if a is None else SW(float(F(a))), None if b is None else SW(float(F(b))),
                                              method=c['rule'])) / 2.0 ** (_CTX['ws'] + _CTX['vs'])
                except Exception as e:
                    return {'err': type(e).__name__}
            res = {'I': integ(s, c['a'], c['b'])}
            if isinstance(res['I'], dict):
                return res['I']
            ca, cb = F(c['ca']), F(c['cb'])
            lin = [str(ca * F(x) + cb * F(y)) for x, y in zip(c['v'], c['u'])]
            res['Iu'] = integ(mk(c['w'], c['u']), c['a'], c['b'])
            res['Ilin'] = integ(mk(c['w'], lin), c['a'], c['b'])
            if c['mid'] is not None:
                res['Ilo'] = integ(s, c['a'], c['mid'])
                res['Ihi'] = integ(s, c['mid'], c['b'])
            res['after'] = state(s)
            return res
        if op == 'bin':
            try:
                sc = 2.0 ** (_CTX['ws'] + _CTX['vs'])
                b = s.bin(SW(arr(c['c'])), interp_method=c['rule'], ends=c['ends'], preserve_power=c['pp'])
                res = {'bins': [float(x) / sc for x in np.ma.getdata(b)]}
            except Exception as e:
                return {'err': type(e).__name__}
            try:
                res['raw'] = [float(x) / sc for x in np.ma.getdata(s.bin(SW(arr(c['c'])), interp_method=c['rule'], ends=c['ends'],
                                                                         preserve_power=False))]
            except Exception as e:
                res['raw'] = None
            try:
                # the bins are the caller's: a later bin() with as many centres on ANOTHER spectrum must not reach them
                held = s.bin(SW(arr(c['c'])), interp_method=c['rule'], ends=c['ends'], preserve_power=c['pp'])
                hold('bin()', held)
                other = mk(c['w'], [str(F(x) * 3 + 1) for x in c['v']][::-1])
                for kw in ({'interp_method': c['rule'], 'ends': c['ends'], 'preserve_power': False},
                           {'interp_method': 'simps' if c['rule'] == 'trapz' else 'trapz', 'ends': 'inside', 'preserve_power': True}):
                    try:
                        other.bin(SW(arr(c['c'])), **kw)      # only there to disturb; may legitimately refuse
                    except Exception:
                        pass
                res['returned'] = returned_arrays_intact()
            except Exception:
                res['returned'] = None
            res['after'] = state(s)
            return res
        if op == 'ends':
            try:
                i, j = s.ends(float(F(c['tol'])))
                return {'ij': [int(i), int(j)]}
            except Exception as e:
                return {'err': type(e).__name__}
        if op == 'sample':
            try:
                return {'f': [float(x) / 2.0 ** _CTX['vs'] for x in np.atleast_1d(np.ma.getdata(s.sample(SW(arr(c['x'])))))]}
            except Exception as e:
                return {'err': type(e).__name__}
    raise ValueError(op)


# ------------------------------------------------------------------ comparison
def exact_q(q):
    """a rational a float computation in the exact regime reproduces bit for bit"""
    d = q.denominator
    return d & (d - 1) == 0 and abs(q.numerator).bit_length() <= 48 and d.bit_length() <= 40


def close(x, q, tol=TOL):
    if isinstance(x, float) and not math.isfinite(x):
        return False
    return abs(F(x) - q) <= F(tol) * (1 + abs(q))


def cmp_list(xs, qs, what, exact=True):
    """exact=True: rationals in the exact regime must be reproduced bit for bit, the others to 1e-12"""
    if len(xs) != len(qs):
        return f'{what}: lengths differ (implementation {len(xs)}, model {len(qs)})'
    for i, (x, q) in enumerate(zip(xs, qs)):
        if exact and exact_q(q):
            if not (math.isfinite(x) and F(x) == q):
                return f'{what}[{i}]: implementation {x!r}, model {q}'
        elif not close(x, q):
            return f'{what}[{i}]: implementation {x!r}, model {float(q)!r} (tolerance {TOL})'
    return None


def compare(c, impl, model):
    if ('err' in impl) != ('err' in model):
        return f'implementation {impl.get("err", "returned")}, model {model.get("err", "returned")}'
    if 'err' in impl:
        return None if impl['err'] == model['err'] else f'exception classes differ: implementation {impl["err"]}, model {model["err"]}'
    op = c['op']
    if op == 'seq':
        if len(impl['steps']) != len(model['steps']):
            return 'number of steps differs'
        sync = True       # exact regime: the model's rationals are reproduced bit for bit by the float computation
        for k, (a, b) in enumerate(zip(impl['steps'], model['steps'])):
            o = c['ops'][k]
            name = o['k']
            pre = model['steps'][k - 1] if k else {'w': [F(x) for x in c['w']], 'v': [F(x) for x in c['v']]}
            if not sync and name in ('crop', 'trim', 'pad', 'append', 'resample') and \
                    ((a['err'] or None) != b['err'] or len(a['w']) != len(b['w']) or len(a['v']) != len(b['v'])):
                return None   # outside the exact regime a rounding may flip a discrete decision: the oracle judges alone
            if (a['err'] or None) != b['err'] and not (a['err'] and b['err'] and a['err'] == b.get('alt')):
                # (a pad refused on both sides may raise either side's class: C15 does not pin which refusal fires)
                return f'step {k} ({name}): exception {a["err"]} vs model {b["err"]}'
            ex = sync and (name != 'resample' or interp_exact(pre['w'], pre['v']))
            m = cmp_list(a['w'], b['w'], f'step {k} ({name}) wave', ex) or cmp_list(a['v'], b['v'], f'step {k} ({name}) value', ex)
            if m:
                return m
            if 'spec' in b and not a['err']:
                # append(copy=True) / asarray(): the returned table against the model's
                if a.get('ret') is None:
                    return f'step {k} ({name}): nothing returned'
                m = cmp_list(a['ret']['w'], b['spec']['w'], f'step {k} ({name}) returned wave', ex) or \
                    cmp_list(a['ret']['v'], b['spec']['v'], f'step {k} ({name}) returned value', ex)
                if m:
                    return m
            if name == 'integrate' and not a['err']:
                q = b['ans']
                if sync and o['rule'] == 'trapz' and exact_q(q):
                    if F(a['ans']) != q:
                        return f'step {k} (integrate on the current object): implementation {a["ans"]!r}, model {q}'
                elif not close(a['ans'], q, 1e-11):
                    return f'step {k} (integrate on the current object): implementation {a["ans"]!r}, model {float(q)!r}'
            if name == 'bin' and not a['err']:
                if b['ans'] is None:
                    if all(math.isfinite(x) for x in a['ans']):
                        return f'step {k} (bin): model: zero bin sum (non-finite result), implementation finite'
                else:
                    m = cmp_list(a['ans'], b['ans'], f'step {k} (bin on the current object)',
                                 exact=(sync and o['rule'] == 'trapz' and not o['pp'] and interp_exact(pre['w'], pre['v'])))
                    if m:
                        return m
            if len(b['w']) != len(b['v']):
                return None       # ill-formed: later calls are not compared
            if not ex or not all(exact_q(q) for q in b['w'] + b['v']):
                sync = False      # still compared, to 1e-12, as long as the discrete decisions agree
        return None
    if op == 'integrate':
        q = model['I']
        if c['rule'] == 'trapz' and exact_q(q):
            return None if F(impl['I']) == q else f'integrate: implementation {impl["I"]!r}, model {q}'
        return None if close(impl['I'], q) else f'integrate: implementation {impl["I"]!r}, model {float(q)!r}'
    if op == 'bin':
        if model['bins'] is None:
            return None if not all(math.isfinite(x) for x in impl['bins']) else 'model: zero bin sum (non-finite result), implementation finite'
        return cmp_list(impl['bins'], model['bins'], 'bins',
                        exact=(c['rule'] == 'trapz' and not c['pp'] and interp_exact([F(x) for x in c['w']], [F(x) for x in c['v']])))
    if op == 'ends':
        return None if impl['ij'] == model['ij'] else f'ends: implementation {impl["ij"]}, model {model["ij"]}'
    if op == 'sample':
        return cmp_list(impl['f'], model['f'], 'sample', interp_exact([F(x) for x in c['w']], [F(x) for x in c['v']]))
    return None


# ------------------------------------------------------------------ direct oracle (no model)
def o_increasing(w):
    return all(a < b for a, b in zip(w, w[1:]))


def o_interp(w, v, x):
    """piecewise-linear interpolant, 0 outside the table"""
    if not w or x < w[0] or x > w[-1]:
        return F(0)
    j = bisect.bisect_right(w, x) - 1
    if w[j] == x:
        return v[j]
    return v[j] + (v[j + 1] - v[j]) * (x - w[j]) / (w[j + 1] - w[j])


def o_trapz(w, v):
    return sum(((w[i + 1] - w[i]) * (v[i + 1] + v[i]) / 2 for i in range(len(w) - 1)), F(0))


def o_integral(w, v, lo, hi):
    """the integral of the interpolant between arbitrary bounds: split at every sample"""
    if not w or hi <= lo:
        return F(0)
    lo, hi = max(lo, w[0]), min(hi, w[-1])
    if hi <= lo:
        return F(0)
    pts = [lo] + [x for x in w if lo < x < hi] + [hi]
    return o_trapz(pts, [o_interp(w, v, x) for x in pts])


def o_select(w, v, lo, hi):
    idx = [i for i, x in enumerate(w) if lo <= x <= hi]
    return [w[i] for i in idx], [v[i] for i in idx]


def fx(xs):
    return [F(x) for x in xs]


def borderline(ratios, tol):
    """some v/max is so close to the tolerance (without being equal) that float rounding decides the comparison"""
    return any(r != tol and abs(r - tol) <= F(1, 10 ** 12) * (1 + abs(tol)) for r in ratios)


def pow2(q):
    return q > 0 and q.numerator & (q.numerator - 1) == 0 and q.denominator & (q.denominator - 1) == 0


def interp_exact(w, v):
    """np.interp reproduces the rational interpolant bit for bit: power-of-two gaps, small dyadic values"""
    return all(pow2(b - a) for a, b in zip(w, w[1:])) and all(exact_q(x) for x in list(w) + list(v))


def o_simpson(w, v):
    """scipy's rule on the selected samples, asked directly (no lentil object, no memo)"""
    import scipy.integrate
    return float(scipy.integrate.simpson(x=np.array(fl(w)), y=np.array(fl(v))))


def same(x, y, tol=1e-12):
    if isinstance(x, list) or isinstance(y, list):
        return isinstance(x, list) and isinstance(y, list) and len(x) == len(y) and all(same(a, b, tol) for a, b in zip(x, y))
    if not (math.isfinite(x) and math.isfinite(y)):
        return (math.isnan(x) and math.isnan(y)) or x == y
    return abs(x - y) <= tol * (1 + abs(y))


def oracle_query(o, st, pw, pv, memo, tag, lo_prec=False):
    """a query inside a session: answered from the object's CURRENT wave and value, whatever was asked before"""
    err, ans, fresh = st['err'], st.get('ans'), st.get('fresh')
    if isinstance(fresh, dict):
        if not err:
            return f'{tag}: the live object answers {ans!r}, a new object with the same wave and value raises {fresh["err"]}'
        return None if err == fresh['err'] else f'{tag}: raises {err}, a new object with the same wave and value raises {fresh["err"]}'
    if err:
        return f'{tag}: raises {err}, a new object with the same wave and value answers {fresh!r}'
    t11, t10 = (1e-5, 1e-5) if lo_prec else (1e-11, 1e-10)     # float32 arrays: single-precision arithmetic inside numpy
    if not same(ans, fresh, 1e-5 if lo_prec else 1e-12):
        return (f'{tag}: the live object answers {ans!r} but a new object with the same wave and value answers {fresh!r} '
                f'(the answer depends on the history of the object)')
    if o['k'] == 'integrate':
        lo = F(float(F(o['a']))) if o['a'] is not None else min(pw)
        hi = F(float(F(o['b']))) if o['b'] is not None else max(pw)
        sw, sv = o_select(pw, pv, lo, hi)
        if o['rule'] == 'trapz':
            if not close(ans, o_trapz(sw, sv), t11):
                return f'{tag}: {ans!r}, trapezoid rule over the current samples in the closed range = {float(o_trapz(sw, sv))!r}'
        elif sw and not same(ans, o_simpson(sw, sv), t10):
            return f'{tag}: {ans!r}, Simpson rule over the current samples in the closed range = {o_simpson(sw, sv)!r}'
        # linear in the values: same grid, values k times those of an earlier identical query
        key = (o['a'], o['b'], o['rule'])
        if key in memo:
            mw, mv, mi = memo[key]
            nz = [i for i, y in enumerate(mv) if y != 0]
            if mw == pw and nz and len(mv) == len(pv):
                kf = pv[nz[0]] / mv[nz[0]]
                if all(y == kf * x for x, y in zip(mv, pv)) and not close(ans, kf * F(mi), t10):
                    return (f'{tag}: values are {float(kf)} times those of an earlier identical query that gave {mi!r}; '
                            f'integrate now gives {ans!r}, not {float(kf * F(mi))!r} (not linear in the values)')
        memo[key] = (pw, pv, ans)
    else:
        cs = fx(fl(o['c']))
        if len(ans) != len(cs):
            return f'{tag}: {len(ans)} bins for {len(cs)} centres'
        if o['pp'] and o['rule'] == 'trapz' and all(math.isfinite(x) for x in ans) and abs(sum(ans)) > 1e-9:
            sw, sv = o_select(pw, pv, min(cs), max(cs))
            if not close(sum(ans), o_trapz(sw, sv), t10):
                return (f'{tag}: power-preserved bins sum to {sum(ans)!r}, integrate over the span of the centres on the '
                        f'current values is {float(o_trapz(sw, sv))!r}')
    return None


def oracle_twin(c, impl):
    """a spectrum held in another dtype (signed/unsigned integers, float32) against its float64 twin: while both accept
    or both refuse they must hold the same samples and give the same answers; where the twin refuses, the typed object
    must refuse too or at least stay well-formed (checked by the caller on every state)"""
    tw = impl.get('twin')
    if tw is None:
        return None
    if isinstance(tw, dict):
        return f'the constructor accepts this {c["dtype"]} spectrum but refuses its float64 twin ({tw.get("err")})'
    tol = 1e-5 if c['dtype'] == 'float32' else 1e-12
    for k, (o, a, b) in enumerate(zip(c['ops'], impl['steps'], tw)):
        if bool(a['err']) != bool(b['err']):
            if o['k'] in ('integrate', 'bin'):
                return f'step {k} ({o["k"]}): {c["dtype"]} object {a["err"] or "answers"}, float64 twin {b["err"] or "answers"}'
            return None      # e.g. the caller's own integer arithmetic on the arguments: from here on two different histories
        if not same(a['w'], b['w'], tol) or not same(a['v'], b['v'], tol):
            return (f'step {k} ({o["k"]}): the {c["dtype"]} object holds wave {a["w"]} value {a["v"]}, its float64 twin '
                    f'wave {b["w"]} value {b["v"]}')
        if 'ans' in a and not a['err'] and not same(a['ans'], b['ans'], tol):
            return f'step {k} ({o["k"]}): the {c["dtype"]} object answers {a["ans"]!r}, its float64 twin {b["ans"]!r}'
    return None


def oracle_seq(c, impl):
    pw, pv = fx(fl(c['w'])), fx(fl(c['v']))
    memo = {}
    lo_prec = c.get('dtype') == 'float32'
    init = impl.get('init')
    if init is not None:
        iw, iv = fx(init['w']), fx(init['v'])
        if len(iw) != len(iv) or not o_increasing(iw) or any(x <= 0 for x in iw):
            return f'the constructor accepted wave {init["w"]} with {len(iv)} values'
        if (iw, iv) != (pw, pv):
            return 'the constructed object does not hold the given samples'
    m = oracle_twin(c, impl)
    if m:
        return m
    if impl.get('caller_ok') is False:
        return 'an array handed over by the caller (numpy subclass) was modified by the session'
    if impl.get('returned'):
        return impl['returned']
    if impl.get('bystander'):
        return impl['bystander']
    if impl.get('errstate_ok') is False:
        return 'the session changed the numpy error state (np.geterr()) of the caller'
    for k, (o, st) in enumerate(zip(c['ops'], impl['steps'])):
        name = o['k']
        if any(not math.isfinite(x) for x in st['w'] + st['v']):
            return f'step {k} ({name}): non-finite sample'
        w, v = fx(st['w']), fx(st['v'])
        err = st['err']
        tag = f'step {k} ({name}{", refused with " + err if err else ""})'
        # well-formed
        if len(w) != len(v):
            return f'{tag}: {len(w)} wavelengths but {len(v)} values'
        if not o_increasing(w):
            return f'{tag}: wavelength grid not strictly increasing'
        if any(x <= 0 for x in w):
            return f'{tag}: non-positive wavelength'
        if name == 'asarray':
            r = st.get('ret')
            if (w, v) != (pw, pv):
                return f'{tag}: asarray modified the spectrum'
            if err or r is None or (fx(r['w']), fx(r['v'])) != (pw, pv):
                return f'{tag}: asarray does not return the current (wave, value)'
            continue
        if name in ('integrate', 'bin'):
            if (w, v) != (pw, pv):
                return f'{tag}: the query modified the spectrum'
            m = oracle_query(o, st, pw, pv, memo, tag, lo_prec)
            if m:
                return m
            continue
        if name in ('setvalue', 'to'):
            if err:
                return f'{tag}: raised {err}'
            if w != pw:
                return f'{tag}: an assignment of values moved the wavelength grid'
            if name == 'setvalue':
                par = F(o['par']) if o['par'] is not None else None
                exp = [par * y for y in pv] if o['how'] in ('scale', 'inplace') else [y + par for y in pv] if o['how'] == 'shift' else pv[::-1]
                if any(not close(float(y), e) for y, e in zip(v, exp)):
                    return f'{tag}: the object does not hold the assigned values'
            pw, pv = w, v
            continue
        # retained samples unaltered (unsigned / float32 tables go through scipy's generic interpolation path, which
        # re-computes a node from its left neighbour: there an ulp is allowed; float64 and int64 tables: bit for bit)
        old = dict(zip(pw, pv))
        generic = c.get('dtype') not in (None, 'int')
        for x, y in zip(w, v):
            if x in old and old[x] != y and not (generic and name == 'resample' and close(float(y), old[x], 1e-5 if lo_prec else TOL)):
                return f'{tag}: the sample at wavelength {float(x)} changed from {float(old[x])} to {float(y)}'
        if name == 'append' and o.get('copy'):
            if (w, v) != (pw, pv):
                return f'{tag}: append(copy=True) modified the object'
            if not err:
                r = st.get('ret')
                if r is None or fx(r['w']) != pw + fx(fl(o['w'])) or fx(r['v']) != pv + fx(fl(o['v'])):
                    return f'{tag}: the copy is not the concatenation'
        elif name == 'crop':
            a, b = F(float(F(o['a']))), F(float(F(o['b'])))
            ew, ev = o_select(pw, pv, a, b)
            if (w, v) != (ew, ev):
                return f'{tag}: kept {fl(w)} but the samples inside [{float(a)}, {float(b)}] are {fl(ew)}'
        elif name == 'trim':
            tol = F(float(F(o['tol'])))
            if err or not any(pv):
                exp = (pw, pv)
            else:
                m = max(pv)
                if m > 0 and borderline([y / m for y in pv], tol):
                    exp = (w, v)      # a ratio within rounding of the tolerance: the float comparison may go either way
                else:
                    idx = [i for i, y in enumerate(pv) if y / m > tol]
                    exp = (pw[idx[0]:idx[-1] + 1], pv[idx[0]:idx[-1] + 1]) if idx and m > 0 else None
            if exp is None:
                return f'{tag}: accepted although no sample is above the tolerance'
            if (w, v) != exp:
                return f'{tag}: kept {fl(w)}, expected first..last sample above the tolerance = {fl(exp[0])}'
        elif name == 'pad':
            if err:
                if (w, v) != (pw, pv):
                    return f'{tag}: refused pad changed the spectrum'
            else:
                n = len(pw)
                pos = [i for i in range(len(w) - n + 1) if w[i:i + n] == pw and v[i:i + n] == pv]
                if not pos:
                    return f'{tag}: the old samples are not a block of the padded spectrum'
                i = pos[0]
                e0, e1 = F(float(F(o['e0']))), F(float(F(o['e1'])))
                dw = F(float(F(o['samp']))) if o['samp'] is not None else min(b - a for a, b in zip(pw, pw[1:]))
                m = o['mode']
                v0, v1 = (pv[0], pv[-1]) if m == 'edge' else (F(0), F(0)) if m == 'default' else \
                    (F(m[1]), F(m[1])) if m[0] == 'scalar' else (F(m[1]), F(m[2]))
                if e0 < pw[0] and (i == 0 or w[0] != e0):
                    return f'{tag}: padded grid does not start at the requested end {float(e0)}'
                if e1 > pw[-1] and (i + n == len(w) or w[-1] != e1):
                    return f'{tag}: padded grid does not stop at the requested end {float(e1)}'
                if e0 >= pw[0] and i != 0 or e1 <= pw[-1] and i + n != len(w):
                    return f'{tag}: samples added on a side that needed none'
                dwt = dw * (1 + F(1, 10 ** 12))
                if any(b - a > dwt for a, b in zip(w[:i + 1], w[1:i + 1])) or any(b - a > dwt for a, b in zip(w[i + n - 1:], w[i + n:])):
                    return f'{tag}: padded samples are further apart than the sampling {float(dw)}'
                if any(y != v0 for y in v[:i]) or any(y != v1 for y in v[i + n:]):
                    return f'{tag}: padded values are not the requested constants'
        elif name == 'append':
            if err:
                if (w, v) != (pw, pv):
                    return f'{tag}: refused append changed the spectrum'
            elif (w, v) != (pw + fx(fl(o['w'])), pv + fx(fl(o['v']))):
                return f'{tag}: result is not the concatenation'
        elif name == 'resample':
            g = fx(fl(o['g']))
            if err:
                if (w, v) != (pw, pv):
                    return f'{tag}: refused resample changed the spectrum'
            else:
                if w != g:
                    return f'{tag}: grid is not the requested one'
                for x, y in zip(w, v):
                    if not close(float(y), o_interp(pw, pv, x), 1e-5 if lo_prec else TOL):
                        return f'{tag}: value at {float(x)} is {float(y)}, interpolant gives {float(o_interp(pw, pv, x))}'
        pw, pv = w, v
    return None


def oracle(c, impl):
    op = c['op']
    if op == 'seq':
        if 'err' in impl:
            return None if not (o_increasing(fx(c['w'])) and all(F(x) > 0 for x in c['w']) and len(c['w']) == len(c['v'])) \
                else f'constructor refused a well-formed spectrum ({impl["err"]})'
        return oracle_seq(c, impl)
    w, v = fx(fl(c['w'])), fx(fl(c['v']))
    if op == 'integrate':
        if 'err' in impl:
            if c['rule'] == 'trapz' and (w or (c['a'] is not None and c['b'] is not None)):
                return f'trapezoid integrate raised {impl["err"]}'
            return None
        if impl['after'] != {'w': fl(c['w']), 'v': fl(c['v'])}:
            return 'integrate modified the spectrum'
        lo = F(float(F(c['a']))) if c['a'] is not None else min(w)
        hi = F(float(F(c['b']))) if c['b'] is not None else max(w)
        sw, sv = o_select(w, v, lo, hi)
        I = impl['I']
        if c['rule'] == 'trapz':
            if not close(I, o_trapz(sw, sv)):
                return f'integrate({c["a"]}, {c["b"]}) = {I!r}, trapezoid rule over the samples in the closed range = {float(o_trapz(sw, sv))!r}'
            if sw and not close(I, o_integral(w, v, sw[0], sw[-1])):
                return 'trapezoid integrate is not the integral of the piecewise-linear interpolant over the hull of the selected samples'
        # linear in the values
        Iu, Il = impl.get('Iu'), impl.get('Ilin')
        if isinstance(Iu, float) and isinstance(Il, float):
            ca, cb = F(c['ca']), F(c['cb'])
            exp = ca * F(I) + cb * F(Iu)
            if abs(F(Il) - exp) > F(1e-10) * (1 + abs(ca * F(I)) + abs(cb * F(Iu))):
                return f'integrate is not linear in the values: I(a v + b u) = {Il!r}, a I(v) + b I(u) = {float(exp)!r}'
        # additive at a sample point
        if c['rule'] == 'trapz' and c['mid'] is not None and isinstance(impl.get('Ilo'), float) and isinstance(impl.get('Ihi'), float):
            mid = F(float(F(c['mid'])))
            if lo <= mid <= hi and not close(impl['Ilo'] + impl['Ihi'], F(I), 1e-11):
                return f'integrate not additive at the sample {float(mid)}: {impl["Ilo"]!r} + {impl["Ihi"]!r} != {I!r}'
        return None
    if op == 'bin':
        cs = fx(fl(c['c']))
        if 'err' in impl:
            if len(cs) >= 2 and c['rule'] == 'trapz' and w:
                return f'bin raised {impl["err"]}'
            return None
        if impl['after'] != {'w': fl(c['w']), 'v': fl(c['v'])}:
            return 'bin modified the spectrum'
        if impl.get('returned'):
            return impl['returned']
        b = impl['bins']
        if len(b) != len(cs):
            return f'{len(b)} bins for {len(cs)} centres'
        raw = impl['raw']
        finite = all(math.isfinite(x) for x in b)
        inc = o_increasing(cs)
        d = {y - x for x, y in zip(cs, cs[1:])}
        uni_c = len(d) == 1
        uni_w = len({y - x for x, y in zip(w, w[1:])}) <= 1
        nonneg = all(y >= 0 for y in v)
        if finite and nonneg and inc and (c['rule'] == 'trapz' or not c['pp'] or uni_w):
            if any(x < -1e-15 for x in b):
                return f'negative bin {min(b)!r} for a non-negative spectrum'
        # edges of the bins
        if inc:
            h = [(y - x) / 2 for x, y in zip(cs, cs[1:])]
            mid = [x + e for x, e in zip(cs, h)]
            edges = ([cs[0] - h[0]] if c['ends'] == 'symmetric' else [cs[0]]) + mid + \
                    ([cs[-1] + h[-1]] if c['ends'] == 'symmetric' else [cs[-1]])
            if raw is not None:
                for k in range(len(cs)):
                    l, r = edges[k], edges[k + 1]
                    inside = [x for x in w if l < x < r]
                    if w and (l < w[0] <= r or l <= w[-1] < r or inside):
                        continue          # the spectrum has a kink inside this bin: no exactness claim
                    if c['rule'] == 'simps' and not (uni_c or (k == 0 or k == len(cs) - 1) and c['ends'] == 'inside'):
                        continue          # Simpson's node is the bin middle only for uniformly spaced centres
                    if c['rule'] == 'simps' and not uni_c:
                        continue
                    if not close(raw[k], o_integral(w, v, l, r), 1e-11):
                        return (f'bin {k} over [{float(l)}, {float(r)}] is {raw[k]!r} but the spectrum is linear there with '
                                f'integral {float(o_integral(w, v, l, r))!r}')
        if c['pp'] and finite and raw is not None and abs(sum(raw)) > 1e-9:
            lo, hi = min(cs), max(cs)
            sw, sv = o_select(w, v, lo, hi)
            if c['rule'] == 'trapz':
                if not close(sum(b), o_trapz(sw, sv), 1e-10):
                    return f'power-preserved bins sum to {sum(b)!r}, integrate over the span of the centres is {float(o_trapz(sw, sv))!r}'
                if sw and not close(sum(b), o_integral(w, v, sw[0], sw[-1]), 1e-10):
                    return (f'power-preserved bins sum to {sum(b)!r}, the integral of the piecewise-linear spectrum over the '
                            f'samples inside the span of the centres is {float(o_integral(w, v, sw[0], sw[-1]))!r}')
        return None
    if op == 'ends':
        tol = F(float(F(c['tol'])))
        if not v or max(v) <= 0:
            return None if 'err' in impl else 'ends accepted a spectrum without a positive value'
        if borderline([y / max(v) for y in v], tol):
            return None
        idx = [i for i, y in enumerate(v) if y / max(v) > tol]
        if not idx:
            return None if 'err' in impl else 'ends accepted although nothing is above the tolerance'
        if 'err' in impl:
            return f'ends raised {impl["err"]}'
        return None if impl['ij'] == [idx[0], idx[-1]] else f'ends = {impl["ij"]}, first/last above tolerance = {[idx[0], idx[-1]]}'
    if op == 'sample':
        if 'err' in impl:
            return None if not w else f'sample raised {impl["err"]}'
        xs = fx(fl(c['x']))
        for x, y in zip(xs, impl['f']):
            if not close(y, o_interp(w, v, x)):
                return f'sample({float(x)}) = {y!r}, interpolant = {float(o_interp(w, v, x))!r}'
        return None
    return None


# ------------------------------------------------------------------ known findings
def known_match(f, c, impl):
    if f['id'] == 'C15-one-sample-other-dtype':
        # the first thing that goes wrong is a nan produced by sampling (resample / bin) a ONE-sample spectrum whose
        # wave or value array is neither float64 nor int64
        if c['op'] != 'seq' or c.get('dtype') in (None, 'int') or 'steps' not in impl:
            return False
        n = len(c['w'])
        for o, st in zip(c['ops'], impl['steps']):
            if any(x != x for x in st['v']):
                return n == 1 and o['k'] == 'resample'
            if o['k'] == 'bin' and n == 1 and isinstance(st.get('ans'), list) and any(x != x for x in st['ans']):
                return True
            n = len(st['w'])
        return False
    return False


def replay_known(f):
    lentil = C.import_lentil()
    S = lentil.radiometry.Spectrum
    if f['id'] == 'C15-one-sample-other-dtype':
        s = S(np.array([9], dtype=np.uint16), np.array([5.]))
        return bool(np.isnan(s.sample(np.array([9.]))[0]))
    if f['id'] == 'C15-bin-integer-centres':
        s = S(np.array([1., 2., 4., 8.]), np.array([1., 3., 7., 2.]))
        a = s.bin(np.array([2, 3, 6]), interp_method='simps', ends='inside', preserve_power=False)
        b = s.bin(np.array([2., 3., 6.]), interp_method='simps', ends='inside', preserve_power=False)
        return not np.allclose(a, b)
    return False



# ------------------------------------------------------------------ WP-T3: translation layer (source -> Gallina)
# An ADDITIONAL tie (DESIGN 10.3): harness/gen_src.py (suite 'C15') translates the np.linspace arguments (padding sample counts) of lentil/radiometry.py:Spectrum.pad on an integer wavelength grid
# from the CURRENT source text into coq/theories/Gen/SpectrumSrc.v; Proofs/SpectrumSrcP.v proves every translated term equal to the model for
# all integers; Properties/C15Src.v states it.  Policy: a function the translator refuses is only reported; a
# translated function whose equivalence lemma no longer compiles is compared with the model mirror on sampled points,
# an exhaustive small box and random points - a found disagreement is a VIOLATION with that witness (replayable: op
# 'src'), none found is reported as unproved.  The build of C15Src happens here, never in COQ_TARGETS.
def extra(tier, rng):
    from .. import gen_src as G
    return G.run_layer('C15', ID, tier, rng, C)


def _wrap_src_replay():
    from .. import gen_src as G
    return G.wrap_replay(run_impl, oracle, C)


run_impl, oracle = _wrap_src_replay()
