"""Shared machinery of the lentil verification harness.

Everything here is generic: building the Coq development and the extracted OCaml models,
running cases through a model binary, the case codec (mirror of coq/theories/Lib/Codec.v),
evidence files, known findings, replays and the decision procedure of DESIGN.md section 5.
Per-property code lives in harness/props/cXX.py.
"""
import fractions
import hashlib
import json
import os
import random
import re
import shutil
import subprocess
import sys
import time
from concurrent.futures import ThreadPoolExecutor

ROOT = os.path.dirname(os.path.dirname(os.path.abspath(__file__)))
COQ = os.path.join(ROOT, 'coq')
BUILD = os.path.join(ROOT, 'ocaml', 'build')
REPO = os.environ.get('VERIF_REPO', '/repo')   # development-time override: a scratch copy carrying a mutant
NCPU = min(16, os.cpu_count() or 4)
Fraction = fractions.Fraction

ALLOWED_AXIOMS = {
    # axioms declared by the standard library itself (named in the trusted base)
    'ClassicalDedekindReals.sig_forall_dec', 'ClassicalDedekindReals.sig_not_dec',
    'FunctionalExtensionality.functional_extensionality_dep', 'Classical_Prop.classic',
    'ProofIrrelevance.proof_irrelevance', 'Eqdep.Eq_rect_eq.eq_rect_eq', 'JMeq.JMeq_eq',
    'ClassicalEpsilon.constructive_indefinite_description',
}
# further axioms/primitives declared by the standard library itself, by defining module
STDLIB_AXIOM_MODULES = ('PrimFloat.', 'PrimInt63.', 'Uint63.', 'Sint63.', 'FloatAxioms.', 'FloatOps.', 'PrimArray.',
                        'PropExtensionality.', 'IndefiniteDescription.', 'Description.', 'ClassicalUniqueChoice.',
                        'ClassicalChoice.', 'Epsilon.', 'ClassicalFacts.', 'Classical_Pred_Type.', 'Eqdep.',
                        'ClassicalDedekindReals.', 'FunctionalExtensionality.', 'Classical_Prop.',
                        'ProofIrrelevance.', 'JMeq.', 'ClassicalEpsilon.')


def axiom_allowed(name):
    return name in ALLOWED_AXIOMS or name.startswith(STDLIB_AXIOM_MODULES)


FORBIDDEN = re.compile(r'\b(Admitted|admit|Axiom|Axioms|Parameter|Parameters|Conjecture|Conjectures|'
                       r'Unset\s+Guard|bypass_check|Admit\s+Obligations|native_compute|'
                       r'Unset\s+Positivity|Unset\s+Universe|type-in-type|impredicative-set)\b')


# --------------------------------------------------------------------------------------
# implementation import (always the working tree in /repo)
# --------------------------------------------------------------------------------------
def import_lentil():
    if REPO not in sys.path:
        sys.path.insert(0, REPO)
    for k in list(sys.modules):
        if k == 'lentil' or k.startswith('lentil.'):
            m = sys.modules[k]
            f = getattr(m, '__file__', '') or ''
            if not f.startswith(REPO + '/'):
                del sys.modules[k]
    import lentil
    assert lentil.__file__.startswith(REPO + '/'), lentil.__file__
    return lentil


# --------------------------------------------------------------------------------------
# Coq build
# --------------------------------------------------------------------------------------
def sh(cmd, cwd=None, timeout=1800, env=None):
    p = subprocess.run(cmd, shell=True, cwd=cwd, timeout=timeout, env=env,
                       stdout=subprocess.PIPE, stderr=subprocess.STDOUT, text=True)
    return p.returncode, p.stdout


def coq_files():
    out = []
    for d, _, fs in os.walk(os.path.join(COQ, 'theories')):
        for f in fs:
            if f.endswith('.v'):
                out.append(os.path.relpath(os.path.join(d, f), COQ))
    return sorted(out)


def dep_closure(targets):
    """the .v files (relative to coq/) that the given .vo targets depend on, transitively, following
    `From LV Require [Import|Export] A.B C.D.` and `Require [Import|Export] LV.A.B.`"""
    todo = [t[:-1] if t.endswith('.vo') else t for t in targets]
    seen = []
    while todo:
        f = todo.pop()
        if f in seen or not os.path.exists(os.path.join(COQ, f)):
            continue
        seen.append(f)
        txt = re.sub(r'\(\*.*?\*\)', '', open(os.path.join(COQ, f)).read(), flags=re.S)
        for m in re.finditer(r'From\s+LV\s+Require\s+(?:Import\s+|Export\s+)?(.*?)\.(?:\s|$)', txt, flags=re.S):
            for mod in m.group(1).split():
                todo.append('theories/' + mod.replace('.', '/') + '.v')
        for m in re.finditer(r'(?<!LV\s)Require\s+(?:Import\s+|Export\s+)?((?:LV\.[\w.]+?\s+)*LV\.[\w.]+?)\.(?:\s|$)', txt):
            for mod in m.group(1).split():
                todo.append('theories/' + mod[3:].replace('.', '/') + '.v')
    return sorted(seen)


def hygiene(targets=None):
    """fail closed on anything that would weaken the kernel's guarantee; with targets: only the files the
    targets depend on (each check is responsible for its own closure; --setup scans the whole tree)"""
    bad = []
    for f in (dep_closure(targets) if targets else coq_files()):
        txt = open(os.path.join(COQ, f)).read()
        txt_nc = re.sub(r'\(\*.*?\*\)', '', txt, flags=re.S)
        for m in FORBIDDEN.finditer(txt_nc):
            bad.append(f'{f}: {m.group(0)}')
        # Variable/Hypothesis outside a section
        depth = 0
        for line in txt_nc.splitlines():
            s = line.strip()
            if re.match(r'Section\s+\w+', s):
                depth += 1
            elif re.match(r'End\s+\w+\s*\.', s) and depth > 0:
                depth -= 1
            elif depth == 0 and re.match(r'(Variable|Variables|Hypothesis|Hypotheses|Context)\b', s):
                bad.append(f'{f}: {s[:60]} (outside a section)')
    return bad


def coq_makefile():
    files = coq_files()
    proj = '-Q theories LV\n' + '\n'.join(files) + '\n'
    p = os.path.join(COQ, '_CoqProject')
    old = open(p).read() if os.path.exists(p) else ''
    if old != proj or not os.path.exists(os.path.join(COQ, 'Makefile')):
        open(p, 'w').write(proj)
        rc, out = sh('coq_makefile -f _CoqProject -o Makefile', cwd=COQ)
        if rc:
            raise RuntimeError(out)


def coq_make(targets=None, jobs=NCPU, timeout=3000, keep_going=False):
    """full .vo build (never -vos) of the given targets (paths relative to coq/), or everything.
    Serialised by a lock file so that concurrent checks do not race on the Makefile or on .vo files."""
    import fcntl
    os.makedirs(os.path.join(COQ, 'extracted'), exist_ok=True)
    with open(os.path.join(COQ, '.build.lock'), 'w') as lk:
        fcntl.flock(lk, fcntl.LOCK_EX)
        coq_makefile()
        tg = ' '.join(targets) if targets else ''
        rc, out = sh(f'timeout {timeout} make {"-k " if keep_going else ""}-j{jobs} {tg}', cwd=COQ, timeout=timeout + 60)
    return rc, out


def first_error(out):
    m = re.search(r'File "\./(theories/[^"]+)", line (\d+)', out)
    if not m:
        return None, None, out[-2000:]
    f, line = m.group(1), int(m.group(2))
    name = None
    try:
        lines = open(os.path.join(COQ, f)).read().splitlines()
        for k in range(min(line, len(lines)) - 1, -1, -1):
            mm = re.match(r'\s*(Theorem|Lemma|Example|Definition|Corollary|Fact)\s+(\w+)', lines[k])
            if mm:
                name = mm.group(2)
                break
    except OSError:
        pass
    idx = out.find(m.group(0))
    return f, name, out[idx:idx + 1500]


STDLIB_AXIOM_BASENAMES = {
    'sig_forall_dec', 'sig_not_dec', 'functional_extensionality_dep', 'classic', 'proof_irrelevance',
    'eq_rect_eq', 'JMeq_eq', 'constructive_indefinite_description', 'constructive_definite_description',
    'propositional_extensionality', 'epsilon_statement', 'dependent_unique_choice', 'relational_choice',
}


def parse_assumptions(out):
    """names printed by Print Assumptions: entries start in column 0 inside an `Axioms:` block and may be
    printed unqualified when their module is imported"""
    names, closed, inblk = [], 0, False
    for line in out.splitlines():
        if line.startswith('Closed under the global context'):
            closed += 1
            inblk = False
        elif line.startswith('Axioms:'):
            inblk = True
        elif inblk and line and not line[0].isspace():
            m = re.match(r'([A-Za-z_][\w\.\']*)', line)
            if m and (len(line) == len(m.group(1)) or line[len(m.group(1))] in ' :'):
                names.append(m.group(1))
            else:
                inblk = False
    return sorted(set(names)), closed


def print_assumptions(prop):
    """recompile Properties/Cxx.v by itself and collect the output of its Print Assumptions; every axiom is
    resolved to its fully qualified name with `Locate` and accepted only if the standard library declares it"""
    f = f'theories/Properties/{prop}.v'
    rc, out = sh(f'timeout 900 coqc -Q theories LV {f}', cwd=COQ, timeout=960)
    src = open(os.path.join(COQ, f)).read()
    src_nc = re.sub(r'\(\*.*?\*\)', '', src, flags=re.S)
    theorems = re.findall(r'^\s*Theorem\s+(\w+)', src_nc, flags=re.M)
    printed = re.findall(r'Print\s+Assumptions\s+(\w+)', src_nc)
    names, closed = parse_assumptions(out)
    full, unknown = [], []
    todo = [n for n in names if not (n.startswith(STDLIB_AXIOM_MODULES) or n in ALLOWED_AXIOMS)]
    located = {}
    if todo and rc == 0:
        tmp = os.path.join(COQ, f'xpa_{prop}.v')
        open(tmp, 'w').write(src + '\n' + ''.join(f'Locate {n}.\n' for n in todo))
        rc2, out2 = sh(f'timeout 900 coqc -Q theories LV xpa_{prop}.v', cwd=COQ, timeout=960)
        for ext in ('.v', '.vo', '.vok', '.vos', '.glob'):
            try:
                os.remove(tmp[:-2] + ext)
            except OSError:
                pass
        try:
            os.remove(os.path.join(COQ, f'.xpa_{prop}.aux'))
        except OSError:
            pass
        for n in todo:
            m = re.search(r'^(?:Constant|Axiom)\s+(\S*\b' + re.escape(n.split('.')[-1]) + r')\s*$', out2, flags=re.M)
            if m:
                located[n] = m.group(1)
    for n in names:
        q = located.get(n, n)
        full.append(q)
        ok = (q.startswith('Coq.') or q.startswith(STDLIB_AXIOM_MODULES) or q in ALLOWED_AXIOMS)
        if not ok:
            unknown.append(q)
    return {'rc': rc, 'theorems': theorems, 'printed': printed, 'axioms': sorted(set(full)), 'unknown': unknown,
            'closed': closed, 'raw': out}


# --------------------------------------------------------------------------------------
# extracted model binaries
# --------------------------------------------------------------------------------------
def build_model(name):
    """compile coq/extracted/run_<name>.ml with the generic driver; returns the binary path"""
    src = os.path.join(COQ, 'extracted', f'run_{name}.ml')
    if not os.path.exists(src):
        raise RuntimeError(f'missing extraction output {src}')
    d = os.path.join(BUILD, name)
    os.makedirs(d, exist_ok=True)
    binp = os.path.join(d, 'model')
    drv = os.path.join(ROOT, 'ocaml', 'driver.ml')
    stamp = os.path.join(d, 'stamp')
    h = hashlib.sha256(open(src, 'rb').read() + open(drv, 'rb').read()).hexdigest()
    if os.path.exists(binp) and os.path.exists(stamp) and open(stamp).read() == h:
        return binp
    shutil.copy(src, os.path.join(d, 'model.ml'))
    shutil.copy(src + 'i', os.path.join(d, 'model.mli'))
    shutil.copy(drv, os.path.join(d, 'driver.ml'))
    rc, out = sh('ocamlfind ocamlopt -O3 -w -a model.mli model.ml driver.ml -o model', cwd=d, timeout=600)
    if rc:
        raise RuntimeError('ocaml build failed:\n' + out)
    open(stamp, 'w').write(h)
    return binp


def run_model(binp, cases, shards=NCPU, timeout=3000):
    """cases: list of lists of ints -> list of lists of ints (same order)"""
    if not cases:
        return []
    shards = max(1, min(shards, len(cases)))
    chunks = [cases[i::shards] for i in range(shards)]

    def work(chunk):
        inp = '\n'.join(' '.join(str(int(x)) for x in c) for c in chunk) + '\n'
        p = subprocess.run([binp], input=inp, stdout=subprocess.PIPE, stderr=subprocess.PIPE,
                           text=True, timeout=timeout,
                           preexec_fn=lambda: __import__('resource').setrlimit(
                               __import__('resource').RLIMIT_STACK,
                               (__import__('resource').RLIM_INFINITY, __import__('resource').RLIM_INFINITY)))
        if p.returncode != 0:
            raise RuntimeError(f'model binary failed rc={p.returncode}: {p.stderr[-500:]}')
        lines = p.stdout.split('\n')
        if lines and lines[-1] == '':
            lines.pop()
        if len(lines) != len(chunk):
            raise RuntimeError(f'model binary returned {len(lines)} lines for {len(chunk)} cases')
        return [[int(t, 2) for t in ln.split()] for ln in lines]

    with ThreadPoolExecutor(max_workers=shards) as ex:
        res = list(ex.map(work, chunks))
    out = [None] * len(cases)
    for s, r in enumerate(res):
        for k, v in enumerate(r):
            out[s + k * shards] = v
    return out


def vm_crosscheck(name, runfun, pairs, tag):
    """re-evaluate a sample of cases with vm_compute inside coqc; each must equal the binary's output"""
    if not pairs:
        return 0, None
    d = os.path.join(COQ, 'theories', 'Extract')
    fn = os.path.join(COQ, f'xcheck_{tag}.v')
    with open(fn, 'w') as fh:
        fh.write(f'From LV Require Import Extract.Run{name.upper()}.\nFrom Coq Require Import ZArith List.\n'
                 'Import ListNotations.\nOpen Scope Z_scope.\n')
        for k, (inp, out) in enumerate(pairs):
            li = '; '.join(f'({x})' if x < 0 else str(x) for x in inp)
            lo = '; '.join(f'({x})' if x < 0 else str(x) for x in out)
            fh.write(f'Goal {runfun} [{li}] = [{lo}]. Proof. vm_compute. reflexivity. Qed.\n')
    rc, out = sh(f'timeout 900 coqc -Q theories LV {os.path.basename(fn)}', cwd=COQ, timeout=960)
    for ext in ('.v', '.vo', '.vok', '.vos', '.glob'):
        try:
            os.remove(fn[:-2] + ext)
        except OSError:
            pass
    try:
        os.remove(os.path.join(COQ, f'.xcheck_{tag}.aux'))
    except OSError:
        pass
    return len(pairs), (out[-1500:] if rc else None)


# --------------------------------------------------------------------------------------
# codec (mirror of Lib/Codec.v)
# --------------------------------------------------------------------------------------
def frac(x):
    if isinstance(x, Fraction):
        return x
    if isinstance(x, int):
        return Fraction(x)
    if isinstance(x, float):
        return Fraction(*x.as_integer_ratio())
    import numpy as np
    if isinstance(x, np.integer):
        return Fraction(int(x))
    if isinstance(x, np.floating):
        return Fraction(*float(x).as_integer_ratio())
    if isinstance(x, str):
        return Fraction(x)
    raise TypeError(type(x))


def enc_q(x):
    f = frac(x)
    return [f.numerator, f.denominator]


def enc_c(z):
    if isinstance(z, tuple):
        return enc_q(z[0]) + enc_q(z[1])
    z = complex(z)
    return enc_q(z.real) + enc_q(z.imag)


def enc_arr(a):
    """a: 2-d numpy array (real or complex)"""
    import numpy as np
    a = np.asarray(a)
    out = [a.shape[0], a.shape[1]]
    for v in a.ravel():
        out += enc_c(complex(v))
    return out


def enc_opt(x, enc):
    return [0] if x is None else [1] + enc(x)


def enc_list(xs, enc):
    out = [len(xs)]
    for x in xs:
        out += enc(x)
    return out


class Reader:
    def __init__(self, ints, L=1):
        self.a = ints
        self.i = 0
        self.L = L

    def z(self):
        v = self.a[self.i]
        self.i += 1
        return v

    def q(self):
        n = self.z()
        d = self.z()
        if d <= 0:
            raise ValueError('malformed rational from model')
        return Fraction(n, d)

    def c(self):
        return (self.q(), self.q())

    def k(self):
        """group-ring element: L complex-rational coefficients"""
        return [self.c() for _ in range(self.L)]

    def arr(self, elem=None):
        n = self.z()
        m = self.z()
        elem = elem or self.k
        return [[elem() for _ in range(m)] for _ in range(n)]

    def opt(self, f):
        return f() if self.z() else None

    def lst(self, f):
        return [f() for _ in range(self.z())]

    def done(self):
        return self.i == len(self.a)


ERRNAMES = {1: 'ValueError', 2: 'TypeError', 3: 'IndexError', 4: 'NotImplementedError',
            5: 'AssertionError', 6: 'AttributeError'}


def kval(coeffs, L):
    """evaluate a group-ring element numerically: sum c_k exp(-2 pi i k / L)"""
    import cmath
    import math
    if L == 1:
        return complex(float(coeffs[0][0]), float(coeffs[0][1]))
    tot = 0j
    for k, (re_, im_) in enumerate(coeffs):
        if re_ or im_:
            tot += complex(float(re_), float(im_)) * cmath.exp(-2j * math.pi * k / L)
    return tot


def kexact(coeffs):
    """for L == 1: the exact complex rational"""
    return coeffs[0]


# --------------------------------------------------------------------------------------
# evidence, findings, replays
# --------------------------------------------------------------------------------------
def load_known():
    out = []
    p = os.path.join(ROOT, 'known_findings.json')
    if os.path.exists(p):
        out += json.load(open(p)).get('findings', [])
    return out


def case_hash(case):
    return hashlib.sha1(json.dumps(case, sort_keys=True, default=str).encode()).hexdigest()


def write_replay(prop, payload):
    d = os.path.join(ROOT, 'replays')
    os.makedirs(d, exist_ok=True)
    h = case_hash(payload)[:12]
    p = os.path.join(d, f'{prop}-{h}.json')
    json.dump(payload, open(p, 'w'), indent=1, default=str)
    return p


def write_evidence(prop, ev):
    # development runs against a scratch copy (VERIF_REPO) must not overwrite the evidence of /repo
    # ... and neither must a run against /repo with a seeded patch applied (seeded/validate.py sets VERIF_DEV_EVIDENCE)
    dev = REPO != '/repo' or os.environ.get('VERIF_DEV_EVIDENCE') == '1'
    d = os.path.join(ROOT, 'replays', 'dev-evidence') if dev else os.path.join(ROOT, 'evidence')
    os.makedirs(d, exist_ok=True)
    json.dump(ev, open(os.path.join(d, f'{prop}.json'), 'w'), indent=1, default=str)


def load_corpus(prop):
    d = os.path.join(ROOT, 'corpus', prop.lower())
    out = []
    if os.path.isdir(d):
        for f in sorted(os.listdir(d)):
            if f.endswith('.json'):
                j = json.load(open(os.path.join(d, f)))
                if isinstance(j, list):
                    out += j
                else:
                    out.append(j)
    return out


def jsonable(x):
    import numpy as np
    if isinstance(x, Fraction):
        return str(x)
    if isinstance(x, (np.integer,)):
        return int(x)
    if isinstance(x, (np.floating,)):
        return float(x)
    if isinstance(x, complex):
        return [x.real, x.imag]
    if isinstance(x, np.ndarray):
        return jsonable(x.tolist())
    if isinstance(x, dict):
        return {str(k): jsonable(v) for k, v in x.items()}
    if isinstance(x, (list, tuple)):
        return [jsonable(v) for v in x]
    return x
