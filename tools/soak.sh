#!/bin/sh
# development soak: quick tier for several seeds, then the thorough tier, on the unchanged tree
cd "$(dirname "$0")/.."
for s in 1 2 3 4; do echo "== quick seed $s"; tools/runall.sh $s; done
echo "== thorough seed 0"
for i in 01 02 03 04 05 06 07 08 09 10 11 12 13 14 15 16 17 18 19 20; do
  /usr/bin/time -f "C$i %es" ./check C$i --tier thorough 2>&1 | grep -E "^(OK|VIOLATION|C[0-9]+ [0-9.]+s)" | cut -c1-170
done
