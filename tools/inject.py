#!/usr/bin/env python3
"""Rebuild section 10 of DESIGN.md from tools/section10.md + tables computed from evidence/, known_findings.json,
seeded/results.json and /repo's git log.  Idempotent: replaces everything between the section-10 heading and
appendix A."""
import json, os, subprocess, io, contextlib, glob
R = os.path.dirname(os.path.dirname(os.path.abspath(__file__)))


def evidence_table():
    rows = ['| property | theorems | axioms (Print Assumptions) | quick tier: cases | distinct non-trivial | compared with model | wall s |',
            '|---|---|---|---|---|---|---|']
    for f in sorted(glob.glob(os.path.join(R, 'evidence', 'C*.json'))):
        e = json.load(open(f)); c = e['coverage']
        ax = sorted({a.split('.')[-1] for a in c.get('axioms', []) if not a.startswith(('PrimFloat', 'PrimInt63'))})
        if any(a.startswith(('PrimFloat', 'PrimInt63')) for a in c.get('axioms', [])):
            ax.append('PrimFloat/PrimInt63 primitives')
        rows.append(f"| {e['property_id']} | {c.get('discharged')}/{c.get('obligations')} | {', '.join(ax) or 'none (closed)'} | "
                    f"{c.get('evaluations')} ({e['tier']}) | {c.get('distinct_nontrivial')} | {c.get('compared_with_model')} | {e['wall_s']} |")
    return '\n'.join(rows)


def theorem_list():
    out = []
    for f in sorted(glob.glob(os.path.join(R, 'evidence', 'C*.json'))):
        e = json.load(open(f)); c = e['coverage']
        th = c.get('theorems', [])
        out.append(f"* **{e['property_id']}** ({len(th)}): " + ', '.join(f'`{t}`' for t in th))
        ex = c.get('extra') or {}
        st = ex.get('source_translation') if isinstance(ex, dict) else None
        st = st or (ex if isinstance(ex, dict) and 'translated' in ex else None)
        if isinstance(st, dict) and st.get('theorems'):
            ths = st['theorems'] if isinstance(st['theorems'], list) else []
            if ths:
                out.append(f"  source-translation statements ({len(ths)}): " + ', '.join(f'`{t}`' for t in ths))
    return '\n'.join(out)


def seeded_table():
    p = os.path.join(R, 'seeded', 'results.json')
    res = json.load(open(p)) if os.path.exists(p) else {}
    rows = ['| seeded change | breaks | what it needs to manifest | caught by its property check | other checks that alarm |', '|---|---|---|---|---|']
    for d in sorted(glob.glob(os.path.join(R, 'seeded', 'C*-*'))):
        sid = os.path.basename(d)
        try:
            meta = json.load(open(os.path.join(d, 'meta.json')))
        except Exception:
            meta = {}
        r = res.get(sid, {})
        prop = meta.get('property', r.get('property'))
        ch = r.get('checks', {})
        own = ch.get(prop)
        if isinstance(own, dict):
            caught = 'yes' if own['rc'] == 1 else '**no**'
        elif r.get('applies') is False or meta.get('applies_to'):
            caught = 'yes (at the commit it applies to; see meta.json)'
        else:
            caught = 'not run'
        others = [p2 for p2, v in ch.items() if p2 != prop and isinstance(v, dict) and v['rc'] == 1]
        needs = ' '.join(str(meta.get('needs', '')).split())[:150]
        rows.append(f"| {sid} | {prop} | {needs} | {caught} | {', '.join(others)} |")
    return '\n'.join(rows)


def known_rows():
    kf = json.load(open(os.path.join(R, 'known_findings.json')))['findings']
    rows = ['| id | property | what fails |', '|---|---|---|']
    for f in kf:
        if f['status'] == 'known':
            rows.append(f"| {f['id']} | {f['property']} | {' '.join(f['what'].split())[:420]} |")
    return '\n'.join(rows)


def fix_rows():
    kf = json.load(open(os.path.join(R, 'known_findings.json')))['findings']
    listed = ('a1d0f6b', '5043f95', 'e3b3112', 'fa33e15', '732bed0', 'b3500d9', 'bd5263a', 'bbdee10')
    old = {'d3fa362', '367bada', 'd811417', '9a24007', '3432b87', '41ad6c4', '7d77e46', '3072ddf', 'cac6dc4', 'f003478', '10b9a45',
           '29130ac', '068d3e0', '02855c0', 'dd16df9', 'dc17bcf', '19e6dbb', '6d91c01', '595c6c6', '3cdc6c5', '9f3f06f'}
    rows, seen = [], set()
    for f in kf:
        c = f.get('commit')
        if f['status'] == 'fixed' and c and c not in listed and c not in old:
            key = (c, f['property'])
            if key in seen:
                continue
            seen.add(key)
            rows.append(f"| {c} | {f['property']} | {' '.join(f['what'].split())[:300]} |")
    return '\n'.join(rows)


def inventory():
    out = []
    for f in sorted(glob.glob(os.path.join(R, 'workpackages', 'inventory', 'C*.md'))):
        body = open(f).read().strip()
        out.append(f"#### {os.path.basename(f)[:-3]}\n\n" + body)
    return '\n\n'.join(out) if out else '(no inventory files yet)'


def main():
    s10 = open(os.path.join(R, 'tools', 'section10.md')).read()
    s10 = s10.replace('<!-- TABLE:evidence -->', evidence_table())
    s10 = s10.replace('<!-- TABLE:seeded -->', seeded_table())
    s10 = s10.replace('<!-- KNOWNROWS -->', known_rows())
    s10 = s10.replace('<!-- FIXROWS -->', fix_rows())
    s10 = s10.replace('<!-- THEOREMS -->', theorem_list())
    s10 = s10.replace('<!-- INVENTORY -->', inventory())
    p = os.path.join(R, 'DESIGN.md')
    d = open(p).read()
    a = d.index('## A. Appendix')
    if '## 10. Build record' in d:
        start = d.index('## 10. Build record')
    else:
        start = a
    sep = '--------------------------------------------------------------------------------------------\n\n'
    head = d[:start].rstrip('\n')
    if head.endswith('-' * 20):
        head = head.rstrip('-').rstrip('\n')
    d2 = head + '\n\n' + sep + s10.rstrip('\n') + '\n\n' + sep + d[a:]
    open(p, 'w').write(d2)
    print('DESIGN.md section 10 rebuilt:', len(s10), 'chars')


if __name__ == '__main__':
    main()
