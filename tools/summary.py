#!/usr/bin/env python3
"""Print markdown tables summarising evidence/*.json and seeded/results.json (for DESIGN.md)."""
import json, glob, os
R = os.path.dirname(os.path.dirname(os.path.abspath(__file__)))
print('| property | theorems | axioms (Print Assumptions) | tier | cases | distinct non-trivial | compared with model | wall s |')
print('|---|---|---|---|---|---|---|---|')
for f in sorted(glob.glob(os.path.join(R, 'evidence', 'C*.json'))):
    e = json.load(open(f)); c = e['coverage']
    ax = sorted({a.split('.')[-1] for a in c.get('axioms', []) if not a.startswith(('PrimFloat', 'PrimInt63'))})
    if any(a.startswith(('PrimFloat', 'PrimInt63')) for a in c.get('axioms', [])):
        ax.append('PrimFloat/PrimInt63 primitives')
    print(f"| {e['property_id']} | {c.get('discharged')}/{c.get('obligations')} | {', '.join(ax) or 'none (closed)'} | {e['tier']} | "
          f"{c.get('evaluations')} | {c.get('distinct_nontrivial')} | {c.get('compared_with_model')} | {e['wall_s']} |")
p = os.path.join(R, 'seeded', 'results.json')
if os.path.exists(p):
    print()
    print('| seeded change | breaks | what it needs | caught by its property check | other checks that alarm |')
    print('|---|---|---|---|---|')
    res = json.load(open(p))
    for sid in sorted(res):
        r = res[sid]
        try:
            meta = json.load(open(os.path.join(R, 'seeded', sid, 'meta.json')))
        except Exception:
            meta = {}
        prop = r.get('property')
        ch = r.get('checks', {})
        own = ch.get(prop)
        caught = 'yes' if isinstance(own, dict) and own['rc'] == 1 else ('check not built' if own == 'check not built' else 'NO')
        others = [p2 for p2, v in ch.items() if p2 != prop and isinstance(v, dict) and v['rc'] == 1]
        print(f"| {sid} | {prop} | {str(meta.get('needs', ''))[:110]} | {caught} | {', '.join(others)} |")
