#!/bin/sh
# run every quick check once (development convenience); usage: tools/runall.sh [seed]
cd "$(dirname "$0")/.."
for i in 01 02 03 04 05 06 07 08 09 10 11 12 13 14 15 16 17 18 19 20; do
  VERIF_SEED=${1:-0} ./check C$i 2>&1 | grep -E "^(OK|VIOLATION)" | cut -c1-160
done
