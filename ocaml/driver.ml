(* Generic driver for an extracted model: one case per input line (space separated decimal
   integers), one result line (integers in binary, parsed by Python's int(s, 2)).
   Only the extracted Z operations are used to build the inputs. *)
open Model
let rec pos_of_int (n:int) : positive =
  if n = 1 then XH else if n land 1 = 0 then XO (pos_of_int (n lsr 1)) else XI (pos_of_int (n lsr 1))
let z_of_int (n:int) : z = if n = 0 then Z0 else if n > 0 then Zpos (pos_of_int n) else Zneg (pos_of_int (-n))
let big = z_of_int 1000000000
(* decimal string -> z, nine digits at a time *)
let z_of_string (s:string) : z =
  let neg = String.length s > 0 && s.[0] = '-' in
  let start = if neg then 1 else 0 in
  let len = String.length s - start in
  let acc = ref Z0 in
  let first = len mod 9 in
  let pos = ref start in
  if first > 0 then begin acc := z_of_int (int_of_string (String.sub s !pos first)); pos := !pos + first end;
  while !pos < String.length s do
    acc := Z.add (Z.mul !acc big) (z_of_int (int_of_string (String.sub s !pos 9)));
    pos := !pos + 9
  done;
  if neg then Z.opp !acc else !acc
let buf = Buffer.create 65536
let rec add_pos p = match p with
  | XH -> Buffer.add_char buf '1'
  | XO q -> add_pos q; Buffer.add_char buf '0'
  | XI q -> add_pos q; Buffer.add_char buf '1'
let add_z z = match z with
  | Z0 -> Buffer.add_char buf '0'
  | Zpos p -> add_pos p
  | Zneg p -> Buffer.add_char buf '-'; add_pos p
let () =
  try while true do
    let line = input_line stdin in
    let toks = List.filter (fun s -> s <> "") (String.split_on_char ' ' line) in
    let inp = List.map z_of_string toks in
    let out = run inp in
    Buffer.clear buf;
    List.iteri (fun i z -> if i > 0 then Buffer.add_char buf ' '; add_z z) out;
    Buffer.add_char buf '\n';
    print_string (Buffer.contents buf)
  done with End_of_file -> ()
